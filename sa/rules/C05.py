"""C05 -- Uploaded tag list and type definitions mirror the controller."""
from __future__ import annotations

import ast

from ..astutil import attr_path, call_name, walk, src, dump
from ..consteval import UNKNOWN, ClassRef
from ..framework import rule
from ..miniinterp import _is_logging_call
from ..guards import branch_outcome
from ..linexpr import Lin, atom_name, cmp_norm, lin
from .C16 import struct_members
from .common import witness_instance, CT, LX, ckey

P = "C05"
EXPLANATION = (
    "Static rules D5.1-D5.9 (DESIGN.md section 5, C05): the symbol attributes requested and the record fields decoded agree in "
    "count, order and widths with the Logix data-access specification, under the same firmware predicate on both sides; "
    "pagination (loop until -1, continue from last instance + 1, one list across pages); symbol-type bit fields against the "
    "specification at every use site; the system/program/routine/task/map filters dominate the append of a user tag while "
    "I/O module tags are kept; template read offsets (contiguous, remaining size, terminate on success); member record layout; "
    "private/visible member classification and string detection with capacity = structure size - length field; the JSON view "
    "excludes every class-valued key; template attribute request vs decoder order. Decides structure and agreement; that names "
    "and offsets equal a particular controller's project is run-time data."
)
ASSUMPTIONS = ["spec/logix_symbol.json transcribes 1756-PM020 correctly", "controllers answer Get Instance Attribute List with the attributes in request order"]


def _lx(ctx):
    return ctx.model.cls(f"{LX}:LogixDriver")


def _decode_sequence(ctx, fn, module, body):
    """[(type name, conditional test dump or None)] of `T.decode(stream)` calls in source order inside `body`."""
    out = []

    def visit(stmts, cond):
        for st in stmts:
            if isinstance(st, ast.If):
                visit(st.body, dump(st.test))
                continue
            for c in sorted([x for x in walk(st) if isinstance(x, ast.Call) and isinstance(x.func, ast.Attribute) and x.func.attr == "decode" and x.args and atom_name(x.args[0]) == "stream"], key=lambda x: (x.lineno, x.col_offset)):
                v = ctx.folder.eval(c.func.value, module)
                out.append((v.ci.name if isinstance(v, ClassRef) else atom_name(c.func.value), cond))

    visit(body, None)
    return out


@rule(P, "D5.1", "T-WITNESS", floor=3)
def d5_1(ctx):
    """The symbol attributes requested and the record fields decoded agree in count, order and widths, under the same firmware
    predicate.  Decided by folding the request loop and the reply parser on witnesses (D5.16): the attribute list of each
    request (6 attributes, 7 from the firmware that has external access) and the record layout the parser reads for both
    firmware classes."""
    from .driver import d5_16

    d5_16(ctx)


@rule(P, "D5.2", "T-WITNESS", floor=3)
def d5_2(ctx):
    """Pagination: the loop runs until the parser says -1, each request starts at the instance the parser returned (0 first), the
    parser returns -1 on success and last decoded instance + 1 on a partial transfer, and one list collects all pages.
    Decided by folding both on witnesses (D5.16)."""
    from .driver import d5_16

    d5_16(ctx)


@rule(P, "D5.3", "T-WITNESS", floor=7)
def d5_3(ctx):
    """Symbol-type bit fields equal the specification wherever they are used: structure flag 0x8000, dimensions 0x6000 >> 13,
    template id 0x0FFF, elementary code 0x00FF, BOOL bit position 0x0700 >> 8, system flag 0x1000; alias = bit 26 of the software
    control word clear.  The witness symbol words are built from the specification table, never from the code's masks; the tag
    record builder, the member record parser and the symbol classifier are folded on them (D5.11, D5.12).  An earlier form
    counted the mask expressions per function and matched the alias conditional expression; `not (x & BIT)` alarmed."""
    from ..miniinterp import run_function as _run

    lx = _lx(ctx)
    sp = ctx.spec("logix_symbol")
    btb = ctx.folder.module_value("pycomm3.const", "BASE_TAG_BIT")
    ctx.check(btb == sp["base_tag_bit"], "pycomm3.const:BASE_TAG_BIT", lx.node, f"BASE_TAG_BIT = {sp['base_tag_bit']:#x} (bit 26)", f"BASE_TAG_BIT is {btb!r}; the specification has {sp['base_tag_bit']:#x}")
    ct = lx.methods["_create_tag"]
    bit = sp["base_tag_bit"]

    def hook(call, env, it):
        if (attr_path(call.func) or "") == "DataTypes.get_type" or (call_name(call) or "") in ("Array", "str", "reduce"):
            return "x"
        return UNKNOWN

    for label, sc, want in (("only bit 26 set", bit, False), ("every bit but 26", 0xFFFFFFFF & ~bit, True), ("zero", 0, True), ("all ones", 0xFFFFFFFF, False)):
        rt = {"symbol_type": 0x00C4, "software_control": sc, "instance_id": 5, "symbol_address": 1, "symbol_object_address": 2, "external_access": "Read/Write", "dimensions": [0, 0, 0]}
        kind, res = _run(ctx, lx.module, ct, {"self": witness_instance(lx), ct.args.args[1].arg: "T", ct.args.args[2].arg: rt}, call_hook=hook, deep=False)
        key = ckey(lx.key + "._create_tag", f"alias:{label}")
        if kind == "unknown":
            ctx.undecided(key, ct, f"_create_tag not foldable on software control {sc:#x}: {res}")
        else:
            ctx.check(kind == "return" and isinstance(res, dict) and res.get("alias") is want, key, ct, f"software control {sc:#010x} ({label}) -> alias {want}", f"software control {sc:#010x} ({label}) gives alias {res.get('alias') if isinstance(res, dict) else res!r}; bit 26 set means a base tag (alias False)")
    d5_11(ctx)
    d5_12(ctx)


@rule(P, "D5.4", "T-DOM", floor=6)
def d5_4(ctx):
    """Every path to user_tags.append has evaluated the program/routine/task/map/junk/system filters to false; I/O module tags are kept."""
    lx = _lx(ctx)
    fn = lx.methods["_isolate_user_tags"]
    g = ctx.cfg(fn)
    app = [n for n in g.nodes if n.kind == "stmt" and n.ast is not None and any(isinstance(c, ast.Call) and attr_path(c.func) == "user_tags.append" for c in walk(n.ast))]
    if len(app) != 1:
        ctx.undecided(ckey(lx.key + "._isolate_user_tags", "append"), fn, f"expected one user_tags.append, found {len(app)}")
        return
    A = app[0]
    tests = [t for t in g.nodes if t.kind == "test"]

    def find(pred):
        return [t for t in tests if pred(src(t.ast).replace('"', "'").replace(" ", ""))]

    required = [
        ("program", lambda s: s == "name.startswith('Program:')"),
        ("routine", lambda s: s == "name.startswith('Routine:')"),
        ("task", lambda s: s == "name.startswith('Task:')"),
        ("map-cxn", lambda s: s in ("'Map:'innameor'Cxn:'inname", "'Cxn:'innameor'Map:'inname")),
        ("junk", lambda s: s in ("notio_tagand':'innameorname.startswith('__')", "(notio_tagand':'inname)orname.startswith('__')")),
        ("system", lambda s: s.startswith("tag['symbol_type']&")),
    ]
    for role, pred in required:
        ts = find(pred)
        ok = len(ts) == 1 and g.branch_dominates(ts[0], False, A)
        ctx.check(ok, ckey(lx.key + "._isolate_user_tags", f"filter:{role}"), ts[0].ast if ts else fn, f"the {role} filter is false on every path to the append", f"a path reaches user_tags.append without the {role} filter having rejected the symbol: such symbols appear as user tags")
        if ts and role in ("program", "routine", "task", "map-cxn", "junk", "system"):
            # the true branch must skip the symbol (continue), not fall through to the append
            seen, stack = set(), [s for s, lab in ts[0].succ if lab is True]
            reaches = False
            while stack:
                x = stack.pop()
                if x is A:
                    reaches = True
                if x in seen or x.kind == "test" and x.label == "for":
                    continue
                seen.add(x)
                stack.extend(s for s, lab in x.succ if lab != "exc")
            if reaches:
                ctx.violation(ckey(lx.key + "._isolate_user_tags", f"filter:{role}:skips"), ts[0].ast, f"the {role} filter's true branch still reaches the append")
    io = [n for n in walk(fn) if isinstance(n, ast.If) and isinstance(n.test, ast.Call) and call_name(n.test) == "any" and any(isinstance(s, ast.Assign) and atom_name(s.targets[0]) == "io_tag" and ctx.folder.eval(s.value, lx.module) is True for s in n.body)]
    ok = False
    if len(io) == 1:
        ge = io[0].test.args[0]
        lits = ctx.folder.eval(ge.generators[0].iter, lx.module) if isinstance(ge, ast.GeneratorExp) else None
        ok = isinstance(lits, tuple) and set(lits) == {":I", ":O", ":C", ":S"}
        init = [n for n in walk(fn) if isinstance(n, ast.Assign) and atom_name(n.targets[0]) == "io_tag" and ctx.folder.eval(n.value, lx.module) is False]
        ok = ok and len(init) == 1
    ctx.check(ok, ckey(lx.key + "._isolate_user_tags", "io-tags"), io[0] if io else fn, "module I/O tags (:I :O :C :S) are marked and therefore kept", "I/O module tags are no longer recognised (they would be dropped as junk)")
    # the appended record is built from the same symbol and the (program-qualified) name
    call = [c for c in walk(A.ast) if isinstance(c, ast.Call) and attr_path(c.func) == "self._create_tag"]
    ok = len(call) == 1 and [atom_name(a) for a in call[0].args] == ["name", "tag"]
    pq = any(isinstance(n, ast.If) and src(n.test).replace(" ", "") == "programisnotNone" and any(isinstance(s, ast.Assign) and atom_name(s.targets[0]) == "name" and isinstance(s.value, ast.JoinedStr) and src(s.value) == "f'Program:{program}.{name}'" for s in n.body) for n in walk(fn))
    ctx.check(ok and pq, ckey(lx.key + "._isolate_user_tags", "record"), A.ast, "the user tag is created from this symbol under its (program-qualified) name", "user tag record is not created from (name, tag) / program qualification changed")


@rule(P, "D5.5", "T-WITNESS", floor=3)
def d5_5(ctx):
    """Template read: offset from 0, advanced by the bytes of each reply; every request carries the offset and the bytes still
    missing; the loop ends on success and raises on any status other than 0 / 6; the pieces are concatenated in order.
    Decided by folding `_read_template` on witness replies (D5.17)."""
    from .driver import d5_17

    d5_17(ctx)


@rule(P, "D5.6", "T-WITNESS", floor=3)
def d5_6(ctx):
    """Member record = UINT info, UINT type, UDINT offset (8 bytes); BOOL -> bit number, others -> array length (+ Array type
    when non-zero); the records are member_count consecutive 8-byte chunks paired positionally with the names.  Decided by
    folding the record parser on witness records (D5.18) and `_parse_template_data` on witness templates (D5.13: the record
    parser is a marker that identifies the chunk it was given); an earlier form compared the source text of the stores and of
    the chunking generator."""
    from .driver import d5_18

    d5_18(ctx)
    d5_13(ctx)


@rule(P, "D5.7", "T-WITNESS", floor=3)
def d5_7(ctx):
    """Hidden members (ZZZZZZZZZZ*, __*, unnamed, predefined CTL / Control) are private and never listed as attributes; BOOL
    members become (offset, bit) aliases and the others (type(name), offset); names pair positionally with member records;
    [LEN, DATA(SINT array)] structures are strings of capacity structure_size - 4, everything else a StructTag of the template's
    size.  Decided by folding `_parse_template_data` on witness templates (D5.13); an earlier form compared the source text of the
    classification test and alarmed on `startswith((a, b))`."""
    d5_13(ctx)


@rule(P, "D5.8", "T-WITNESS", floor=1)
def d5_8(ctx):
    """tags_json: every key whose value is a class / DataType instance is excluded; nested definitions are recursed.  Decided by
    folding the property on a witness tag table (two tags, a structure with a nested structure member) whose class-valued keys are
    those the producers store classes under; an earlier form read the excluded set off a dict comprehension."""
    lx = _lx(ctx)
    fn = ctx.model.func(f"{LX}:LogixDriver.tags_json._copy_datatype")
    excl = None
    for n in walk(fn.node):
        if isinstance(n, ast.DictComp):
            for c in n.generators[0].ifs:
                if isinstance(c, ast.Compare) and isinstance(c.ops[0], ast.NotIn):
                    v = ctx.folder.eval(c.comparators[0], lx.module)
                    excl = set(v) if isinstance(v, (frozenset, set, tuple, list)) else None
    # producers of class-valued keys
    classy = set()
    for mname in ("_create_tag", "_parse_template_data_member_info", "_parse_template_data"):
        for n in walk(lx.methods[mname]):
            if isinstance(n, ast.Assign) and isinstance(n.targets[0], ast.Subscript) and isinstance(n.targets[0].slice, ast.Constant):
                k = n.targets[0].slice.value
                v = n.value
                vs = src(v)
                if k in ("type_class",) or "type_class" in vs and k not in ("data_type",) or atom_name(v) in ("type_class", "_type_class") or (isinstance(v, ast.Call) and call_name(v) in ("FixedSizeString", "StructTag", "Array")) or (isinstance(v, ast.Tuple) and "_struct_members" in vs):
                    classy.add(k)
    # the JSON view folded on a witness tag table that carries a class witness under every key the producers store classes under
    # (at every nesting level: tag, its data type, members, their data types): the result holds no class anywhere, keeps every
    # other key and value, and the table itself is left alone
    from ..miniinterp import Obj, run_function

    keys = sorted({"type_class", "_struct_members"} | classy)
    CLS = Obj(kind="class-witness")

    def with_classes(d):
        out = dict(d)
        for k_ in keys:
            out[k_] = CLS if k_ != "_struct_members" else ([(CLS, 0)], {"b": (0, 1)})
        return out

    leaf = with_classes({"tag_type": "atomic", "data_type_name": "DINT", "data_type": "DINT", "offset": 0, "array": 0})
    inner_dt = with_classes({"name": "Inner", "attributes": ["leaf"], "internal_tags": {"leaf": dict(leaf)}, "template": {"structure_size": 4}, "string": None})
    member = with_classes({"tag_type": "struct", "data_type_name": "Inner", "data_type": inner_dt, "offset": 4, "array": 2})
    outer_dt = with_classes({"name": "Outer", "attributes": ["m", "x"], "internal_tags": {"m": member, "x": dict(leaf)}, "template": {"structure_size": 12}})
    tags = {"t1": with_classes({"tag_name": "t1", "tag_type": "atomic", "data_type": "DINT", "data_type_name": "DINT", "dim": 0, "dimensions": [0, 0, 0], "alias": False}),
            "t2": with_classes({"tag_name": "t2", "tag_type": "struct", "data_type": outer_dt, "data_type_name": "Outer", "dim": 1, "dimensions": [3, 0, 0]})}

    def strip(v):
        if isinstance(v, dict):
            return {k_: strip(x) for k_, x in v.items() if k_ not in keys}
        return v

    def has_class(v):
        if v is CLS:
            return True
        if isinstance(v, dict):
            return any(has_class(x) for x in v.values())
        if isinstance(v, (list, tuple)):
            return any(has_class(x) for x in v)
        return False

    import copy as _copy

    tj = ctx.model.func(f"{LX}:LogixDriver.tags_json")
    snapshot = _copy.copy(tags)
    me = witness_instance(lx, _tags=tags)
    kind, res = run_function(ctx, lx.module, tj.node, {"self": me}, deep=False)
    key = ckey(fn, "exclusions")
    if kind == "unknown":
        ctx.undecided(key, tj.node, f"tags_json not foldable on the witness tag table: {res}")
    else:
        want = strip(tags)
        untouched = set(tags) == set(snapshot) and all(tags[k_] is snapshot[k_] and all(kk in tags[k_] for kk in keys) for k_ in tags) and "type_class" in outer_dt and "type_class" in member
        ctx.check(kind == "return" and not has_class(res) and res == want and untouched, key, tj.node, f"class-valued keys {keys} are dropped at every nesting level, everything else is kept, the tag table is left alone",
                  (f"tags_json on the witness tag table gives {kind} {str(res)[:300]}: " + ("a class / DataType instance is left in the JSON view (json.dumps fails)" if has_class(res) else "keys other than the class-valued ones are lost or changed"
                                                                                                   if res != want else "the uploaded tag table itself is modified")), keys=keys)

@rule(P, "D5.9", "T-SIB", floor=3)
def d5_9(ctx):
    """Template attributes 4, 5, 2, 1 are requested and decoded as count + four (attr, status, value) groups with the widths of those attributes, in that order."""
    sp = ctx.spec("logix_symbol")["template_attributes"]
    lx = _lx(ctx)
    # the request (count + attributes 4, 5, 2, 1 by Get Attribute List on the template object) and the copy of each decoded group to the
    # key the consumers read: decided by folding `_get_structure_makeup` together with `_parse_structure_makeup_attributes` on witness
    # replies of the decoded shape (D5.19) - an earlier form read the `attrs` tuple and the source text of four assignments
    from .driver import d5_19

    d5_19(ctx)
    want_ids = ctx.spec("helpers")["structure_makeup"]["attributes_requested"]
    # decoder
    mod = ctx.model.module(CT)
    s = mod.symbols.get("StructTemplateAttributes")
    members = []
    if s is not None and isinstance(s.node, ast.Call):
        for a in s.node.args:
            if isinstance(a, ast.Call) and isinstance(a.func, ast.Call) and call_name(a.func) == "Struct":
                name = {k.arg: ctx.folder.eval(k.value, mod) for k in a.keywords}.get("name")
                inner = []
                for m in a.func.args:
                    v = ctx.folder.eval(m.func, mod) if isinstance(m, ast.Call) else None
                    inner.append((ctx.folder.eval(m.args[0], mod) if isinstance(m, ast.Call) and m.args else None, v.ci.name if isinstance(v, ClassRef) else None))
                members.append((name, inner))
            elif isinstance(a, ast.Call):
                v = ctx.folder.eval(a.func, mod)
                members.append((ctx.folder.eval(a.args[0], mod) if a.args else None, v.ci.name if isinstance(v, ClassRef) else None))
    order = ["object_definition_size", "structure_size", "member_count", "structure_handle"]
    ok = len(members) == 5 and members[0] == ("count", "UINT")
    if ok:
        for (name, inner), aid, key in zip(members[1:], want_ids, order):
            wt = sp[str(aid)][1]
            ok = ok and name == key and isinstance(inner, list) and len(inner) == 3 and inner[0][1] == "UINT" and inner[1][1] == "UINT" and inner[2][1] == wt
    ctx.check(ok, f"{CT}:StructTemplateAttributes", s.node if s is not None else mod.tree, "count + (attr UINT, status UINT, value) x4 with value widths UDINT, UDINT, UINT, UINT in request order", f"StructTemplateAttributes {members} does not decode the requested attributes {want_ids} in order with their widths", members=str(members))
    used = {"object_definition_size": "_get_data_type", "structure_size": "_parse_template_data", "member_count": "_parse_template_data", "structure_handle": "_get_structure_makeup"}
    def reach(m):
        # the method and the methods of the class it calls on self (an extracted helper reads for it)
        seen, todo = [], [m]
        while todo:
            x = todo.pop()
            if x in seen or x not in lx.methods:
                continue
            seen.append(x)
            todo.extend(c.func.attr for c in walk(lx.methods[x]) if isinstance(c, ast.Call) and isinstance(c.func, ast.Attribute) and atom_name(c.func.value) == "self")
        return [lx.methods[x] for x in seen]

    for k, m in used.items():
        ok = any((isinstance(n, ast.Subscript) and ctx.folder.eval(n.slice, lx.module) == k) or (isinstance(n, ast.Call) and isinstance(n.func, ast.Attribute) and n.func.attr == "get" and n.args and ctx.folder.eval(n.args[0], lx.module) == k)
                 for f_ in reach(m) for n in walk(f_))
        ctx.check(ok, ckey(f"{lx.key}.{m}", f"uses:{k}"), lx.methods[m], f"{m} reads '{k}'", f"{m} no longer reads template['{k}']")


@rule(P, "D5.10", "T-WITNESS", floor=3)
def d5_10(ctx):
    """Scope prefixes (Program:, Routine:, Task:) are removed as a prefix: under `name.startswith(P)` every string derived
    from the name by a call or slice is folded on witness names P + w whose w begins with characters of P itself
    (`Program:Pump`, `Routine:Reset`, `Task:TaskFast`) and must be exactly w."""
    lx = _lx(ctx)
    fn = lx.methods["_isolate_user_tags"]
    n_sites = 0
    for iff in walk(fn):
        if not (isinstance(iff, ast.If) and isinstance(iff.test, ast.Call) and isinstance(iff.test.func, ast.Attribute) and iff.test.func.attr == "startswith" and len(iff.test.args) == 1):
            continue
        prefix = ctx.folder.eval(iff.test.args[0], lx.module)
        var = atom_name(iff.test.func.value)
        if not isinstance(prefix, str) or not prefix.endswith(":") or not isinstance(iff.test.func.value, ast.Name):
            continue
        stem = prefix[:-1]
        suffixes = [stem + "1", stem[0] + "ump_Ctrl", stem[::-1], "Main" + stem, stem[-1] * 2 + "x", "x_" + stem]  # names are [A-Za-z0-9_]+
        # expressions applied directly to the name: method calls on it, slices of it, and (one level up) subscripts / calls
        # of those, e.g. name.split(":", 1)[1]
        direct = [e for s_ in iff.body for e in walk(s_) if (isinstance(e, ast.Call) and isinstance(e.func, ast.Attribute) and atom_name(e.func.value) == var) or (isinstance(e, ast.Subscript) and atom_name(e.value) == var)]
        derived = []
        for e in direct:
            top = e
            while True:
                p_ = getattr(top, "_parent", None)
                if isinstance(p_, ast.Subscript) and p_.value is top:
                    top = p_
                elif isinstance(p_, ast.Attribute) and isinstance(getattr(p_, "_parent", None), ast.Call) and p_._parent.func is p_ and p_.value is top:
                    top = p_._parent
                else:
                    break
            derived.append(top)
        for e in derived:
            if isinstance(e, ast.Call) and attr_path(e.func) and _is_logging_call(".".join(attr_path(e.func).split(".")[:-1]), attr_path(e.func).split(".")[-1]):
                continue
            vals = {}
            for w in suffixes:
                vals[w] = ctx.folder.eval(e, lx.module, env={var: prefix + w})
            if all(v is UNKNOWN or not isinstance(v, str) for v in vals.values()):
                continue  # not a string derived from the name (e.g. a table look-up keyed by something else)
            n_sites += 1
            bad = {prefix + w: v for w, v in vals.items() if v != w}
            ctx.check(not bad, ckey(lx.key + "._isolate_user_tags", f"strip:{prefix}{'' if n_sites == 1 else ''}#{src(e)[:40]}"), e, f"`{src(e)}` yields the name without the `{prefix}` prefix for every witness",
                      f"`{src(e)}` does not remove exactly the `{prefix}` prefix: {dict(list(bad.items())[:3])} (program / routine / task names beginning with characters of the prefix are mangled; their tags are then requested under a scope that does not exist)", prefix=prefix)
    if n_sites < 3:
        ctx.undecided(ckey(lx.key + "._isolate_user_tags", "strip"), fn, f"only {n_sites} prefix-stripping expressions found under startswith guards")


@rule(P, "D5.11", "T-WITNESS", floor=10)
def d5_11(ctx):
    """Tag records and template member records folded on witness symbol words / member records (sa/miniinterp.py; structure
    definitions, the Array factory and reduce are witnesses): the struct flag, dimension count, template id / elementary code,
    BOOL bit position, array length and member offset of the witness must appear in the record that is built."""
    import struct as _st

    from ..miniinterp import Obj, run_function

    lx = _lx(ctx)
    BASE_TAG_BIT = ctx.folder.module_value(lx.module.name, "BASE_TAG_BIT")

    def hook(call, env, it):
        path = attr_path(call.func) or ""
        name = call_name(call) or ""
        if path == "self._get_data_type":
            iid = it.ev(call.args[0], env)
            return {"name": f"udt{iid}", "type_class": ("struct-class", iid)}
        if name == "Array":
            kw = {k.arg: it.ev(k.value, env) for k in call.keywords}
            args = [it.ev(a, env) for a in call.args]
            return ("array", kw.get("length_", args[0] if args else None), kw.get("element_type_", args[1] if len(args) > 1 else None))
        if path == "DataTypes.get_type":
            from .common import enum_method_results

            tbl = ctx.model.cls("pycomm3.cip.data_types:DataTypes")
            x = it.ev(call.args[0], env)
            res_, _, _ = enum_method_results(ctx, tbl, tbl.methods["get_type"], [x])
            return res_[x]
        if name == "str" and len(call.args) == 1:
            v_ = it.ev(call.args[0], env)
            if isinstance(v_, ClassRef):
                return v_.ci.name  # the data-type metaclass prints a type as its name
            return str(v_) if isinstance(v_, (int, float, str, bytes)) else UNKNOWN
        if name == "reduce":
            seq = it.ev(call.args[1], env)
            out = it.ev(call.args[2], env) if len(call.args) > 2 else 1
            for x in seq:
                out *= x
            return out
        return UNKNOWN

    def cls_name(v):
        return v.ci.name if isinstance(v, ClassRef) else v

    ct = lx.methods["_create_tag"]
    raw = lambda st, dims=(0, 0, 0), sc=0: {"symbol_type": st, "software_control": sc, "instance_id": 5, "symbol_address": 1, "symbol_object_address": 2, "external_access": "Read/Write", "dimensions": list(dims)}  # noqa: E731
    cases = [
        ("DINT scalar", raw(0x00C4), {"tag_type": "atomic", "data_type": "DINT", "data_type_name": "DINT", "dim": 0, "type_class": "DINT"}),
        ("BOOL bit 3", raw(0x03C1), {"tag_type": "atomic", "data_type": "BOOL", "bit_position": 3, "dim": 0, "type_class": "BOOL"}),
        ("REAL[10]", raw(0x20CA, (10, 0, 0)), {"tag_type": "atomic", "data_type": "REAL", "dim": 1, "type_class": ("array", 10, "REAL")}),
        ("DINT[2,3]", raw(0x40C4, (2, 3, 0)), {"tag_type": "atomic", "data_type": "DINT", "dim": 2, "type_class": ("array", 6, "DINT")}),
        ("UDT 0x123", raw(0x8123), {"tag_type": "struct", "data_type_name": "udt291", "template_instance_id": 0x123, "dim": 0, "type_class": ("struct-class", 0x123)}),
        ("UDT 0xFCE [4]", raw(0xAFCE, (4, 0, 0)), {"tag_type": "struct", "template_instance_id": 0xFCE, "dim": 1, "type_class": ("array", 4, ("struct-class", 0xFCE))}),
        ("alias", raw(0x00C4, sc=0), {"alias": True}), ("base tag", raw(0x00C4, sc=BASE_TAG_BIT if isinstance(BASE_TAG_BIT, int) else 0), {"alias": not isinstance(BASE_TAG_BIT, int)}),
    ]
    for label, rt, want in cases:
        kind, res = run_function(ctx, lx.module, ct, {"self": witness_instance(lx), ct.args.args[1].arg: "T", ct.args.args[2].arg: rt}, call_hook=hook, deep=False)
        key = ckey(lx.key + "._create_tag", f"witness:{label}")
        if kind == "unknown":
            ctx.undecided(key, ct, f"_create_tag not foldable on {label}: {res}")
            continue
        if kind != "return" or not isinstance(res, dict):
            ctx.violation(key, ct, f"_create_tag({label}) gives {kind} {res!r} instead of a tag record")
            continue
        norm = lambda v: tuple(norm(x) for x in v) if isinstance(v, tuple) else cls_name(v)  # noqa: E731
        diffs = [f"{k}={norm(res.get(k))!r} (expected {v!r})" for k, v in want.items() if norm(res.get(k)) != v]
        if res.get("tag_name") != "T" or res.get("instance_id") != 5:
            diffs.append("tag_name / copied symbol attributes")
        ctx.check(not diffs, key, ct, f"{label}: {want}", f"tag record for symbol type {rt['symbol_type']:#06x} ({label}) deviates: {diffs}", witness=label)
    mi = lx.methods["_parse_template_data_member_info"]
    mcases = [
        ("DINT @8", _st.pack("<HHI", 0, 0x00C4, 8), {"offset": 8, "tag_type": "atomic", "data_type": "DINT", "data_type_name": "DINT", "type_class": "DINT"}, ("array", 0)),
        ("BOOL bit 5 @3", _st.pack("<HHI", 5, 0x00C1, 3), {"offset": 3, "tag_type": "atomic", "data_type": "BOOL", "bit": 5, "type_class": "BOOL"}, None),
        ("INT[4] @12", _st.pack("<HHI", 4, 0x20C3, 12), {"offset": 12, "tag_type": "atomic", "data_type": "INT", "array": 4, "type_class": ("array", 4, "INT")}, None),
        ("UDT 0x234 @16", _st.pack("<HHI", 0, 0x8234, 16), {"offset": 16, "tag_type": "struct", "data_type_name": "udt564", "type_class": ("struct-class", 0x234)}, ("array", 0)),
        ("UDT 0x234 [3] @20", _st.pack("<HHI", 3, 0xA234, 20), {"offset": 20, "tag_type": "struct", "array": 3, "type_class": ("array", 3, ("struct-class", 0x234))}, None),
        ("UDT 0xFCE @24 (all twelve template-id bits)", _st.pack("<HHI", 0, 0x8FCE, 24), {"offset": 24, "tag_type": "struct", "data_type_name": "udt4046", "type_class": ("struct-class", 0xFCE)}, ("array", 0)),
    ]
    for label, info, want, extra in mcases:
        kind, res = run_function(ctx, lx.module, mi, {"self": witness_instance(lx), mi.args.args[1].arg: info}, call_hook=hook, deep=False)
        key = ckey(lx.key + "._parse_template_data_member_info", f"witness:{label}")
        if kind == "unknown":
            ctx.undecided(key, mi, f"member record not foldable on {label}: {res}")
            continue
        if kind != "return" or not isinstance(res, dict):
            ctx.violation(key, mi, f"member record {label} gives {kind} {res!r}")
            continue
        norm = lambda v: tuple(norm(x) for x in v) if isinstance(v, tuple) else cls_name(v)  # noqa: E731
        diffs = [f"{k}={norm(res.get(k))!r} (expected {v!r})" for k, v in want.items() if norm(res.get(k)) != v]
        if extra is not None and res.get(extra[0]) != extra[1]:
            diffs.append(f"{extra[0]}={res.get(extra[0])!r} (expected {extra[1]!r})")
        if "bit" in want and "array" in res:
            diffs.append("BOOL member carries an array length")
        ctx.check(not diffs, key, mi, f"{label}: {want}", f"template member record {label} deviates: {diffs}", witness=label)


@rule(P, "D5.12", "T-WITNESS", floor=2)
def d5_12(ctx):
    """_isolate_user_tags folded on a witness symbol list (sa/miniinterp.py; tag-record construction is a witness): program /
    routine / task symbols are registered under their names and never listed, module I/O symbols are recorded per module /
    slot and listed, system symbols (Map:, Cxn:, other names with ':', names starting with '__', symbol-type bit 12) are
    dropped, everything else is listed once, in order, with the program prefix when a program is given."""
    from ..miniinterp import Obj, run_function

    lx = _lx(ctx)
    fn = lx.methods["_isolate_user_tags"]
    sym = lambda name, st=0x00C4, iid=1: {"tag_name": name, "symbol_type": st, "instance_id": iid}  # noqa: E731
    symbols = [sym("Program:MainProgram", 0x68, 10), sym("Program:Pump_Ctrl", 0x68, 11), sym("Task:MainTask", 0x70, 12), sym("Task:TaskFast", 0x70, 13), sym("Map:Local", 0x69, 14), sym("Cxn:Standard:abc", 0x7E, 15),
               sym("Local:1:I", 0x8123, 16), sym("Local:1:O", 0x8124, 17), sym("Drive:I", 0x8125, 18), sym("__hidden", 0x00C4, 19), sym("Sys:Junk:x:y", 0x00C4, 20), sym("Internal", 0x10C4, 21),
               sym("Counter", 0x00C4, 22), sym("Flags", 0x20D3, 23), sym("Routine:Reset", 0x6D, 24), sym("Rack:I:Data", 0x8126, 25), sym("Rack:O:Data", 0x8127, 26), sym("Adapter:3:I:Fault", 0x8128, 27)]

    def hook(call, env, it):
        if attr_path(call.func) == "self._create_tag":
            return ("tag", it.ev(call.args[0], env))
        return UNKNOWN

    for program in (None, "MainProgram"):
        me = witness_instance(lx, _info={"programs": {"MainProgram": {"instance_id": 10, "routines": []}} if program else {}, "tasks": {}, "modules": {}}, _cache={"tag_name:id": {}})
        kind, res = run_function(ctx, lx.module, fn, {"self": me, fn.args.args[1].arg: [dict(s) for s in symbols], fn.args.args[2].arg: program}, call_hook=hook, deep=False)
        key = ckey(lx.key + "._isolate_user_tags", f"witness:program={program}")
        if kind == "unknown":
            ctx.undecided(key, fn, f"_isolate_user_tags not foldable: {res}")
            continue
        prefix = f"Program:{program}." if program else ""
        want_tags = [("tag", prefix + n) for n in ("Local:1:I", "Local:1:O", "Drive:I", "Counter", "Flags", "Rack:I:Data", "Rack:O:Data", "Adapter:3:I:Fault")]
        diffs = []
        if kind != "return" or res != want_tags:
            diffs.append(f"listed {res!r} (expected {want_tags!r})")
        info = me._info
        want_programs = {"MainProgram", "Pump_Ctrl"}
        if set(info["programs"]) != want_programs:
            diffs.append(f"programs {sorted(info['programs'])}")
        if program and info["programs"].get("MainProgram", {}).get("routines") != ["Reset"]:
            diffs.append(f"routines {info['programs'].get('MainProgram')}")
        if set(info["tasks"]) != {"MainTask", "TaskFast"}:
            diffs.append(f"tasks {sorted(info['tasks'])}")
        mods = info["modules"]
        if set(mods) != {"Local", "Drive", "Rack", "Adapter"} or 1 not in mods.get("Local", {}).get("slots", {}) or mods.get("Drive", {}).get("types") != ["I"]:
            diffs.append(f"modules {mods}")  # (the per-slot type list is not part of any property and is not judged)
        ids = me._cache["tag_name:id"]
        if ids.get(prefix + "Counter") != 22 or len(ids) != 8:
            diffs.append(f"name->id cache {ids}")
        ctx.check(not diffs, key, fn, f"symbol list classified as documented (program={program})", f"symbol classification deviates: {diffs[:3]}", program=str(program))


@rule(P, "D5.13", "T-WITNESS", floor=6)
def d5_13(ctx):
    """_parse_template_data folded on witness templates (sa/miniinterp.py; the member-record parser, StructTag and
    FixedSizeString are witnesses): the structure's name is the text before the first ';' (predefined types: the first
    name; ASCIISTRING82 is STRING), names and member records pair positionally, host members (ZZZZZZZZZZ*, __*, unnamed,
    predefined CTL/Control) stay out of `attributes` but keep their record, BOOL members become bit aliases and all others
    placed members with their offsets, [LEN, DATA(SINT array)] is a string of capacity structure_size - 4, and the
    user-defined range is exactly 0x100..0xEFF."""
    from ..miniinterp import Obj, run_function

    lx = _lx(ctx)
    fn = lx.methods["_parse_template_data"]
    tml = ctx.folder.module_value(lx.module.name, "TEMPLATE_MEMBER_INFO_LEN")
    if not isinstance(tml, int):
        ctx.undecided(ckey(lx.key + "._parse_template_data", "witness"), fn, "TEMPLATE_MEMBER_INFO_LEN is not a constant")
        return

    def rec(name, offset, **kw):
        d = {"offset": offset, "tag_type": "atomic", "data_type": name, "data_type_name": name, "type_class": ("tc", name)}
        d.update(kw)
        return d

    def run(label, st, names, records, size, expect):
        table = {bytes([i + 1]) * tml: r for i, r in enumerate(records)}
        data = b"".join(table) + b"\x00".join(n.encode() for n in names)
        template = {"member_count": len(records), "structure_size": size, "object_definition_size": 99, "structure_handle": 7}

        def hook(call, env, it):
            path = attr_path(call.func) or ""
            name = call_name(call) or ""
            if path == "self._parse_template_data_member_info":
                chunk = it.ev(call.args[0], env)
                return dict(table[chunk]) if isinstance(chunk, bytes) and chunk in table else ("bad-chunk", chunk)
            if name in ("StructTag", "FixedSizeString"):
                args = []
                for a in call.args:
                    if isinstance(a, ast.Starred):
                        args.extend(it.ev(a.value, env))
                    else:
                        args.append(it.ev(a, env))
                return (name, tuple(args), {k.arg: it.ev(k.value, env) for k in call.keywords})
            if isinstance(call.func, ast.Subscript):
                f = it.ev(call.func, env)
                if isinstance(f, tuple) and f and f[0] == "tc":
                    return ("member", f[1], it.ev(call.args[0], env))
            return UNKNOWN

        key = ckey(lx.key + "._parse_template_data", f"witness:{label}")
        kind, res = run_function(ctx, lx.module, fn, {"self": witness_instance(lx), fn.args.args[1].arg: data, fn.args.args[2].arg: template, fn.args.args[3].arg: st}, call_hook=hook, deep=False)
        if kind == "unknown":
            ctx.undecided(key, fn, f"_parse_template_data not foldable on {label}: {res}")
            return
        if kind != "return" or not isinstance(res, dict):
            ctx.violation(key, fn, f"template {label} gives {kind} {res!r} instead of a structure definition")
            return
        diffs = []
        for k, v in expect.items():
            if k == "internal":
                got = res.get("internal_tags")
                if not isinstance(got, dict) or list(got) != [n for n, _ in v] and len(got) != len(v):
                    diffs.append(f"internal_tags keys {list(got) if isinstance(got, dict) else got!r} (expected {len(v)} members)")
                else:
                    for (n, i), (gk, gv) in zip(v, got.items()):
                        if n is not None and gk != n:
                            diffs.append(f"member {n!r} recorded as {gk!r}")
                        elif not isinstance(gv, dict) or gv.get("offset") != records[i]["offset"] or gv.get("data_type_name") != records[i]["data_type_name"]:
                            diffs.append(f"member {gk!r} carries record {gv!r} (expected record #{i})")
                        if n is None and not str(gk).startswith("__"):
                            diffs.append(f"unnamed member named {gk!r} (visible)")
            elif k == "type_class":
                got = res.get("type_class")
                if v[0] == "FixedSizeString":
                    if not (isinstance(got, tuple) and got[0] == "FixedSizeString" and got[1] == (v[1],)):
                        diffs.append(f"type_class {got!r} (expected FixedSizeString({v[1]}))")
                else:
                    _, members, bits, private = v
                    if not (isinstance(got, tuple) and got[0] == "StructTag"):
                        diffs.append(f"type_class {got!r} (expected a StructTag)")
                        continue
                    gm = [(m[1], m[2] if not str(m[2]).startswith("__unknown") else None, off) for m, off in got[1] if isinstance(m, tuple) and len(m) == 3]
                    if gm != members or len(gm) != len(got[1]):
                        diffs.append(f"placed members {got[1]!r} (expected {members!r})")
                    if got[2].get("bit_members") != bits:
                        diffs.append(f"bit members {got[2].get('bit_members')!r} (expected {bits!r})")
                    if got[2].get("struct_size") != size:
                        diffs.append(f"struct_size {got[2].get('struct_size')!r} (expected {size})")
                    gp = got[2].get("private_members")
                    gp_named = {x for x in gp if not str(x).startswith("__unknown")} if isinstance(gp, (set, frozenset, list, tuple)) else gp
                    if gp_named != private[0] or len(gp) != private[1]:
                        diffs.append(f"private members {gp!r} (expected {private!r})")
            elif k == "no-string":
                if "string" in res:
                    diffs.append(f"marked as a string of {res['string']!r}")
            elif res.get(k) != v:
                diffs.append(f"{k}={res.get(k)!r} (expected {v!r})")
        if res.get("template") != template:
            diffs.append("template attributes not carried")
        ctx.check(not diffs, key, fn, f"{label}: {({k: v for k, v in expect.items() if k not in ('internal', 'type_class')})}", f"structure definition for {label} deviates: {diffs[:3]}", witness=label)

    host = "ZZZZZZZZZZMyUdt0"
    run("user UDT 0x123", 0x8123, ["MyUdt;n;Ex", host, "Flag", "Value", "", "Arr", "", "Last", ""],
        [rec("SINT", 0), rec("BOOL", 0, bit=0), rec("DINT", 4, array=0), rec("SINT", 8, array=0), rec("INT", 12, array=4), rec("SINT", 20, array=0), rec("REAL", 24, array=0)], 28,
        {"name": "MyUdt", "attributes": ["Flag", "Value", "Arr", "Last"], "no-string": True,
         "internal": [(host, 0), ("Flag", 1), ("Value", 2), (None, 3), ("Arr", 4), (None, 5), ("Last", 6)],
         "type_class": ("StructTag", [("SINT", host, 0), ("DINT", "Value", 4), ("SINT", None, 8), ("INT", "Arr", 12), ("SINT", None, 20), ("REAL", "Last", 24)], {"Flag": (0, 0)}, ({host}, 3))})
    run("string UDT", 0x8234, ["MyStr;x", "LEN", "DATA", ""], [rec("DINT", 0, array=0), rec("SINT", 4, array=20)], 24,
        {"name": "MyStr", "attributes": ["LEN", "DATA"], "string": 20, "internal": [("LEN", 0), ("DATA", 1)], "type_class": ("FixedSizeString", 20)})
    run("[LEN, DATA] with DINT data", 0x8235, ["NotStr;x", "LEN", "DATA", ""], [rec("DINT", 0, array=0), rec("DINT", 4, array=20)], 84,
        {"name": "NotStr", "attributes": ["LEN", "DATA"], "no-string": True, "type_class": ("StructTag", [("DINT", "LEN", 0), ("DINT", "DATA", 4)], {}, (set(), 0))})
    run("predefined TIMER 0xF83", 0x8F83, ["TIMER", "CTL", "PRE", "ACC", "EN", ""], [rec("DINT", 0, array=0), rec("DINT", 4, array=0), rec("DINT", 8, array=0), rec("BOOL", 0, bit=31)], 12,
        {"name": "TIMER", "attributes": ["PRE", "ACC", "EN"], "no-string": True, "internal": [("CTL", 0), ("PRE", 1), ("ACC", 2), ("EN", 3)],
         "type_class": ("StructTag", [("DINT", "CTL", 0), ("DINT", "PRE", 4), ("DINT", "ACC", 8)], {"EN": (0, 31)}, ({"CTL"}, 1))})
    run("builtin STRING", 0x8FCE, ["ASCIISTRING82", "LEN", "DATA", ""], [rec("DINT", 0, array=0), rec("SINT", 4, array=82)], 88,
        {"name": "STRING", "attributes": ["LEN", "DATA"], "string": 82, "type_class": ("FixedSizeString", 84)})
    for st, visible in ((0x80FF, False), (0x8100, True), (0x8EFF, True), (0x8F00, False)):
        run(f"range boundary {st & 0xFFF:#05x}", st, ["Edge;1", "CTL", "Control", "X", ""], [rec("DINT", 0, array=0), rec("DINT", 4, array=0), rec("DINT", 8, array=0)], 12,
            {"name": "Edge", "attributes": ["CTL", "Control", "X"] if visible else ["X"]})


# paths of the reference tree that cannot be taken, one line of reason each; keyed by function and the source of the test, so a
# rewritten (e.g. negated) test no longer matches and its arms are both considered
MEMO_INFEASIBLE_EDGES = {
    ("_get_data_type", "not template.get('error')", False): "_get_structure_makeup raises ResponseError for a failed reply, so it never returns a template carrying 'error'",
}


@rule(P, "D5.14", "T-DOM", floor=2)
def d5_14(ctx):
    """Memoised definition lookups (`if key not in cache: ... cache[key] = value` followed by `return cache[key]`): every path
    that reaches the return passes either the key-is-present edge of the membership test or a completed store of that key;
    otherwise the return raises KeyError for a structure the controller does define."""
    lx = _lx(ctx)
    n_sites = 0
    delegated = False
    from .driver import d5_19

    d5_19(ctx)  # first lookups with empty caches: the definition is fetched, stored and returned
    for mname, fn in sorted(lx.methods.items()):
        for ret in [n for n in walk(fn) if isinstance(n, ast.Return) and isinstance(n.value, ast.Subscript) and isinstance(n.value.slice, ast.Name)]:
            C, k = src(ret.value.value), ret.value.slice.id
            stores = [s for s in walk(fn) if isinstance(s, ast.Assign) and any(isinstance(t, ast.Subscript) and src(t.value) == C and src(t.slice) == k for t in s.targets)]
            tests = [t for t in walk(fn) if isinstance(t, ast.Compare) and len(t.ops) == 1 and isinstance(t.ops[0], (ast.In, ast.NotIn)) and src(t.left) == k and src(t.comparators[0]) == C]
            if (not stores and not tests) or not C.startswith("self."):
                continue  # (a lookup in a parameter or a local is not a cache of the driver)
            n_sites += 1
            if not stores:
                # the fill happens elsewhere (a helper the method calls): whether the first lookup of a definition succeeds is decided
                # by folding the method on witness replies with empty caches (D5.19), not by a path argument over this body alone
                delegated = True
                continue
            g = ctx.cfg(fn)
            req = {nd for s in stores for nd in g.nodes_of(s)}
            rets = set(g.nodes_of(ret))

            def present_edge(a, b, lab, _fn=mname, _C=C, _k=k):
                t = a.ast if hasattr(a, "ast") else getattr(a, "astnode", None)
                if t is None or lab not in (True, False):
                    return False
                if (_fn, src(t), lab) in MEMO_INFEASIBLE_EDGES:
                    return True
                neg = False
                while isinstance(t, ast.UnaryOp) and isinstance(t.op, ast.Not):
                    t, neg = t.operand, not neg
                if isinstance(t, ast.Compare) and len(t.ops) == 1 and isinstance(t.ops[0], (ast.In, ast.NotIn)) and src(t.left) == _k and src(t.comparators[0]) == _C:
                    present_when = isinstance(t.ops[0], ast.In) != neg
                    return lab == present_when
                return False

            path = g.must_pass(req, sinks=rets, avoid_edges=present_edge)
            key = ckey(lx.key + "." + mname, f"memo:{C}[{k}]")
            if path is None:
                ctx.ok(key, ret, f"`return {C}[{k}]` is reached only with the key present or just stored")
            else:
                lines = [getattr(nd, "lineno", None) for nd in path]
                lines = [x() if callable(x) else x for x in lines]
                ctx.violation(key, ret, f"`return {C}[{k}]` is reachable without the key being present or stored (path through lines {[x for x in lines if x][:12]}): KeyError for a definition the controller has")
    if n_sites == 0 and not delegated:
        ctx.undecided(ckey(lx.key, "memo"), lx.node, "no memoised lookup found (the definition caches are expected in _get_data_type / _get_structure_makeup)")


# the type classes reads decode with (string capacity = structure size - 4, member records, offsets) are built here: the same
# witnesses are obligations of C01 (a value is "exactly what the controller holds" only if the element stride is the controller's)
from .driver import d5_18 as _d5_18  # noqa: E402

rule("C01", "D1.20", "T-WITNESS", floor=6)(d5_13)
rule("C01", "D1.21", "T-WITNESS", floor=6)(_d5_18)
