"""Sensitivity sweep of the checker itself (thorough tier); filled in later."""


def sweep(prop, repo):
    return {}
