"""Guard analyses on the CFG: value-is-tested-before-use, raising branches, emptiness guards."""
from __future__ import annotations

import ast
from typing import List, Optional, Set, Tuple

from .astutil import walk
from .cfg import CFG, Node, exc_name
from .linexpr import atom_name, emptiness


def branch_outcome(g: CFG, test: Node, branch) -> Tuple[Set[str], bool]:
    """Follow the `branch` side of `test` along non-exceptional edges:
    returns (names of exceptions raised by raise statements met first, whether a non-raise continuation exists)."""
    raised: Set[str] = set()
    continues = False
    stack = [s for s, lab in test.succ if lab == branch]
    seen = set(stack)
    while stack:
        n = stack.pop()
        if n.kind == "stmt" and isinstance(n.ast, ast.Raise):
            raised.add(exc_name(n.ast.exc) or "?")
            continue
        if n.kind in ("exit",) or (n.kind == "stmt" and isinstance(n.ast, ast.Return)):
            continues = True
            continue
        if n.kind == "stmt" and not _pure_logging(n.ast):
            continues = True
            continue
        if n.kind == "test":
            continues = True
            continue
        for s, lab in n.succ:
            if lab != "exc" and s not in seen:
                seen.add(s)
                stack.append(s)
    return raised, continues


def _pure_logging(st) -> bool:
    if isinstance(st, ast.Expr) and isinstance(st.value, ast.Call):
        f = st.value.func
        if isinstance(f, ast.Attribute):
            v = f.value
            if isinstance(v, ast.Attribute) and v.attr.endswith("__log"):
                return True
            if isinstance(v, ast.Name) and v.id in ("logger", "log"):
                return True
    return False


def next_emptiness_guard(g: CFG, start: Node, var: str):
    """From `start` (a node binding `var`), follow non-exceptional edges through pure logging only.
    Returns (test node, empty_branch) if the first thing every path meets is an emptiness test of var; else None."""
    found = None
    stack = [s for s, lab in start.succ if lab != "exc"]
    seen = set(stack)
    while stack:
        n = stack.pop()
        if n.kind == "test":
            e = emptiness(n.ast, var)
            if e is None:
                return None
            cand = (n, True if e else False)
            if found is not None and found != cand:
                return None
            found = cand
            continue
        if n.kind == "stmt" and _pure_logging(n.ast):
            for s, lab in n.succ:
                if lab != "exc" and s not in seen:
                    seen.add(s)
                    stack.append(s)
            continue
        return None
    return found


def guarded_nonempty(g: CFG, bind_node: Node, var: str, want_exc: Set[str]) -> Tuple[bool, str]:
    """The value bound to `var` at bind_node is tested for emptiness before any use and the empty side raises only `want_exc`."""
    t = next_emptiness_guard(g, bind_node, var)
    if t is None:
        return False, f"`{var}` is used without first testing that it is non-empty"
    test, empty_branch = t
    raised, cont = branch_outcome(g, test, empty_branch)
    if cont or not raised:
        return False, f"an empty `{var}` does not raise (the empty branch continues)"
    if not raised <= want_exc:
        return False, f"an empty `{var}` raises {sorted(raised)}, expected {sorted(want_exc)}"
    return True, f"empty `{var}` raises {sorted(raised)}"


def in_try_with_handler(node, func, names: Set[str]) -> Optional[ast.ExceptHandler]:
    """Innermost handler (by listed exception names, or catch-all) of a try whose *body* contains node."""
    from .cfg import handler_names

    child, p = node, getattr(node, "_parent", None)
    while p is not None and p is not func:
        if isinstance(p, ast.Try) and any(child is st for st in p.body):
            for h in p.handlers:
                hn = set(handler_names(h))
                if hn & names or hn & {"Exception", "BaseException"}:
                    return h
        child, p = p, getattr(p, "_parent", None)
    return None


def handler_raises(h: ast.ExceptHandler) -> List[Optional[str]]:
    """Exception names raised at the end of every path of the handler body ([] if some path does not raise)."""
    out: List[Optional[str]] = []

    def block(stmts) -> bool:
        for st in stmts:
            if isinstance(st, ast.Raise):
                out.append(exc_name(st.exc) if st.exc is not None else "<reraise>")
                return True
            if isinstance(st, ast.If):
                a = block(st.body)
                b = block(st.orelse) if st.orelse else False
                if a and b:
                    return True
            if isinstance(st, ast.Return):
                return False
        return False

    return out if block(h.body) else []


def accepted_values(ctx, g: CFG, module, var: str, use: Node, extra_points=()):
    """Which integer values of `var` can reach `use`?  Every dominating test that touches `var` only through comparisons
    with constants is piecewise constant between those constants, so evaluating the conjunction of the dominating
    branch conditions at each constant and its neighbours decides it for all integers (finite set of orderings).
    Returns (sorted sample points, accepted sample points, tests used)."""
    from .consteval import UNKNOWN

    conds = []
    for t in g.nodes:
        if t.kind != "test" or t.ast is None:
            continue
        names = {n.id for n in walk(t.ast) if isinstance(n, ast.Name)}
        if var not in names or any(isinstance(x, (ast.Call, ast.Subscript, ast.Attribute)) and not _const_like(ctx, x, module) for x in walk(t.ast)):
            continue
        for br in (True, False):
            if g.branch_dominates(t, br, use):
                conds.append((t, br))
    consts = set(extra_points)
    for t, _ in conds:
        for x in walk(t.ast):
            v = ctx.folder.eval(x, module) if isinstance(x, (ast.Constant, ast.Attribute, ast.Name)) and not (isinstance(x, ast.Name) and x.id == var) else None
            if isinstance(v, int) and not isinstance(v, bool):
                consts.add(v)
    points = sorted({c + d for c in consts | {0} for d in (-1, 0, 1)})
    accepted = []
    for v in points:
        ok = True
        for t, br in conds:
            r = ctx.folder.eval(t.ast, module, env={var: v})
            if r is UNKNOWN:
                ok = None
                break
            if bool(r) != br:
                ok = False
                break
        if ok:
            accepted.append(v)
        if ok is None:
            return points, None, conds
    return points, accepted, conds


def _const_like(ctx, x, module):
    from .consteval import UNKNOWN

    v = ctx.folder.eval(x, module)
    return v is not UNKNOWN


def possibly_unbound_in_handlers(ctx, fn):
    """[(name node, handler)] - locals read inside an `except` handler that are not bound on every path into that handler.
    The try body can fail before (or inside) the statement that first binds the name; reading it in the handler then raises
    UnboundLocalError out of the handler instead of the exception the handler was meant to produce."""
    g = ctx.cfg(fn)
    params = {a.arg for a in fn.args.args + fn.args.kwonlyargs + getattr(fn.args, "posonlyargs", [])}
    if fn.args.vararg:
        params.add(fn.args.vararg.arg)
    if fn.args.kwarg:
        params.add(fn.args.kwarg.arg)
    bound_nodes = {}
    for n in g.nodes:
        if n.ast is None:
            continue
        targets = []
        if n.kind == "stmt" and isinstance(n.ast, (ast.Assign, ast.AugAssign, ast.AnnAssign)):
            tg = n.ast.targets if isinstance(n.ast, ast.Assign) else [n.ast.target]
            for t in tg:
                targets += [x.id for x in walk(t) if isinstance(x, ast.Name)]
        elif n.kind in ("stmt", "test") and isinstance(n.ast, (ast.For,)):
            targets += [x.id for x in walk(n.ast.target) if isinstance(x, ast.Name)]
        elif n.kind == "stmt" and isinstance(n.ast, ast.With):
            for it in n.ast.items:
                if it.optional_vars is not None:
                    targets += [x.id for x in walk(it.optional_vars) if isinstance(x, ast.Name)]
        elif n.kind == "handler" and isinstance(n.ast, ast.ExceptHandler) and n.ast.name:
            targets.append(n.ast.name)
        for t in targets:
            bound_nodes.setdefault(t, set()).add(n)
    # for-loop targets: the node carrying the For statement may be a test node keyed by the iter expression
    for st in walk(fn):
        if isinstance(st, ast.For):
            for x in walk(st.target):
                if isinstance(x, ast.Name):
                    for n in g.nodes_of(st) + g.nodes_of(st.iter):
                        bound_nodes.setdefault(x.id, set()).add(n)
    locals_ = set(bound_nodes) - params
    out = []
    for hn in g.nodes:
        if hn.kind != "handler" or not isinstance(hn.ast, ast.ExceptHandler):
            continue
        h = hn.ast
        for x in [y for s_ in h.body for y in walk(s_)]:
            if not (isinstance(x, ast.Name) and isinstance(x.ctx, ast.Load) and x.id in locals_ and x.id != h.name):
                continue
            binders = bound_nodes[x.id]
            # is the handler reachable along a path on which no binder completed?  (leaving a binder through its
            # exceptional edge means the binding did not happen)
            wit = g.must_pass(set(), sinks={hn}, avoid_edges=lambda a, b, lab, _b=binders: a in _b and lab != "exc")
            if wit is not None:
                out.append((x, h))
    return out


def possibly_unbound_reads(ctx, fn):
    """[(name, Name node)] - reads of a local of `fn` that some path from the function entry reaches without any of the
    statements binding that local having completed (an exceptional edge leaves a statement before its effect).  Path
    insensitive: correlated conditions (`if a: x = ..` ... `if a: use(x)`) are reported too; callers keep a reasoned table
    of such idioms."""
    g = ctx.cfg(fn)
    params = {a.arg for a in fn.args.args + fn.args.kwonlyargs + getattr(fn.args, "posonlyargs", [])}
    if fn.args.vararg:
        params.add(fn.args.vararg.arg)
    if fn.args.kwarg:
        params.add(fn.args.kwarg.arg)
    binders = {}

    def add(name, node):
        binders.setdefault(name, set()).add(node)

    declared = set()
    for n in g.nodes:
        a = n.ast
        if a is None:
            continue
        if n.kind == "stmt":
            if isinstance(a, (ast.Assign, ast.AugAssign, ast.AnnAssign)):
                for t in (a.targets if isinstance(a, ast.Assign) else [a.target]):
                    for x in walk(t):
                        if isinstance(x, ast.Name) and isinstance(x.ctx, ast.Store):
                            add(x.id, n)
            if isinstance(a, (ast.FunctionDef, ast.AsyncFunctionDef, ast.ClassDef)):
                add(a.name, n)
            if isinstance(a, (ast.Import, ast.ImportFrom)):
                for al in a.names:
                    add((al.asname or al.name).split(".")[0], n)
            if isinstance(a, ast.With):
                for it in a.items:
                    if it.optional_vars is not None:
                        for x in walk(it.optional_vars):
                            if isinstance(x, ast.Name):
                                add(x.id, n)
            if isinstance(a, (ast.Global, ast.Nonlocal)):
                declared.update(a.names)
            if not isinstance(a, (ast.If, ast.While, ast.For, ast.Try, ast.With, ast.FunctionDef, ast.AsyncFunctionDef, ast.ClassDef)):
                for x in walk(a):
                    if isinstance(x, ast.NamedExpr) and isinstance(x.target, ast.Name):
                        add(x.target.id, n)
        if n.kind == "handler" and isinstance(a, ast.ExceptHandler) and a.name:
            add(a.name, n)
        if n.kind == "test":
            # `if (m := pattern.search(s)):` binds in the test itself
            for x in walk(a):
                if isinstance(x, ast.NamedExpr) and isinstance(x.target, ast.Name):
                    add(x.target.id, n)
    for st in walk(fn):
        if isinstance(st, ast.For):
            for x in walk(st.target):
                if isinstance(x, ast.Name):
                    for n in g.nodes_of(st) + g.nodes_of(st.iter) + g.nodes_of(st.target):
                        add(x.id, n)
    comp_names = set()
    for c in walk(fn):
        if isinstance(c, (ast.ListComp, ast.SetComp, ast.DictComp, ast.GeneratorExp)):
            for gen in c.generators:
                for x in walk(gen.target):
                    if isinstance(x, ast.Name):
                        comp_names.add(x.id)
    locals_ = set(binders) - params - declared
    out = []
    for n in g.nodes:
        a = n.ast
        if a is None or n.kind not in ("stmt", "test"):
            continue
        if isinstance(a, ast.For):
            exprs = [a.iter]
        elif isinstance(a, (ast.If, ast.While)):
            exprs = [a.test]
        elif isinstance(a, ast.With):
            exprs = [it.context_expr for it in a.items]
        elif isinstance(a, (ast.Try, ast.FunctionDef, ast.AsyncFunctionDef, ast.ClassDef)):
            exprs = []
        else:
            exprs = [a]
        names = {}
        for e in exprs:
            for x in walk(e):
                if isinstance(x, ast.Name) and isinstance(x.ctx, ast.Load) and x.id in locals_ and x.id not in comp_names:
                    names.setdefault(x.id, x)
        if isinstance(a, ast.AugAssign) and isinstance(a.target, ast.Name) and a.target.id in locals_:
            names.setdefault(a.target.id, a.target)
        for name, x in names.items():
            b = binders[name]
            wit = g.must_pass(set(), sinks={n}, avoid_edges=lambda p, q, lab, _b=b: p in _b and lab != "exc")
            if wit is not None:
                out.append((name, x))
    return out


def undefined_names(ctx, fi):
    """[(name, Name node)] - names read in the function that are bound nowhere: not a parameter or local of this or an
    enclosing function, not a class-body name of an enclosing class body being executed, not a module-level symbol
    (definitions, imports, star imports) and not a builtin.  Reading one raises NameError."""
    import builtins

    fn = fi.node
    module = fi.module

    def scope_names(f):
        names = set()
        a = f.args
        for x in a.args + a.kwonlyargs + getattr(a, "posonlyargs", []):
            names.add(x.arg)
        if a.vararg:
            names.add(a.vararg.arg)
        if a.kwarg:
            names.add(a.kwarg.arg)
        for n in ast.walk(f):
            if isinstance(n, ast.Name) and isinstance(n.ctx, (ast.Store, ast.Del)):
                names.add(n.id)
            elif isinstance(n, (ast.FunctionDef, ast.AsyncFunctionDef, ast.ClassDef)) and n is not f:
                names.add(n.name)
            elif isinstance(n, ast.ExceptHandler) and n.name:
                names.add(n.name)
            elif isinstance(n, (ast.Import, ast.ImportFrom)):
                for al in n.names:
                    names.add((al.asname or al.name).split(".")[0])
            elif isinstance(n, ast.arg):
                names.add(n.arg)
        return names

    known = scope_names(fn)
    p = getattr(fn, "_parent", None)
    while p is not None:
        if isinstance(p, (ast.FunctionDef, ast.AsyncFunctionDef)):
            known |= scope_names(p)
        p = getattr(p, "_parent", None)
    out = []
    # decorators, defaults and annotations are evaluated in the enclosing scope: only the body is this function's code
    for n in [x for st in fn.body for x in ast.walk(st)]:
        if isinstance(n, ast.Name) and isinstance(n.ctx, ast.Load) and n.id not in known:
            if hasattr(builtins, n.id) or n.id in ("__class__", "__module__", "__qualname__", "__name__", "__file__", "__doc__"):
                continue
            if ctx.model.resolve(module.name, n.id) is not None:
                continue
            out.append((n.id, n))
    return out
