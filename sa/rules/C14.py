"""C14 -- Generic messaging delivers the request verbatim and returns the answer."""
from __future__ import annotations

import ast

from ..astutil import attr_path, call_name, walk, src, dump, decorators
from ..bytelayout import Layouter, ListVal, flatten, show
from ..consteval import UNKNOWN, ClassRef, Instance
from ..framework import rule
from ..linexpr import atom_name
from .common import witness_instance, CD, LX, PC, PU, ckey

P = "C14"
EXPLANATION = (
    "Static rules D14.1-D14.7 (DESIGN.md section 5, C14): the three transports of a generic request carry the same "
    "(service, class/instance/attribute path, data) triple in the same order (byte-layout of both _setup_message bodies and of "
    "wrap_unconnected_send, with identical service normalisation), the Unconnected Send wrapper against CIP 3-5.5.4 (service 0x52 "
    "to class 6 instance 1, embedded length = len(message) of exactly the embedded message, pad iff odd, then the route), "
    "identical route encoding facts in all route_path branches of generic_message, the raw-or-decoded reply value rule in both "
    "response classes and the Tag returned, and the service/class/instance/attribute/transport constants of every helper against "
    "spec/helpers.json. Decides what is put on the wire for every argument shape; what a target answers is outside."
)
ASSUMPTIONS = ["set/get time agreement depends on the controller's wall-clock object (attribute 6 vs 11) and is not decided"]


def _msg_items(ctx, cls, fn):
    """Layouts of the items a _setup_message adds to self._msg (after the base part)."""
    L = Layouter(ctx, cls.module, cls, fn, inline_depth=0)
    env = {}
    res = L.block(list(fn.body), env)
    v = env.get("self._msg")
    if isinstance(v, ListVal):
        return [it for it in v.items if it != [("ref", "self._msg")]]
    return None


@rule(P, "D14.1", "T-SIB", floor=4)
def d14_1(ctx):
    """Connected, UCMM and Unconnected Send carry [service, request_path(class, instance, attribute), data] in that order."""
    con = ctx.model.cls(f"{PC}:GenericConnectedRequestPacket")
    unc = ctx.model.cls(f"{PC}:GenericUnconnectedRequestPacket")
    triple = [[("ref", "self.service")], [("ref", "req_path")], [("ref", "self.request_data")]]

    def req_path_ok(fn):
        for n in walk(fn):
            if isinstance(n, ast.Assign) and atom_name(n.targets[0]) == "req_path" and isinstance(n.value, ast.Call) and call_name(n.value) == "request_path":
                return [atom_name(a) for a in n.value.args] == ["self.class_code", "self.instance", "self.attribute"] and not n.value.keywords
        return False

    fn = con.methods["_setup_message"]
    items = _msg_items(ctx, con, fn)
    norm = [[f for f in it] for it in (items or [])]
    if len(norm) == 3 and norm[1] == [("ref", "request_path(self.class_code,self.instance,self.attribute)")]:
        norm[1] = [("ref", "req_path")]
    ctx.check(norm == triple and req_path_ok(fn), ckey(con.key + "._setup_message"), fn, "connected: service, path, data", f"connected generic request appends {[show(i) for i in (items or [])]}; expected service, request_path(class, instance, attribute), data", items=[show(i) for i in (items or [])])
    fn = unc.methods["_setup_message"]
    # two arms selected by self.unconnected_send
    arms = [n for n in walk(fn) if isinstance(n, ast.If) and attr_path(n.test) == "self.unconnected_send"]
    ok_direct = ok_wrapped = False
    facts = {}
    if len(arms) == 1:
        a = arms[0]
        for st in a.orelse:
            if isinstance(st, ast.Assign) and isinstance(st.value, ast.List):
                names = [atom_name(e) for e in st.value.elts]
                facts["ucmm"] = names
                ok_direct = names == ["self.service", "req_path", "self.request_data", "self.route_path"]
        for st in a.body:
            for c in walk(st):
                if isinstance(c, ast.Call) and call_name(c) == "wrap_unconnected_send" and len(c.args) == 2:
                    emb = c.args[0]
                    if isinstance(emb, ast.Call) and isinstance(emb.func, ast.Attribute) and emb.func.attr == "join" and ctx.folder.eval(emb.func.value, unc.module) == b"" and isinstance(emb.args[0], (ast.Tuple, ast.List)):
                        names = [atom_name(e) for e in emb.args[0].elts]
                        facts["unconnected_send"] = names
                        ok_wrapped = names == ["self.service", "req_path", "self.request_data"] and atom_name(c.args[1]) == "self.route_path"
        appended = any(isinstance(n, ast.AugAssign) and attr_path(n.target) == "self._msg" and atom_name(n.value) == "msg" for n in walk(fn))
        ok_direct = ok_direct and appended
        ok_wrapped = ok_wrapped and appended
    ctx.check(ok_direct and req_path_ok(fn), ckey(unc.key + "._setup_message", "ucmm"), fn, "UCMM: service, path, data, route", "the direct unconnected form is not [service, path, data, route_path]", **facts)
    ctx.check(ok_wrapped, ckey(unc.key + "._setup_message", "unconnected-send"), fn, "Unconnected Send embeds service+path+data and carries the route", "the Unconnected Send form does not embed exactly service+path+data with the route path as second argument", **facts)
    # identical normalisation / attribute capture in both constructors
    def captures(c):
        init = c.methods["__init__"]
        out = {}
        for n in walk(init):
            if isinstance(n, ast.Assign) and (attr_path(n.targets[0]) or "").startswith("self."):
                out[attr_path(n.targets[0])[5:]] = dump(n.value)
        return out
    a, b = captures(con), captures(unc)
    shared = ["data_type", "class_code", "instance", "attribute", "service", "request_data"]
    same = all(a.get(k) == b.get(k) and a.get(k) is not None for k in shared)
    plain = all(a.get(k) == dump(ast.Name(id=k, ctx=ast.Load())) for k in shared if k != "service")
    svc = None
    for n in walk(con.methods["__init__"]):
        if isinstance(n, ast.Assign) and attr_path(n.targets[0]) == "self.service":
            svc = n.value
    svc_ok = isinstance(svc, ast.IfExp) and isinstance(svc.test, ast.Call) and call_name(svc.test) == "isinstance" and atom_name(svc.test.args[1]) == "bytes" and atom_name(svc.body) == "service" and isinstance(svc.orelse, ast.Call) and call_name(svc.orelse) == "bytes" and src(svc.orelse.args[0]).replace(" ", "") == "[service]"
    ctx.check(same and plain and svc_ok and b.get("route_path") == dump(ast.Name(id="route_path", ctx=ast.Load())) and b.get("unconnected_send") == dump(ast.Name(id="unconnected_send", ctx=ast.Load())), ckey(PC, "constructors"), con.methods["__init__"],
              "both constructors store the arguments unchanged and normalise the service identically (int -> one byte)", "the two generic request constructors capture/normalise their arguments differently", connected=sorted(a), unconnected=sorted(b))


@rule(P, "D14.2", "T-LAYOUT", floor=2)
def d14_2(ctx):
    """Unconnected Send wrapper: 52 | path(class 6, instance 1) | priority | ticks | UINT len(message) | message | pad iff odd | route."""
    sp = ctx.spec("connmgr")["unconnected_send"]
    fn = ctx.model.func(f"{PU}:wrap_unconnected_send")
    f = fn.node
    msg, route = [a.arg for a in f.args.args]
    lay = flatten(Layouter(ctx, fn.module, None, f, inline_depth=0).function(f) or [])
    facts = {"layout": show(lay)}
    good = len(lay) == 8
    if good:
        lenvar = [n for n in walk(f) if isinstance(n, ast.Assign) and isinstance(n.value, ast.Call) and call_name(n.value) == "len" and atom_name(n.value.args[0]) == msg]
        lv = atom_name(lenvar[0].targets[0]) if lenvar else None
        good = (lay[0] == ("const", bytes.fromhex(sp["service"])) and lay[1][0] == "ref" and lay[2][0] == "const" and len(lay[2][1]) == 1 and lay[3][0] == "const" and len(lay[3][1]) == 1
                and lay[4][0] == "lenof" and lay[4][1] == "UINT" and lay[4][3] == msg and lay[4][4] == "bytes" and lay[5] == ("ref", msg)
                and lay[6][0] == "pad" and lay[6][2] == b"\x00" and lay[6][1].replace(" ", "") in (f"{lv}%2", f"len({msg})%2") and lay[7] == ("ref", route))
    ctx.check(good, ckey(fn, "layout"), f, "service 52, path, priority, ticks, UINT embedded length, message, 00 iff odd, route", f"Unconnected Send wrapper layout {show(lay)} deviates from CIP 3-5.5.4", **facts)
    rp = [n for n in walk(f) if isinstance(n, ast.Call) and call_name(n) == "request_path"]
    good = False
    if len(rp) == 1:
        kw = {k.arg: ctx.folder.eval(k.value, fn.module) for k in rp[0].keywords}
        pos = [ctx.folder.eval(a, fn.module) for a in rp[0].args]
        cc = kw.get("class_code", pos[0] if pos else None)
        inst = kw.get("instance", pos[1] if len(pos) > 1 else None)
        good = cc in (b"\x06", 6) and inst in (b"\x01", 1) and "attribute" not in kw and len(pos) <= 2
    ctx.check(good, ckey(fn, "target"), f, "addressed to the connection manager (class 6, instance 1)", "Unconnected Send is not addressed to class 0x06 instance 1")


def _route_calls(ctx, fn):
    out = []
    for n in walk(fn):
        if isinstance(n, ast.Assign) and isinstance(n.targets[0], ast.Subscript) and atom_name(n.targets[0].value) == "_kwargs" and isinstance(n.targets[0].slice, ast.Constant) and n.targets[0].slice.value == "route_path":
            out.append(n)
    return out


@rule(P, "D14.3", "T-SIB", floor=5)
def d14_3(ctx):
    """Route selection: True / str / bytes / sequence branches encode with identical facts; False gives no route; connected requests use the sequence generator."""
    drv = ctx.model.cls(f"{CD}:CIPDriver")
    fn = drv.methods["generic_message"]
    assigns = _route_calls(ctx, fn)
    kinds = {}
    for a in assigns:
        p = getattr(a, "_parent", None)
        test = src(p.test).replace(" ", "") if isinstance(p, ast.If) else "?"
        v = a.value
        if isinstance(v, ast.Call) and attr_path(v.func) == "PADDED_EPATH.encode":
            kw = {k.arg: ctx.folder.eval(k.value, drv.module) for k in v.keywords}
            kinds[test] = ("encode", src(v.args[0]).replace(" ", "").replace('"', "'"), kw)
        else:
            kinds[test] = ("raw", src(v), {})
    want = {
        "route_pathisTrue": ("encode", "self._cfg['cip_path']", {"length": True, "pad_length": True}),
        "isinstance(route_path,str)": ("encode", "parse_cip_route(route_path)", {"length": True, "pad_length": True}),
        "isinstance(route_path,bytes)": ("raw", "route_path", {}),
        "route_path": ("encode", "route_path", {"length": True, "pad_length": True}),
    }
    for k, w in want.items():
        got = kinds.get(k)
        ctx.check(got == w, ckey(drv.key + ".generic_message", f"route:{k}"), fn, f"{k}: {w[0]} {w[1]} {w[2] or ''}", f"route_path branch `{k}` yields {got}; expected {w} (word count and reserved byte on every encoded route)", got=str(got))
    extra = set(kinds) - set(want)
    if extra:
        ctx.violation(ckey(drv.key + ".generic_message", "route:extra"), fn, f"unexpected route_path branches {sorted(extra)}")
    # connected -> sequence generator; unconnected -> unconnected_send flag
    seq = [n for n in walk(fn) if isinstance(n, ast.Assign) and isinstance(n.targets[0], ast.Subscript) and atom_name(n.targets[0].value) == "_kwargs" and isinstance(n.targets[0].slice, ast.Constant) and n.targets[0].slice.value == "sequence"]
    us = [n for n in walk(fn) if isinstance(n, ast.Assign) and isinstance(n.targets[0], ast.Subscript) and atom_name(n.targets[0].value) == "_kwargs" and isinstance(n.targets[0].slice, ast.Constant) and n.targets[0].slice.value == "unconnected_send"]

    def under(n, test, branch):
        p, child = getattr(n, "_parent", None), n
        while p is not None and p is not fn:
            if isinstance(p, ast.If) and atom_name(p.test) == test:
                return (child in p.body) == branch
            child, p = p, getattr(p, "_parent", None)
        return False

    good = len(seq) == 1 and attr_path(seq[0].value) == "self._sequence" and under(seq[0], "connected", True) and len(us) == 1 and atom_name(us[0].value) == "unconnected_send" and under(us[0], "connected", False) and all(under(a, "connected", False) for a in assigns)
    ctx.check(good, ckey(drv.key + ".generic_message", "transport-args"), fn, "connected: sequence generator; unconnected: route and unconnected_send flag", "transport-specific arguments are not selected by `connected`")
    # the request arguments are passed verbatim
    d = [n for n in walk(fn) if isinstance(n, ast.Assign) and atom_name(n.targets[0]) == "_kwargs" and isinstance(n.value, ast.Dict)]
    good = False
    if d:
        m = {ctx.folder.eval(k, drv.module): atom_name(v) for k, v in zip(d[0].value.keys, d[0].value.values) if k is not None}
        good = m == {k: k for k in ("service", "class_code", "instance", "attribute", "request_data", "data_type")}
    call = [c for c in walk(fn) if isinstance(c, ast.Call) and atom_name(c.func) == "req_class" and any(k.arg is None and atom_name(k.value) == "_kwargs" for k in c.keywords)]
    cls_sel = [n for n in walk(fn) if isinstance(n, ast.Assign) and atom_name(n.targets[0]) == "req_class" and isinstance(n.value, ast.IfExp) and atom_name(n.value.test) == "connected" and atom_name(n.value.body) == "GenericConnectedRequestPacket" and atom_name(n.value.orelse) == "GenericUnconnectedRequestPacket"]
    ctx.check(good and len(call) == 1 and len(cls_sel) == 1, ckey(drv.key + ".generic_message", "verbatim"), fn, "service/class/instance/attribute/data/data_type are handed to the request class unchanged", "generic_message does not pass its arguments verbatim to the request class chosen by `connected`")


@rule(P, "D14.4", "T-SIB", floor=3)
def d14_4(ctx):
    """Reply value: raw data without a data type, decoded only when valid, decode failure -> _error and None; Tag carries value and error."""
    a = ctx.model.cls(f"{PC}:GenericConnectedResponsePacket")
    b = ctx.model.cls(f"{PC}:GenericUnconnectedResponsePacket")
    fa, fb = a.methods["_parse_reply"], b.methods["_parse_reply"]
    # witness evaluation (sa/miniinterp.py): the reply object is a witness with (data type given or not) x (reply valid or
    # refused) x (decode succeeds or raises); `super()._parse_reply()` is a no-op, `self.is_valid()` and
    # `self.data_type.decode(..)` are answered by the witness.  Expected: raw data without a data type; decoded value when
    # valid; None plus a recorded parse error when the decode of a valid reply fails; and for a refused reply no decode
    # attempt and no parse error, so that the status text of the refusal is what the caller sees.
    from ..miniinterp import Obj, Raise, run_function

    outcomes = {}
    for c, fn in ((a, fa), (b, fb)):
        bad, und = [], None
        for has_type in (False, True):
            for valid in (True, False):
                for decodes in (True, False):
                    calls = []
                    me = Obj(data_type=(Obj() if has_type else None), data=b"\x11\x22", value=None, _error=None)

                    def hook(call, env, it, _valid=valid, _decodes=decodes, _calls=calls):
                        p_ = attr_path(call.func) or ""
                        if isinstance(call.func, ast.Attribute) and call.func.attr == "_parse_reply" and isinstance(call.func.value, ast.Call) and call_name(call.func.value) == "super":
                            return None
                        if p_ == "self.is_valid":
                            return _valid
                        if p_ == "self.data_type.decode":
                            _calls.append("decode")
                            if not _decodes:
                                raise Raise("DataError")
                            return "<decoded>"
                        return UNKNOWN

                    kind, res = run_function(ctx, c.module, fn, {"self": me}, call_hook=hook, deep=False)
                    label = f"type={'T' if has_type else None},valid={valid},decode={'ok' if decodes else 'raises'}"
                    if kind == "unknown":
                        und = f"{label}: {res}"
                        break
                    if kind == "raise":
                        bad.append(f"{label}: {res} escapes _parse_reply")
                        continue
                    if not has_type:
                        ok = me.value == b"\x11\x22" and not calls
                    elif not valid:
                        ok = not calls and me._error is None
                    elif decodes:
                        ok = me.value == "<decoded>" and me._error is None
                    else:
                        ok = me.value is None and isinstance(me._error, str) and bool(me._error)
                    outcomes[(c.name, label)] = (me.value, me._error, tuple(calls))
                    if not ok:
                        bad.append(f"{label}: value={me.value!r}, _error={me._error!r}, decode attempted={bool(calls)}")
        key = ckey(c.key + "._parse_reply", "value")
        if und is not None:
            ctx.undecided(key, fn, f"_parse_reply not foldable on witness {und}")
            continue
        ctx.check(not bad, key, fn, "value = data | decoded-when-valid | None with _error on decode failure; refused replies are not decoded (8 witnesses)",
                  f"reply value rule deviates: {bad[:3]} (a refused reply must keep its status text: no decode attempt, no parse error; a failed decode of a valid reply is recorded, not raised)")
    same = all(outcomes.get((a.name, k[1])) == outcomes.get((b.name, k[1])) for k in outcomes)
    ctx.check(same and bool(outcomes), ckey(PC, "parse-siblings"), fb, "both generic response classes derive value and error identically on every witness", "the connected and unconnected generic responses derive their value differently")
    drv = ctx.model.cls(f"{CD}:CIPDriver")
    fn = drv.methods["generic_message"]
    rets = [r for r in walk(fn) if isinstance(r, ast.Return) and isinstance(r.value, ast.Call) and call_name(r.value) == "Tag"]
    good = False
    for r in rets:
        args = [atom_name(x) for x in r.value.args]
        kw = {k.arg: atom_name(k.value) for k in r.value.keywords}
        if args[:2] == ["name", "response.value"]:
            good = args == ["name", "response.value", "data_type"] and kw == {"error": "response.error"}
    last = fn.body[-1]
    ctx.check(good and isinstance(last, ast.Return) and atom_name(last.value.args[1]) == "response.value", ckey(drv.key + ".generic_message", "tag"), fn, "returns Tag(name, response.value, data_type, error=response.error)", "generic_message does not return the response value and error unchanged")
    sent = [c for c in walk(fn) if isinstance(c, ast.Call) and attr_path(c.func) == "self.send" and atom_name(c.args[0]) == "request"]
    ctx.check(len(sent) == 1, ckey(drv.key + ".generic_message", "send-once"), fn, "the request is sent exactly once", f"generic_message sends the request {len(sent)} times")


def _gm_call(ctx, fn, module):
    for c in walk(fn):
        if isinstance(c, ast.Call) and attr_path(c.func) == "self.generic_message":
            return c, {k.arg: k.value for k in c.keywords}
    return None, {}


def _cv(ctx, node, module, fn=None):
    v = ctx.folder.eval(node, module, func=fn) if node is not None else None
    if isinstance(v, bytes):
        return v.hex()
    if isinstance(v, int) and not isinstance(v, bool):
        return f"{v:02x}"
    if isinstance(v, ClassRef):
        return v.ci.name
    return v


@rule(P, "D14.5", "T-SPEC", floor=7)
def d14_5(ctx):
    """Helpers address the documented service / class / instance / attribute over the documented transport."""
    sp = ctx.spec("helpers")
    lx = ctx.model.cls(f"{LX}:LogixDriver")
    drv = ctx.model.cls(f"{CD}:CIPDriver")
    table = [("get_plc_name", lx), ("get_plc_info", lx), ("get_module_info", drv), ("get_plc_time", lx), ("set_plc_time", lx)]
    for name, cls in table:
        fn = cls.methods.get(name)
        if fn is None:
            ctx.undecided(ckey(f"{cls.key}.{name}"), cls.node, "anchor vanished")
            continue
        call, kw = _gm_call(ctx, fn, cls.module)
        want = sp[name]
        if call is None:
            ctx.violation(ckey(f"{cls.key}.{name}"), fn, "helper no longer goes through generic_message")
            continue
        got = {"service": _cv(ctx, kw.get("service"), cls.module), "class": _cv(ctx, kw.get("class_code"), cls.module), "instance": _cv(ctx, kw.get("instance"), cls.module)}
        inst = got["instance"]
        inst = int(inst, 16) if isinstance(inst, str) else inst
        probs = []
        if got["service"] != want["service"]:
            probs.append(f"service {got['service']} != {want['service']}")
        if got["class"] != want["class"]:
            probs.append(f"class {got['class']} != {want['class']}")
        if inst != want["instance"]:
            probs.append(f"instance {inst} != {want['instance']}")
        if "connected" in want:
            c = _cv(ctx, kw.get("connected"), cls.module) if "connected" in kw else True
            if c != want["connected"]:
                probs.append(f"connected={c} != {want['connected']}")
            if want["connected"] and "with_forward_open" not in decorators(fn) and name == "get_plc_name":
                probs.append("connected helper is not guarded by @with_forward_open")
        if "data_type" in want:
            dt = _cv(ctx, kw.get("data_type"), cls.module)
            if dt != want["data_type"]:
                probs.append(f"data_type {dt} != {want['data_type']}")
        if want.get("unconnected_send"):
            if _cv(ctx, kw.get("unconnected_send"), cls.module) is not True:
                probs.append("unconnected_send is not True")
        if name == "get_plc_info":
            us = kw.get("unconnected_send")
            if not (us is not None and src(us).replace(" ", "") == "notself._micro800"):
                probs.append("Micro800 rule for unconnected_send changed")
        if name == "get_module_info":
            rp = kw.get("route_path")
            ok = isinstance(rp, ast.Call) and attr_path(rp.func) == "PADDED_EPATH.encode" and {k.arg: ctx.folder.eval(k.value, cls.module) for k in rp.keywords} == {"length": True, "pad_length": True}
            if ok:
                t = rp.args[0]
                ok = isinstance(t, ast.Tuple) and len(t.elts) == 2 and isinstance(t.elts[0], ast.Starred) and src(t.elts[0].value).replace(" ", "").replace('"', "'") == "self._cfg['cip_path'][:-1]" and isinstance(t.elts[1], ast.Call) and call_name(t.elts[1]) == "PortSegment" and ctx.folder.eval(t.elts[1].args[0], cls.module) == "bp" and atom_name(t.elts[1].args[1]) == "slot"
            if not ok:
                probs.append("route is not cip_path[:-1] + PortSegment('bp', slot) with word count and reserved byte")
        if name == "get_plc_time":
            rd = _cv(ctx, kw.get("request_data"), cls.module)
            dt = kw.get("data_type")
            ok_dt = isinstance(dt, ast.Call) and call_name(dt) == "Struct" and len(dt.args) == 2 and isinstance(dt.args[0], ast.Call) and call_name(dt.args[0]) == "n_bytes" and ctx.folder.eval(dt.args[0].args[0], cls.module) == want["reply_prefix_width"] and isinstance(dt.args[1], ast.Call) and call_name(dt.args[1]) == want["value"]
            if not (isinstance(rd, str) and rd[:4] == "0100" and len(rd) == 8):
                probs.append(f"request data {rd} is not `count=1, attribute`")
            if not ok_dt:
                probs.append("reply is not decoded as 6 prefix bytes + ULINT microseconds")
        if name == "set_plc_time":
            rd = kw.get("request_data")
            ok = isinstance(rd, ast.Call) and isinstance(rd.func, ast.Attribute) and rd.func.attr == "encode" and isinstance(rd.args[0], ast.List) and len(rd.args[0].elts) == 3 and ctx.folder.eval(rd.args[0].elts[0], cls.module) == 1 and atom_name(rd.args[0].elts[2]) == "microseconds"
            st = [n for n in walk(fn) if isinstance(n, ast.Assign) and atom_name(n.targets[0]) == atom_name(rd.func.value)] if ok else []
            ok = ok and len(st) == 1 and isinstance(st[0].value, ast.Call) and call_name(st[0].value) == "Struct" and [atom_name(a) for a in st[0].value.args] == ["UINT", "UINT", "ULINT"]
            if not ok:
                probs.append("request data is not Struct(UINT count=1, UINT attribute, ULINT microseconds)")
        key = ckey(f"{cls.key}.{name}")
        if probs:
            ctx.violation(key, call, "; ".join(probs), got=got)
        else:
            ctx.ok(key, call, f"service {want['service']}, class {want['class']}, instance {want['instance']}", got=got)
    # template read / structure makeup / symbol list services
    lxm = lx.methods
    checks = [("_read_template", "template_read"), ("_get_structure_makeup", "structure_makeup")]
    for m, key in checks:
        call, kw = _gm_call(ctx, lxm[m], lx.module)
        got = {"service": _cv(ctx, kw.get("service"), lx.module), "class": _cv(ctx, kw.get("class_code"), lx.module)}
        ctx.check(got["service"] == sp[key]["service"] and got["class"] == sp[key]["class"] and atom_name(kw.get("instance")) == "instance_id", ckey(f"{lx.key}.{m}"), call or lxm[m], f"service {sp[key]['service']} class {sp[key]['class']} on the template instance", f"{m}: {got}; expected service {sp[key]['service']} class {sp[key]['class']} instance instance_id", got=got)


@rule(P, "D14.6", "T-WITNESS", floor=4)
def d14_6(ctx):
    """set_plc_time delivers the timestamp it was given - including 0 (the epoch, falsy) - and the client clock only for None:
    the helper is folded (sa/miniinterp.py) with the structure encoder, the clock and generic_message replaced by witnesses."""
    from ..miniinterp import Obj, run_function

    lx = ctx.model.cls("pycomm3.logix_driver:LogixDriver")
    fn = lx.methods.get("set_plc_time")
    if fn is None:
        ctx.undecided(ckey(lx.key + ".set_plc_time"), lx.node, "anchor vanished")
        return
    p = fn.args.args[1].arg
    us = ctx.folder.module_value("pycomm3.logix_driver", "SEC_TO_US")
    for w in (0, 1, 1_700_000_000_000_000, None):
        sent = {}

        def hook(call, env, it, _sent=sent):
            path = attr_path(call.func) or ""
            if path == "time.time":
                return 1234.5
            if call_name(call) == "Struct":
                return Obj(kind="struct")
            if isinstance(call.func, ast.Attribute) and call.func.attr == "encode" and isinstance(env.get(atom_name(call.func.value)), Obj):
                return ("encoded", it.ev(call.args[0], env))
            if path == "self.generic_message":
                _sent.update({k.arg: it.ev(k.value, env) for k in call.keywords if k.arg in ("request_data",)})
                return Obj(kind="tag")
            return UNKNOWN

        kind, res = run_function(ctx, lx.module, fn, {"self": witness_instance(lx), p: w}, call_hook=hook, deep=False)
        key = ckey(lx.key + ".set_plc_time", f"witness:{w}")
        if kind != "return" or "request_data" not in sent:
            ctx.undecided(key, fn, f"set_plc_time not foldable on microseconds={w!r}: {kind} {res}")
            continue
        rd = sent["request_data"]
        fields = list(rd[1]) if isinstance(rd, tuple) and rd and rd[0] == "encoded" and isinstance(rd[1], (list, tuple)) else None
        want = w if w is not None else (int(1234.5 * us) if isinstance(us, int) else None)
        ok = fields is not None and len(fields) == 3 and fields[-1] == want
        ctx.check(ok, key, fn, f"set_plc_time({w!r}) sends the time {want!r}", f"set_plc_time({w!r}) sends {fields!r}; the time field must be {want!r}" + (" (0 is a valid timestamp: the epoch; only None means 'use the client clock')" if w == 0 else ""), fields=str(fields))


@rule(P, "D14.7", "T-WITNESS", floor=3)
def d14_7(ctx):
    """get_plc_time folded with the reply replaced by a witness: the microsecond count of the reply is reported unchanged, the
    datetime is the Unix epoch plus that count, a refused request gives a falsy result carrying the error."""
    import datetime as _dt

    from ..miniinterp import Obj, run_function

    lx = ctx.model.cls("pycomm3.logix_driver:LogixDriver")
    fn = lx.methods.get("get_plc_time")
    if fn is None:
        ctx.undecided(ckey(lx.key + ".get_plc_time"), lx.node, "anchor vanished")
        return
    for us in (0, 86_400_000_000, 1_700_000_000_123_456):
        def hook(call, env, it, _us=us):
            if attr_path(call.func) == "self.generic_message":
                return Obj(value={"µs": _us}, error=None)
            if call_name(call) in ("Struct", "n_bytes", "ULINT"):
                return Obj()
            if call_name(call) == "Tag":
                return ("Tag", [it.ev(a, env) for a in call.args], {k.arg: it.ev(k.value, env) for k in call.keywords})
            return UNKNOWN

        kind, res = run_function(ctx, lx.module, fn, {"self": witness_instance(lx), "fmt": "%Y-%m-%d %H:%M:%S"}, call_hook=hook, deep=False)
        key = ckey(lx.key + ".get_plc_time", f"witness:{us}")
        if kind == "unknown":
            ctx.undecided(key, fn, f"get_plc_time not foldable: {res}")
            continue
        want_dt = _dt.datetime(1970, 1, 1) + _dt.timedelta(microseconds=us)
        val = res[1][1] if kind == "return" and isinstance(res, tuple) and res[0] == "Tag" and len(res[1]) > 1 else None
        ok = isinstance(val, dict) and val.get("microseconds") == us and val.get("datetime") == want_dt and val.get("string") == want_dt.strftime("%Y-%m-%d %H:%M:%S")
        ctx.check(ok, key, fn, f"{us} us -> {want_dt.isoformat()}", f"get_plc_time reports {val!r} for a controller clock of {us} us (expected {want_dt.isoformat()})", us=us)
