"""Helpers shared by the property rule modules."""
from __future__ import annotations

import ast
from typing import List, Optional

from ..astutil import attr_path, call_name, walk
from ..model import AnalysisError, ClassInfo, FuncInfo

DT = "pycomm3.cip.data_types"
CT = "pycomm3.custom_types"
LX = "pycomm3.logix_driver"
CD = "pycomm3.cip_driver"
SLC = "pycomm3.slc_driver"
PB = "pycomm3.packets.base"
PE = "pycomm3.packets.ethernetip"
PC = "pycomm3.packets.cip"
PL = "pycomm3.packets.logix"
PU = "pycomm3.packets.util"


def ckey(fi_or_key, role: Optional[str] = None) -> str:
    k = fi_or_key.key if hasattr(fi_or_key, "key") else fi_or_key
    return f"{k}#{role}" if role else k


def datatype_classes(ctx) -> List[ClassInfo]:
    base = ctx.model.cls(f"{DT}:DataType")
    return [c for c in ctx.model.classes.values() if base in c.mro()]


def class_methods(ctx, classes, names) -> List[FuncInfo]:
    out = []
    for c in classes:
        for n in names:
            fn = ctx.model.own_method(c, n)
            if fn is not None:
                out.append(fn)
    return out


def is_super_call(call: ast.Call, method: Optional[str] = None) -> bool:
    f = call.func
    if isinstance(f, ast.Attribute) and isinstance(f.value, ast.Call) and isinstance(f.value.func, ast.Name) and f.value.func.id == "super":
        return method is None or f.attr == method
    return False


def is_self_call(call: ast.Call, method: Optional[str] = None) -> bool:
    f = call.func
    if isinstance(f, ast.Attribute) and isinstance(f.value, ast.Name) and f.value.id in ("self", "cls"):
        return method is None or f.attr == method
    return False


def only_raises_notimplemented(func) -> bool:
    body = [s for s in func.body if not (isinstance(s, ast.Expr) and isinstance(s.value, ast.Constant))]
    return len(body) == 1 and isinstance(body[0], ast.Raise) and body[0].exc is not None and (
        call_name(body[0].exc) if isinstance(body[0].exc, ast.Call) else attr_path(body[0].exc)
    ) == "NotImplementedError"


def find_calls(func, pred):
    return [c for c in walk(func) if isinstance(c, ast.Call) and pred(c)]


def require(cond, msg):
    if not cond:
        raise AnalysisError(msg)


def const_int(ctx, node, module, cls=None, func=None):
    v = ctx.folder.eval(node, module, cls=cls, func=func)
    return v if isinstance(v, int) and not isinstance(v, bool) else None


def structtag_visible_only(ctx, tag):
    """[(ok, how, return node)] for every return of StructTag._decode: the returned mapping holds no name in cls.private,
    either through a `not in cls.private` filter on the returned comprehension or because every store into the returned
    dict sits on the not-private side of a membership test (BOOL bit members are never private hosts)."""
    from ..astutil import ancestors
    from ..linexpr import atom_name

    d = tag.methods.get("_decode")
    if d is None:
        return None
    g = ctx.cfg(d)
    rets = [n for n in g.nodes if n.kind == "stmt" and isinstance(n.ast, ast.Return) and n.ast.value is not None]

    def sign(t):
        if isinstance(t, ast.Compare) and len(t.ops) == 1 and attr_path(t.comparators[0]) == "cls.private":
            return 1 if isinstance(t.ops[0], ast.NotIn) else -1 if isinstance(t.ops[0], ast.In) else 0
        return 0

    out = []
    for r in rets:
        v = r.ast.value
        ok, how = False, "visible members only"
        if isinstance(v, ast.DictComp):
            gen = v.generators[0]
            ok = any(sign(c) == 1 and atom_name(c.left) == atom_name(v.key) for c in gen.ifs)
            how = "returned dict keeps only keys not in cls.private"
        elif isinstance(v, ast.Name):
            stores = [n for n in g.nodes if n.kind == "stmt" and isinstance(n.ast, ast.Assign) and isinstance(n.ast.targets[0], ast.Subscript) and atom_name(n.ast.targets[0].value) == v.id]
            flags = []
            for st in stores:
                if any(isinstance(a, ast.For) and attr_path(getattr(a.iter, "func", None)) == "cls.bits.items" for a in ancestors(st.ast)):
                    flags.append(True)
                    continue
                flags.append(any(t.kind == "test" and sign(t.ast) and g.branch_dominates(t, sign(t.ast) == 1, st) for t in g.nodes))
            ok = bool(stores) and all(flags)
            how = "every member stored is tested to be outside cls.private"
        out.append((ok, how, r.ast))
    return out


def enum_method_results(ctx, tbl, fn, inputs):
    """Fold a small classmethod of an EnumMap table (if/return over cls.get / cls[...] look-ups) for each input value.
    The table is modelled the way MapMeta builds it: names (case-folded) -> members, value key -> name.
    Returns {input: result | ("raises", name) | UNKNOWN}."""
    from ..consteval import UNKNOWN, ClassRef, FuncRef

    members = {k: v for k, v in ctx.folder.enum_members(tbl).items() if not isinstance(v, FuncRef)}
    by_name, rev = ctx.folder.enum_tables(tbl)
    param = fn.args.args[1].arg if len(fn.args.args) > 1 else None

    def lookup(k, default=None):
        return ctx.folder.enum_lookup(tbl, k, default)

    def ev(e, env):
        if isinstance(e, ast.Call) and isinstance(e.func, ast.Attribute) and e.func.attr == "get" and 1 <= len(e.args) <= 2 and not e.keywords:
            recv = e.func.value
            target = tbl if attr_path(recv) == "cls" else None
            if target is None:
                rv = ctx.folder.eval(recv, tbl.module, env=env)
                if isinstance(rv, ClassRef) and rv.ci.has_base_named("EnumMap"):
                    target = rv.ci
            if target is not None:
                k = ev(e.args[0], env)
                d = ev(e.args[1], env) if len(e.args) == 2 else None
                if k is UNKNOWN or d is UNKNOWN:
                    return UNKNOWN
                return ctx.folder.enum_lookup(target, k, d)
        if isinstance(e, ast.Subscript) and attr_path(e.value) == "cls":
            k = ev(e.slice, env)
            if k is UNKNOWN:
                return UNKNOWN
            r = lookup(k, UNKNOWN)
            return ("raises", "KeyError") if r is UNKNOWN else r
        if isinstance(e, ast.IfExp):
            t = ev(e.test, env)
            return UNKNOWN if t is UNKNOWN else ev(e.body if t else e.orelse, env)
        return ctx.folder.eval(e, tbl.module, env=env)

    def run(stmts, env):
        for st in stmts:
            if isinstance(st, ast.Expr) and isinstance(st.value, ast.Constant):
                continue
            if isinstance(st, ast.Return):
                return ev(st.value, env) if st.value is not None else None
            if isinstance(st, ast.If):
                t = ev(st.test, env)
                if t is UNKNOWN or isinstance(t, tuple):
                    return UNKNOWN
                r = run(st.body if t else st.orelse, env)
                if r is not _FALLTHROUGH:
                    return r
                continue
            if isinstance(st, ast.Assign) and len(st.targets) == 1 and isinstance(st.targets[0], ast.Name):
                env = dict(env)
                env[st.targets[0].id] = ev(st.value, env)
                continue
            if isinstance(st, ast.Raise):
                return ("raises", call_name(st.exc) if isinstance(st.exc, ast.Call) else attr_path(st.exc))
            return UNKNOWN
        return _FALLTHROUGH

    out = {}
    for x in inputs:
        r = run(list(fn.body), {param: x})
        out[x] = None if r is _FALLTHROUGH else r
    return out, members, rev


_FALLTHROUGH = object()


def fragment_size_redefinitions(ctx, fn):
    """The write-fragment size is defined once as the per-fragment capacity (D4.4 checks that definition).  Every further
    definition of the variable is judged here.  Returns [(verdict, node, message)] with verdict in ok / violation / undecided:
      * a definition placed after the generator that slices the value was created changes the lazily evaluated slice width
        but not the eagerly evaluated range() stride -> the fragments no longer tile the value (violation);
      * before the generator: `min(size, ..)` and `size - size % k` under a dominating `k < size` guard only lower the size (ok);
        `max(.., x)` with an argument not bounded by the size can exceed the capacity (violation); anything else undecided."""
    from ..linexpr import atom_name, cmp_norm, lin

    f = fn.node
    gens = [n for n in walk(f) if isinstance(n, (ast.GeneratorExp, ast.ListComp)) and isinstance(n.elt, ast.Subscript) and isinstance(n.elt.slice, ast.Slice)]
    if len(gens) != 1:
        return [("undecided", f, "slicing generator not found")]
    ge = gens[0]
    it = ge.generators[0].iter
    if not (isinstance(it, ast.Call) and call_name(it) == "range" and len(it.args) == 3):
        return [("undecided", ge, "stride is not range(0, len, size)")]
    size = atom_name(it.args[2])
    gen_stmt = ge
    while not isinstance(gen_stmt, ast.stmt):
        gen_stmt = getattr(gen_stmt, "_parent")
    lazy = isinstance(ge, ast.GeneratorExp)
    defs = [n for n in walk(f) if (isinstance(n, ast.Assign) and any(atom_name(t) == size for t in n.targets)) or (isinstance(n, ast.AugAssign) and atom_name(n.target) == size)]
    defs.sort(key=lambda n: n.lineno)
    out = []
    g = ctx.cfg(f)
    for d in defs[1:] if defs else []:
        if d.lineno > gen_stmt.lineno:
            if lazy:
                out.append(("violation", d, f"`{ast.unparse(d)}` changes `{size}` after the generator `{ast.unparse(ge)[:60]}...` was created: range() took the old stride, the lazily evaluated slice takes the new width - bytes between them are never sent and the offsets drift"))
            else:
                out.append(("ok", d, "the slices were already materialised"))
            continue
        # value in terms of the previous size
        if isinstance(d, ast.AugAssign):
            expr = ast.BinOp(left=ast.Name(id=size, ctx=ast.Load()), op=d.op, right=d.value)
        else:
            expr = d.value
        if isinstance(expr, ast.Call) and call_name(expr) == "min" and any(atom_name(a) == size for a in expr.args):
            out.append(("ok", d, "min(size, ...) only lowers the fragment size"))
            continue
        if isinstance(expr, ast.Call) and call_name(expr) == "max":
            unbounded = [a for a in expr.args if atom_name(a) != size and not (lin(a) is not None and lin(a).terms.get(size) == 1 and all(v <= 0 for k, v in lin(a).terms.items() if k != size) and lin(a).const <= 0)]
            inner_ok = [a for a in expr.args if a not in unbounded]
            if unbounded:
                out.append(("violation", d, f"`{ast.unparse(d)}` raises `{size}` to at least `{ast.unparse(unbounded[0])}`, which is not bounded by the per-fragment capacity: such a fragment exceeds the connection size"))
                continue
        L = lin(expr)
        if L is not None and L.terms.get(size) == 1 and L.const == 0 and len(L.terms) == 2:
            other = [k for k in L.terms if k != size][0]
            if L.terms[other] == -1 and other.startswith(f"({size})%"):
                out.append(("ok", d, "size - size % k with constant k only lowers the fragment size"))
                continue
        if isinstance(expr, ast.BinOp) and isinstance(expr.op, ast.Sub) and atom_name(expr.left) == size and isinstance(expr.right, ast.BinOp) and isinstance(expr.right.op, ast.Mod) and atom_name(expr.right.left) == size:
            k = atom_name(expr.right.right)
            nodes = g.nodes_of(d)
            guarded = False
            for t in g.nodes:
                if t.kind == "test" and nodes and g.branch_dominates(t, True, nodes[0]):
                    conj = t.ast.values if isinstance(t.ast, ast.BoolOp) and isinstance(t.ast.op, ast.And) else [t.ast]
                    for c in conj:
                        parts = []
                        if isinstance(c, ast.Compare):
                            left = c.left
                            for op, right in zip(c.ops, c.comparators):
                                parts.append((left, op, right))
                                left = right
                        for a, op, b in parts:
                            if (atom_name(a) == k and atom_name(b) == size and isinstance(op, (ast.Lt, ast.LtE))) or (atom_name(a) == size and atom_name(b) == k and isinstance(op, (ast.Gt, ast.GtE))):
                                guarded = True
            out.append(("ok", d, f"rounding down to a multiple of {k} under `{k} < {size}`") if guarded else ("undecided", d, f"`{ast.unparse(d)}` rounds the size down to a multiple of `{k}` without a dominating `{k} < {size}` test (a zero size stops the tiling)"))
            continue
        out.append(("undecided", d, f"`{ast.unparse(d)}` redefines the fragment size in a form that is not recognised as lowering it"))
    return out



def witness_instance(ci, **attrs):
    """A witness instance that carries its class: a private helper method the rule does not hook (e.g. one extracted by a
    refactor) is folded through the MRO instead of stopping the fold."""
    from ..miniinterp import Obj

    return Obj(_ci=ci, **attrs)



def service_status_witnesses(ctx):
    """get_service_status folded on witness codes: every code of the table gives the table's text, an unknown code gives a text
    that contains the code in hex (2 digits, lower or upper case).  [(ok, key role, expected, got)]"""
    import ast as _ast

    from ..miniinterp import run_function

    gss = ctx.model.func("pycomm3.packets.util:get_service_status")
    table = ctx.folder.module_value(gss.module.name, "SERVICE_STATUS")
    out = []
    if not isinstance(table, dict) or not table:
        return gss, [(None, "table", "SERVICE_STATUS is a constant table", repr(type(table)))]
    p = gss.node.args.args[0].arg
    known = sorted(k for k in table if isinstance(k, int))
    for code in known:
        kind, res = run_function(ctx, gss.module, gss.node, {p: code}, deep=False)
        out.append(((None if kind == "unknown" else kind == "return" and res == table[code]), f"known:{code:#04x}", table[code], f"{kind} {res!r}"))
    for code in range(256):  # every status byte outside the table (other tables of the package have texts for some of them)
        if code in table:
            continue
        kind, res = run_function(ctx, gss.module, gss.node, {p: code}, deep=False)
        ok = None if kind == "unknown" else (kind == "return" and isinstance(res, str) and bool(res) and f"{code:02x}" in res.lower())
        out.append((ok, f"unknown:{code:#04x}", f"a text naming {code:#04x}", f"{kind} {res!r}"))
    return gss, out


def initial_cfg(ctx):
    """The `_cfg` mapping a new CIPDriver starts with: the constructor folded on a witness path (the path parser gives a marker
    host, no port and a marker route).  Returns (dict, None) or (None, reason).  However the constructor assembles the mapping -
    one literal, merged module tables, later stores - the rules read what it holds afterwards."""
    cached = getattr(ctx, "_initial_cfg", None)
    if cached is not None:
        return cached
    from ..consteval import UNKNOWN
    from ..miniinterp import Obj, run_function

    drv = ctx.model.cls("pycomm3.cip_driver:CIPDriver")
    init = drv.methods.get("__init__")
    if init is None:
        out = (None, "CIPDriver.__init__ vanished")
    else:
        def hook(call, env, it):
            n = call_name(call) or ""
            if n == "parse_connection_path" and isinstance(call.func, ast.Name):
                return ("10.1.2.3", None, ["<segment>"])
            if n == "cycle":
                return Obj(kind="sequence")
            return UNKNOWN

        me = Obj(_ci=drv)
        env = {"self": me, init.args.args[1].arg: "10.1.2.3/bp/1"}
        if init.args.vararg:
            env[init.args.vararg.arg] = ()
        if init.args.kwarg:
            env[init.args.kwarg.arg] = {}
        kind, res = run_function(ctx, drv.module, init, env, call_hook=hook, deep=False)
        cfg = me.__dict__.get("_cfg")
        if kind != "return" or not isinstance(cfg, dict):
            out = (None, f"CIPDriver.__init__ not foldable: {kind} {res}")
        else:
            out = (dict(cfg), None)
    try:
        ctx._initial_cfg = out
    except AttributeError:
        pass
    return out
