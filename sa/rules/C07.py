"""C07 -- Encodings are the CIP wire format."""
from __future__ import annotations

import ast

from ..astutil import attr_path, call_name, walk, src, ancestors
from ..bytelayout import Layouter, flatten, show
from ..codecs import class_const, datatype_classes, effective, format_facts, write_layout, reads
from ..consteval import UNKNOWN, ClassRef, FuncRef
from ..framework import rule
from ..linexpr import atom_name, lin
from .common import DT, CT, ckey

P = "C07"
EXPLANATION = (
    "Static rules D7.1-D7.7 (DESIGN.md section 5, C07): every class with a CIP type code is compared, after constant "
    "folding through the MRO, with the independent table spec/cip_types.json (code, name, width, little-endian struct "
    "format, signedness, int/float kind); BOOL constants; string prefix types and character widths; bit-string host types "
    "and LSB-first bit order on both sides; the DataTypes name->class->code table; element/member concatenation order of "
    "arrays and structs and the offset/bit addressing of StructTag; fixed-capacity string padding. The oracle is the "
    "specification table, not the library, so symmetric mistakes (both directions wrong) are visible. Does not decide "
    "IEEE-754 bit patterns (delegated to struct)."
)
ASSUMPTIONS = ["struct.pack/unpack implement the formats as documented", "spec/cip_types.json transcribes CIP Vol.1 App. C correctly"]


def _coded_classes(ctx):
    out = []
    for c in datatype_classes(ctx):
        if c.module.name != DT:
            continue
        code = class_const(ctx, c, "code")
        own = "code" in c.attrs
        if own and isinstance(code, int):
            out.append((c, code))
    return out


@rule(P, "D7.1", "T-SPEC", floor=28)
def d7_1(ctx):
    """Elementary table: (code, name, width, endianness, signedness, kind) of every coded class equals the specification row."""
    sp = ctx.spec("cip_types")
    rows = {r["code"]: r for r in sp["types"]}
    by_name = {r["name"]: r for r in sp["types"]}
    seen_codes = {}
    for c, code in _coded_classes(ctx):
        node = c.attr_nodes.get("code", c.node)
        key = ckey(c.key)
        if code == 0 and c.name == "ElementaryDataType":
            continue
        row = rows.get(code)
        if c.name in by_name and by_name[c.name]["code"] != code:
            ctx.violation(key, node, f"{c.name} carries code {code:#x}; CIP assigns {by_name[c.name]['code']:#x}", code=code)
            continue
        if row is None:
            ctx.ok(key + "#unpinned", node, "code has no specification row (not judged)", code=code)
            continue
        if row["name"] != c.name and not (row["name"] == "EPATH" and c.name in ("EPATH", "PADDED_EPATH", "PACKED_EPATH")):
            ctx.violation(key, node, f"code {code:#x} belongs to {row['name']}, not {c.name}", code=code)
            continue
        seen_codes.setdefault(code, []).append(c.name)
        kind = row["kind"]
        if kind in ("sint", "uint", "float"):
            dc, _ = effective(ctx, c, "_encode")
            dd, _ = effective(ctx, c, "_decode")
            fmt = class_const(ctx, c, "_format")
            size = class_const(ctx, c, "size")
            ff = format_facts(fmt) if isinstance(fmt, str) else None
            base_codec = dc is not None and dc.name == "ElementaryDataType" and dd is not None and dd.name == "ElementaryDataType"
            good = base_codec and ff is not None and ff[0] == "<" and ff[1] == kind and ff[2] == row["width"] and size == row["width"]
            ctx.check(good, key, node, f"{c.name}: code {code:#x}, {row['width']}-byte little-endian {kind}",
                      f"{c.name} (code {code:#x}) is encoded with format {fmt!r} size {size!r}{'' if base_codec else ' by a custom codec'}; CIP specifies a {row['width']}-byte little-endian {kind}",
                      format=fmt, size=size, spec=row)
        elif kind == "bool":
            size = class_const(ctx, c, "size")
            ctx.check(size == row["width"], key, node, "BOOL is one byte", f"BOOL size is {size}", size=size)
        elif kind in ("bits", "bits_or_uint"):
            size = class_const(ctx, c, "size")
            host = ctx.folder.class_attr(c, "host_type")
            hname = host.ci.name if isinstance(host, ClassRef) else None
            hfmt = class_const(ctx, host.ci, "_format") if isinstance(host, ClassRef) else None
            hf = format_facts(hfmt) if isinstance(hfmt, str) else None
            want_host = sp["bit_strings"]["hosts"].get(c.name if c.name in sp["bit_strings"]["hosts"] else {2: "WORD"}.get(row["width"], c.name))
            good = size == row["width"] and hf is not None and hf[0] == "<" and hf[1] == "uint" and hf[2] == row["width"] and (want_host is None or hname == want_host)
            ctx.check(good, key, node, f"{c.name}: {row['width']}-byte bit string on host {hname}",
                      f"{c.name} size {size}, host {hname} ({hfmt}); CIP specifies {row['width']} bytes on unsigned host {want_host}", size=size, host=hname)
        else:
            ctx.ok(key, node, f"{c.name}: code {code:#x} ({kind}; layout judged by D7.3/D6.2)", code=code)
    missing = [r["name"] for r in sp["types"] if r["code"] not in seen_codes]
    if missing:
        ctx.ok(f"{DT}#unpinned-spec-rows", ctx.model.module(DT).tree.body[0], "specification rows without a class (not judged)", rows=missing)


@rule(P, "D7.2", "T-WITNESS", floor=2)
def d7_2(ctx):
    """BOOL encodes exactly FF / 00 by truthiness and decodes 'non-zero is true' from one byte.  Decided by folding the class's public
    encode / decode on witness values (True, False, 1, 0, 2, -1, "x", "", [0], [], None) and bytes (00, 01, 80, FF, a longer stream of
    which exactly one byte is consumed, an empty stream); an earlier form required a conditional expression in `_encode`."""
    from ..miniinterp import Obj, Stream, fold_method

    sp = ctx.spec("cip_types")["bool"]
    c = ctx.model.cls(f"{DT}:BOOL")
    t, f = bytes.fromhex(sp["true"]), bytes.fromhex(sp["false"])
    cw = Obj(_ci=c, _is_class=True)
    for v in (True, False, 1, 0, 2, -1, "x", "", [0], [], None, 0.0, 0.5):
        kind, res = fold_method(ctx, cw, "encode", [v], {}, None)
        key = ckey(c.key + "._encode", f"witness:{v!r}")
        if kind == "unknown":
            ctx.undecided(key, c.node, f"BOOL.encode not foldable on {v!r}: {res}")
            continue
        res = bytes(res) if isinstance(res, bytearray) else res
        want = t if v else f
        ctx.check(kind == "return" and res == want, key, c.methods.get("_encode") or c.node, f"BOOL.encode({v!r}) = {want.hex()}", f"BOOL.encode({v!r}) gives {kind} {res!r}; the CIP BOOL is {want.hex()} for a {'true' if v else 'false'} value")
    for data, want, used in ((b"\x00", False, 1), (b"\x01", True, 1), (b"\x80", True, 1), (b"\xff", True, 1), (b"\x00\xff", False, 1), (b"\x02\x00", True, 1)):
        st = Stream(data)
        kind, res = fold_method(ctx, cw, "decode", [st], {}, None)
        key = ckey(c.key + "._decode", f"witness:{data.hex()}")
        if kind == "unknown":
            ctx.undecided(key, c.node, f"BOOL.decode not foldable on {data.hex()}: {res}")
            continue
        ctx.check(kind == "return" and res is want and st.pos == used, key, c.methods.get("_decode") or c.node, f"BOOL.decode({data.hex()}) = {want}, one byte consumed",
                  f"BOOL.decode({data.hex()}) gives {kind} {res!r} after {st.pos} byte(s); expected {want} (non-zero is true) after exactly one byte")
    kind, res = fold_method(ctx, cw, "decode", [Stream(b"")], {}, None)
    if kind != "unknown":
        ctx.check(kind == "raise" and res in ("BufferEmptyError", "DataError"), ckey(c.key + "._decode", "witness:empty"), c.node, "BOOL.decode of an empty stream raises", f"BOOL.decode of an empty stream gives {kind} {res!r} instead of raising")

def _string_classes(ctx):
    base = ctx.model.cls(f"{DT}:StringDataType")
    return [c for c in datatype_classes(ctx) if base in c.mro() and c is not base]


def _enc_width(ctx, enc_name):
    w = ctx.spec("cip_types")["encoding_char_width"]
    return w.get(str(enc_name).lower())


@rule(P, "D7.3", "T-SPEC", floor=5)
def d7_3(ctx):
    """String types: documented length-prefix type and character width; fixed-capacity strings padded with 00 to capacity."""
    sp = ctx.spec("cip_types")["strings"]
    for c in _string_classes(ctx):
        if c.name not in sp or c.name == "STRINGN":
            continue
        want = sp[c.name]
        lt = ctx.folder.class_attr(c, "len_type")
        enc = class_const(ctx, c, "encoding")
        ltn = lt.ci.name if isinstance(lt, ClassRef) else None
        cw = _enc_width(ctx, enc)
        # the write layout must be [prefix(len(value)), value.encode(cls.encoding)]
        dc, fn, lay = write_layout(ctx, c)
        fl = flatten(lay or [])
        shape = len(fl) >= 2 and fl[0][0] == "lenof" and fl[0][1] == ltn and fl[1][0] == "ref" and "encode(cls.encoding)" in fl[1][1] and fl[0][3] == fl[1][1].split(".encode")[0]
        good = ltn == want["prefix"] and cw == want["char_width"] and shape and len(fl) == 2
        ctx.check(good, ckey(c.key), c.attr_nodes.get("len_type", c.node), f"{c.name}: {ltn} count + {cw}-byte characters",
                  f"{c.name} is written as {show(lay)} with len_type {ltn}, encoding {enc!r}; CIP specifies prefix {want['prefix']} and {want['char_width']}-byte characters",
                  len_type=ltn, encoding=enc, layout=show(lay))
    # STRINGN
    c = ctx.model.cls(f"{DT}:STRINGN")
    encs = class_const(ctx, c, "ENCODINGS")
    want = sp["STRINGN"]["char_widths"]
    good = isinstance(encs, dict) and sorted(encs) == sorted(want) and all(_enc_width(ctx, v) == k or (k == 1 and _enc_width(ctx, v) == 1) for k, v in encs.items())
    dc, fn, lay = write_layout(ctx, c, "encode")
    fl = flatten(lay or [])
    shape = len(fl) == 3 and fl[0][:3] == ("enc", "UINT", 2) and fl[1][0] == "lenof" and fl[1][1] == "UINT" and fl[2][0] == "ref"
    ctx.check(good and shape, ckey(c.key), c.attr_nodes.get("ENCODINGS", c.node), "STRINGN: UINT char size, UINT char count, characters of that size",
              f"STRINGN layout {show(lay)} / encodings {encs}; CIP specifies UINT size, UINT count and {want}-byte characters", encodings=encs, layout=show(lay))
    # FixedSizeString (count + characters + 00-padding up to the capacity): decided by folding the generated class on witness texts
    # (D7.11) - an earlier form matched the three-term sum in _encode and alarmed when the terms were joined or named
    from .driver import _fixedstring_rule

    _fixedstring_rule(ctx)
    d = class_const(ctx, ctx.model.cls(f"{DT}:StringDataType"), "encoding")
    ctx.check(_enc_width(ctx, d) == 1, f"{DT}:StringDataType#encoding", ctx.model.cls(f"{DT}:StringDataType").attr_nodes.get("encoding"), "default string encoding is single-byte", f"default encoding {d!r} is not a 1-byte character set", encoding=d)


@rule(P, "D7.4", "T-WITNESS", floor=2)
def d7_4(ctx):
    """Bit strings: element i is bit i of the host integer (LSB first), on encode and on decode, over exactly size x 8 bits,
    through the unsigned host type.  Decided by folding BYTE / WORD / DWORD / LWORD on witness bit sets that include the lowest
    and the highest bit (D6.9).  An earlier form matched the `|= 1 << i` loop and the `bin()` / `reverse()` idiom and alarmed on
    `sum(1 << i ...)`, `[False] * n` and `[::-1]`, which compute the same list."""
    from .C06 import d6_9

    d6_9(ctx)

@rule(P, "D7.5", "T-SPEC", floor=30)
def d7_5(ctx):
    """DataTypes: every member name maps to the class of that name whose code is the CIP code; reverse key is the code."""
    sp = ctx.spec("cip_types")
    by_name = {r["name"]: r for r in sp["types"]}
    tbl = ctx.model.cls(f"{DT}:DataTypes")
    members = ctx.folder.enum_members(tbl)
    for name, v in members.items():
        node = tbl.attr_nodes.get(name, tbl.node)
        key = ckey(tbl.key, name)
        if not isinstance(v, ClassRef):
            ctx.violation(key, node, f"member {name} does not fold to a class", value=repr(v))
            continue
        cname = v.ci.name
        code = class_const(ctx, v.ci, "code")
        want = by_name.get(name.upper())
        if cname.lower() != name.lower():
            ctx.violation(key, node, f"DataTypes.{name} maps to class {cname}: a type name resolves to a different type", cls=cname)
            continue
        if want is None:
            if name.upper() in ("PADDED_EPATH", "PACKED_EPATH"):
                ctx.check(code == by_name["EPATH"]["code"], key, node, "EPATH variant carries the EPATH code", f"{cname} code {code}", code=code)
            else:
                ctx.ok(key + "#unpinned", node, "no specification row for this name (not judged)", cls=cname)
            continue
        ctx.check(code == want["code"], key, node, f"{name} -> {cname} (code {code:#x})" if isinstance(code, int) else "ok",
                  f"DataTypes.{name} -> {cname} carries code {code!r}; CIP assigns {want['code']:#x}", code=code)
    # reverse key and get_type
    # (read through the folder's model of the table: a def, a lambda or operator.attrgetter that gives the member's `code`)
    by_n, rev = ctx.folder.enum_tables(tbl)
    coded = {n_: ctx.folder.class_attr(v_.ci, "code") for n_, v_ in by_n.items() if isinstance(v_, ClassRef)}
    coded = {n_: c_ for n_, c_ in coded.items() if isinstance(c_, int)}
    if getattr(rev, "unknown", False):
        ctx.undecided(ckey(tbl.key, "_value_key_"), tbl.attr_nodes.get("_value_key_", tbl.node), "the reverse-lookup key of DataTypes is not a form followed here (def / lambda returning an attribute, attrgetter)")
    else:
        good = bool(coded) and all(c_ in rev for c_ in coded.values()) and not any(isinstance(k_, ClassRef) for k_ in rev)
        ctx.check(good, ckey(tbl.key, "_value_key_"), tbl.attr_nodes.get("_value_key_", tbl.node), "reverse lookup key is the class code", "DataTypes reverse-lookup key is not the type's code")
    gt = tbl.methods.get("get_type")
    good, bad_codes = False, []
    if gt is not None:
        from .common import enum_method_results

        cls_members = {k: v for k, v in ctx.folder.enum_members(tbl).items() if isinstance(v, ClassRef)}
        by_code = {}
        for v in cls_members.values():
            c = ctx.folder.class_attr(v.ci, "code")
            if isinstance(c, int):
                by_code.setdefault(c, set()).add(v.ci.name)
        res, _, _ = enum_method_results(ctx, tbl, gt, sorted(by_code))
        bad_codes = [f"{c:#04x}" for c in sorted(by_code) if not (isinstance(res[c], ClassRef) and res[c].ci.name in by_code[c])]
        good = bool(by_code) and not bad_codes
    ctx.check(good, ckey(tbl.key + ".get_type"), gt or tbl.node, "every type code resolves to a class carrying it (code -> name -> class)", f"get_type does not resolve these type codes to the class of that code: {bad_codes}")


@rule(P, "D7.6", "T-WITNESS", floor=5)
def d7_6(ctx):
    """Arrays are concatenated elements in index order; structs concatenate members in declaration order; StructTag places members
    at their offsets and BOOL members in their host bits.  Decided by folding the three generated classes on witness members
    (D7.10, D7.12, D7.8); an earlier form matched the comprehension and the `offset = cls._offsets[member]` statement and alarmed
    on explicit loops and on a renamed local."""
    from .driver import _array_rule, _struct_rule, _structtag_rule

    _array_rule(ctx)
    _struct_rule(ctx)
    _structtag_rule(ctx)


def _structtag_facts(ctx, tag, e, d):
    out = {}
    # encode: value = bytearray(cls.size); value[offset:offset+len(encoded)] = encoded with offset = cls._offsets[member]
    ok_img = ok_slice = ok_bit_e = ok_bit_d = ok_off_d = False
    node_e = node_d = None
    if e is not None:
        node_e = e
        for n in walk(e):
            if isinstance(n, ast.Assign) and isinstance(n.value, ast.Call) and call_name(n.value) == "bytearray" and n.value.args and atom_name(n.value.args[0]) == "cls.size":
                ok_img = True
            if isinstance(n, ast.Assign) and isinstance(n.targets[0], ast.Subscript) and isinstance(n.targets[0].slice, ast.Slice):
                sl = n.targets[0].slice
                lo, hi = sl.lower, sl.upper
                if lo is not None and hi is not None:
                    L = lin(hi)
                    enc_name = atom_name(n.value)
                    ok_slice = L is not None and L.terms == {atom_name(lo): 1, f"len({enc_name})": 1} and L.const == 0 and _bound_to_offsets(e, atom_name(lo))
            if isinstance(n, ast.AugAssign) and isinstance(n.op, ast.BitOr) and isinstance(n.target, ast.Subscript):
                ok_bit_e = _one_shl(n.value) is not None and _bits_loop(n, atom_name(n.target.slice), _one_shl(n.value))
            if isinstance(n, ast.Assign) and isinstance(n.targets[0], ast.Subscript) and not isinstance(n.targets[0].slice, ast.Slice) and isinstance(n.value, ast.BinOp) and isinstance(n.value.op, ast.BitOr):
                # clear-then-or form: value[offset] = (value[offset] & ~(1 << bit)) | (b << bit)
                inv = [_one_shl(x.operand) for x in walk(n.value) if isinstance(x, ast.UnaryOp) and isinstance(x.op, ast.Invert) and _one_shl(x.operand) is not None]
                shl = [atom_name(x.right) for x in walk(n.value) if isinstance(x, ast.BinOp) and isinstance(x.op, ast.LShift) and _one_shl(x) is None]
                if inv and shl and inv[0] == shl[0]:
                    ok_bit_e = _bits_loop(n, atom_name(n.targets[0].slice), inv[0])
    if d is not None:
        node_d = d
        for n in walk(d):
            if isinstance(n, ast.BinOp) and isinstance(n.op, ast.BitAnd) and isinstance(n.left, ast.Subscript) and _one_shl(n.right) is not None:
                ok_bit_d = _bits_loop(n, atom_name(n.left.slice), _one_shl(n.right))
            if isinstance(n, ast.Assign) and atom_name(n.targets[0]) == "offset" and atom_name(n.value) == "cls._offsets[member]":
                ok_off_d = True
    out["image"] = (ok_img, "encoded image is a zeroed buffer of the template's structure size" if ok_img else "encoded image is not bytearray(cls.size)", node_e)
    out["member-offset"] = (ok_slice, "each member is written at value[offset : offset+len(encoded)] with offset = cls._offsets[member]" if ok_slice else "member bytes are not written at their template offset", node_e)
    out["bit-encode"] = (ok_bit_e, "BOOL member sets bit `bit` of host byte `offset`" if ok_bit_e else "BOOL members are not written as 1 << bit into value[offset] from cls.bits", node_e)
    out["bit-clear"] = _bit_clear_fact(e) if e is not None else (False, "no _encode", None)
    out["bit-decode"] = (ok_bit_d, "BOOL member reads bit `bit` of host byte `offset`" if ok_bit_d else "BOOL members are not read as raw[offset] & (1 << bit) from cls.bits", node_d)
    out["decode-offset"] = (ok_off_d, "members are decoded at cls._offsets[member]" if ok_off_d else "decode does not position each member at cls._offsets[member]", node_d)
    return out


def _bit_clear_fact(e):
    """A BOOL member that is False leaves its host bit 0.  The image starts zeroed, but member bytes are written into it before
    the bit loop and a template may host a BOOL in a visible member, so OR-ing the true bits is only enough when nothing was
    written before; otherwise the false arm has to clear the bit (or the bit is assigned in clear-then-or form)."""
    ors = [n for n in walk(e) if isinstance(n, ast.AugAssign) and isinstance(n.op, ast.BitOr) and isinstance(n.target, ast.Subscript) and _one_shl(n.value) is not None]
    if not ors:
        assigns = [n for n in walk(e) if isinstance(n, ast.Assign) and isinstance(n.targets[0], ast.Subscript) and not isinstance(n.targets[0].slice, ast.Slice)
                   and any(isinstance(x, ast.UnaryOp) and isinstance(x.op, ast.Invert) and _one_shl(x.operand) is not None for x in walk(n.value))
                   and any(isinstance(x, ast.BinOp) and isinstance(x.op, ast.BitOr) for x in walk(n.value))]
        return (bool(assigns), "host bit assigned in clear-then-or form" if assigns else "no BOOL bit write found", assigns[0] if assigns else e)
    o = ors[0]
    loop = next((a for a in ancestors(o) if isinstance(a, ast.For)), None)
    earlier_writes = [n for n in walk(e) if isinstance(n, ast.Assign) and isinstance(n.targets[0], ast.Subscript) and isinstance(n.targets[0].slice, ast.Slice)
                      and atom_name(n.targets[0].value) == atom_name(o.target.value) and loop is not None and n.lineno < loop.lineno]
    if not earlier_writes:
        return (True, "no member bytes are written before the bit loop: the zeroed image already holds 0 for false BOOLs", o)
    iff = next((a for a in ancestors(o) if isinstance(a, ast.If)), None)
    clears = [n for n in walk(loop or e) if isinstance(n, ast.AugAssign) and isinstance(n.op, ast.BitAnd) and isinstance(n.target, ast.Subscript) and atom_name(n.target.slice) == atom_name(o.target.slice)
              and isinstance(n.value, ast.UnaryOp) and isinstance(n.value.op, ast.Invert) and _one_shl(n.value.operand) == _one_shl(o.value)]
    good = False
    if iff is not None and clears:
        in_body = lambda n, arm: any(n is x for s_ in arm for x in walk(s_))  # noqa: E731
        good = any((in_body(o, iff.body) and in_body(c, iff.orelse)) or (in_body(o, iff.orelse) and in_body(c, iff.body)) for c in clears)
    return (good, "a false BOOL member clears its host bit (members written before may share the host byte)" if good else
            "a false BOOL member does not clear its host bit although member bytes are written into the image before the bit loop: a BOOL hosted in a visible member keeps the host's bit (BOOL member not in its host bit)", o)


def _one_shl(e):
    if isinstance(e, ast.BinOp) and isinstance(e.op, ast.LShift) and isinstance(e.left, ast.Constant) and e.left.value == 1:
        return atom_name(e.right)
    return None


def _bits_loop(node, off_name, bit_name):
    """node is inside `for name, (offset, bit) in cls.bits.items()` binding exactly these names in this order."""
    p = getattr(node, "_parent", None)
    while p is not None:
        if isinstance(p, ast.For) and atom_name(p.iter) == "cls.bits.items()" and isinstance(p.target, ast.Tuple) and len(p.target.elts) == 2 and isinstance(p.target.elts[1], ast.Tuple):
            names = [atom_name(x) for x in p.target.elts[1].elts]
            return names == [off_name, bit_name]
        p = getattr(p, "_parent", None)
    return False


def _bound_to_offsets(func, name):
    return any(isinstance(n, ast.Assign) and atom_name(n.targets[0]) == name and atom_name(n.value) == "cls._offsets[member]" for n in walk(func))


@rule(P, "D7.7", "T-WITNESS", floor=15)
def d7_7(ctx):
    """String, bit-string and PCCC string codecs produce / accept the bytes of the wire format on witness values - the
    obligations of D6.9 (which also checks the round trip), owned here for 'the bytes produced are the CIP wire layout'."""
    from .C06 import d6_9

    d6_9(ctx)
