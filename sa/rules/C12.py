"""C12 -- Reply frames survive any TCP segmentation."""
from __future__ import annotations

import ast

from ..astutil import attr_path, call_name, walk, src, enclosing_stmt
from ..cfg import exc_name, handler_names
from ..framework import rule
from ..guards import branch_outcome, guarded_nonempty, handler_raises, in_try_with_handler
from ..linexpr import Lin, atom_name, cmp_norm, lin
from .common import ckey

P = "C12"
SOCK = "pycomm3.socket_"
EXPLANATION = (
    "Static rules D12.1-D12.6 (DESIGN.md section 5, C12) on Socket.receive / Socket.send and their helpers: every recv "
    "chunk that is accumulated is proven non-empty or CommError is raised (directly or through a helper whose summary is "
    "'returns non-empty or raises'), the length-field read is dominated by a test that at least the length field was "
    "received, the completion condition is len(data) < HEADER_SIZE + <LE UINT at offset 2> in canonical linear form with "
    "HEADER_SIZE = 24 from the specification, every recv/send lies under a handler mapping socket errors to CommError, and "
    "the send loop is a contiguous accumulator over msg[total_sent:]. Decides termination/progress and framing arithmetic "
    "for every chunking; does not decide behaviour when the peer pipelines several frames."
)
ASSUMPTIONS = ["socket.socket.recv/send raise only OSError subclasses (socket.error is OSError)", "one reply frame is in flight per request (request/response discipline)"]


def _recv_calls(func):
    return [c for c in walk(func) if isinstance(c, ast.Call) and isinstance(c.func, ast.Attribute) and c.func.attr == "recv"]


def _helper_summary(ctx, cls, name, _seen=None):
    """Does Socket.<name> return only chunks proven non-empty (else raise CommError)?"""
    fn = cls.methods.get(name)
    if fn is None:
        return False, "no such helper"
    g = ctx.cfg(fn)
    rets = [n for n in g.nodes if n.kind == "stmt" and isinstance(n.ast, ast.Return)]
    if not rets:
        return False, "helper returns nothing"
    for r in rets:
        v = r.ast.value
        if not isinstance(v, ast.Name):
            return False, f"helper returns `{src(v) if v else None}`, not a tested chunk"
        binds = [n for n in g.nodes if n.kind == "stmt" and isinstance(n.ast, ast.Assign) and any(isinstance(t, ast.Name) and t.id == v.id for t in n.ast.targets)]
        if len(binds) != 1 or not (isinstance(binds[0].ast.value, ast.Call) and binds[0].ast.value in _recv_calls(fn)):
            return False, f"`{v.id}` is not bound once to a recv() result"
        ok, why = guarded_nonempty(g, binds[0], v.id, {"CommError"})
        if not ok:
            return False, why
    return True, "returns a non-empty chunk or raises CommError"


@rule(P, "D12.1", "T-WITNESS", floor=2)
def d12_1(ctx):
    """Every chunk accumulated by Socket.receive is non-empty or CommError is raised: a peer that closes inside the header, right after it, inside the data or before the first byte gives CommError, never a partial frame and never a spinning loop.  Decided by folding `receive` (with whatever helpers it uses) on witness streams whose peer closes at those points (D12.7); an earlier form summarised the `_recv` helper by name."""
    from .driver import _socket_rule

    _socket_rule(ctx)


def _in_loop(node, func):
    p = getattr(node, "_parent", None)
    while p is not None and p is not func:
        if isinstance(p, (ast.While, ast.For)):
            return True
        p = getattr(p, "_parent", None)
    return False


def _fold(ctx, module):
    from ..consteval import UNKNOWN

    def f(e):
        if isinstance(e, (ast.Name, ast.Attribute)):
            v = ctx.folder.eval(e, module)
            return v if isinstance(v, int) and not isinstance(v, bool) else None
        return None

    return f


@rule(P, "D12.2", "T-WITNESS", floor=1)
def d12_2(ctx):
    """The length field is read only when the bytes holding it have arrived: the header arriving byte by byte, split 2+1+21, 3+21 or 23+1 still gives the whole frame and no struct.error.  Decided by folding `receive` on those segmentations (D12.7); an earlier form looked for a dominating `len(data) < HEADER_SIZE` loop in `receive` itself and alarmed when the loops moved into a helper."""
    from .driver import _socket_rule

    _socket_rule(ctx)


def _reads_length(c):
    n = (call_name(c) or "")
    return n.endswith("unpack_from") or n.endswith("unpack") or n.endswith("from_bytes")


def _buffer_and_need(ctx, u, module):
    import struct as _s

    n = call_name(u) or ""
    if n.endswith("unpack_from") and len(u.args) >= 2:
        fmt = ctx.folder.eval(u.args[0], module)
        off = ctx.folder.eval(u.args[2], module) if len(u.args) > 2 else 0
        if isinstance(fmt, str) and isinstance(off, int):
            return atom_name(u.args[1]), off + _s.calcsize(fmt)
    if n.endswith("unpack") and len(u.args) == 2 and isinstance(u.args[1], ast.Subscript) and isinstance(u.args[1].slice, ast.Slice):
        hi = ctx.folder.eval(u.args[1].slice.upper, module) if u.args[1].slice.upper is not None else None
        if isinstance(hi, int):
            return atom_name(u.args[1].value), hi
    if n.endswith("from_bytes") and u.args and isinstance(u.args[0], ast.Subscript) and isinstance(u.args[0].slice, ast.Slice):
        hi = ctx.folder.eval(u.args[0].slice.upper, module) if u.args[0].slice.upper is not None else None
        if isinstance(hi, int):
            return atom_name(u.args[0].value), hi
    return None, None


def _struct_fields(fmt):
    """[(code, offset, width)] of the value-producing fields of a struct format with an explicit byte order, or None."""
    import re
    import struct

    if not fmt or fmt[0] not in "<>=!":
        return None
    out, pos = [], 0
    for cnt, code in re.findall(r"(\d*)([xcbB?hHiIlLqQnNefdspP])", fmt[1:]):
        n = int(cnt) if cnt else 1
        if code in "sp":
            out.append((code, pos, n))
            pos += n
            continue
        w = struct.calcsize(fmt[0] + code)
        for _ in range(n):
            if code != "x":
                out.append((code, pos, w))
            pos += w
    return out if pos == struct.calcsize(fmt) else None


@rule(P, "D12.3", "T-SPEC", floor=3)
def d12_3(ctx):
    """Completion: loop continues iff len(data) < HEADER_SIZE + data_len, data_len = LE UINT at header offset 2, HEADER_SIZE = 24."""
    cls = ctx.model.cls(f"{SOCK}:Socket")
    fn = cls.methods.get("receive")
    spec = ctx.spec("encap")["header"]
    hs = ctx.folder.module_value(SOCK, "HEADER_SIZE")
    cmod = ctx.model.module("pycomm3.const")
    ctx.check(hs == spec["size"], "pycomm3.const:HEADER_SIZE", cmod.symbols["HEADER_SIZE"].node if "HEADER_SIZE" in cmod.symbols else cmod.tree,
              "HEADER_SIZE equals the encapsulation header size", f"HEADER_SIZE is {hs!r}; the encapsulation header is {spec['size']} bytes", got=hs)
    # completion: decided by folding `receive` on witness frames x TCP segmentations (D12.7: data lengths 0, 1, 20, 232, 233, 600
    # and 0x0102; the header arriving byte by byte, split 2+1+21, 3+21, 23+1, 24, 25, all but the last byte; a following frame;
    # the peer closing inside the header / after it / inside the data) - an earlier form normalised the loop test to
    # `len(data) - HEADER_SIZE < data_len` and alarmed when the frame length was bound to a local first
    from .driver import _socket_rule

    _socket_rule(ctx)


@rule(P, "D12.4", "T-WITNESS", floor=3)
def d12_4(ctx):
    """Every failure of the underlying socket surfaces as CommError: a timeout or a reset while the header or the data is awaited, a
    reset or an OS error in the middle of a send.  Decided by folding `receive` and `send` on witness sockets that fail at those
    points (D12.7); an earlier form required each socket call to sit lexically inside a `try ... except socket.error` and alarmed when
    the translation moved into a context manager."""
    from .driver import _socket_rule

    _socket_rule(ctx)


@rule(P, "D12.5", "T-WITNESS", floor=4)
def d12_5(ctx):
    """Send loop: every byte of the message is handed to the OS exactly once, in order, whatever part of it each call accepts; a
    call that accepts nothing, or fails, is CommError.  Decided by folding `send` on witness acceptance sequences (D12.7); an
    earlier form matched `total += sent` / `msg[total:]` by name."""
    from .driver import _socket_rule

    _socket_rule(ctx)


@rule(P, "D12.6", "T-WITNESS", floor=2)
def d12_6(ctx):
    """Every loop of receive that waits for more bytes makes progress: each of the 8 x 9 witness frames x segmentations is returned complete after a bounded number of reads, and a closed peer ends the wait with CommError (D12.7)."""
    from .driver import _socket_rule

    _socket_rule(ctx)

