"""C17 -- Connected messages carry fresh sequence counts."""
from __future__ import annotations

import ast

from ..astutil import attr_path, call_name, walk, src, enclosing_func
from ..consteval import UNKNOWN, ClassRef
from ..framework import rule
from ..linexpr import atom_name, cmp_norm
from .common import CD, PE, PL, ckey

P = "C17"
EXPLANATION = (
    "Static rules D17.1-D17.4 (DESIGN.md section 5, C17): symbolic path analysis of util.cycle between consecutive yields "
    "(the yielded value is previous+k with k != 0, or a reset to start that is only reachable when previous > start), the "
    "interval facts of its single construction (0 <= start < stop <= 0xFFFF), T-FRESH over every construction site of a "
    "connected request packet (sequence argument is the driver generator or next(generator), never a stored count), the "
    "placement of the count as the first UINT of the connected data, and single ownership of the generator. Decides that "
    "consecutive draws differ, also across the wrap; does not decide histories where an exact multiple of the period is "
    "drawn between two sends."
)
ASSUMPTIONS = ["a packet passed to send() under a name is the object constructed where that name was last bound (no aliasing through containers)"]


@rule(P, "D17.1", "T-PATHS", floor=3)
def d17_1(ctx):
    """util.cycle: two consecutive yields never carry the same value; values stay inside [start, stop] within UINT range."""
    fn = ctx.model.func("pycomm3.util:cycle")
    func = fn.node
    params = [a.arg for a in func.args.args]
    if len(params) < 2:
        ctx.undecided(ckey(fn), func, "unexpected signature")
        return
    stop_p, start_p = params[0], params[1]
    g = ctx.cfg(func)
    yields = [n for n in g.nodes if n.kind == "stmt" and isinstance(n.ast, ast.Expr) and isinstance(n.ast.value, ast.Yield)]
    if not yields:
        ctx.undecided(ckey(fn), func, "no yield found")
        return
    var = atom_name(yields[0].ast.value.value) if yields[0].ast.value.value is not None else None
    # construction sites
    sites = []
    for fi in ctx.model.all_functions():
        for c in walk(fi.node):
            if isinstance(c, ast.Call) and call_name(c) == "cycle":
                s = ctx.model.resolve(fi.module.name, "cycle")
                if s is not None and s.kind == "func" and s.node is func:
                    args = {stop_p: None, start_p: 0}
                    dflt = func.args.defaults
                    if dflt:
                        args[start_p] = ctx.folder.eval(dflt[-1], fn.module)
                    for p_, a in zip(params, c.args):
                        args[p_] = ctx.folder.eval(a, fi.module)
                    for k in c.keywords:
                        args[k.arg] = ctx.folder.eval(k.value, fi.module)
                    sites.append((fi, c, args))
    if not sites:
        ctx.undecided(ckey(fn, "sites"), func, "no construction site of cycle() found")
        return
    for fi, c, args in sites:
        st, sp = args.get(start_p), args.get(stop_p)
        good = isinstance(st, int) and isinstance(sp, int) and 0 <= st < sp <= 0xFFFF
        ctx.check(good, ckey(fi, "cycle-args"), c, f"0 <= start={st} < stop={sp} <= 0xFFFF (period {sp - st + 1 if good else '?'} >= 2, fits UINT)",
                  f"cycle({sp}, start={st}): needs 0 <= start < stop <= 65535 (start == stop repeats one value; stop > 65535 cannot be encoded as UINT)", start=st, stop=sp)
    # the sequence itself, folded on witness arguments (sa/miniinterp.py, generator mode).  The function only increments the
    # counter and compares it with its arguments, so its behaviour on (stop, start) depends on their order alone: small witnesses
    # decide it for the arguments of the construction sites as well
    from ..miniinterp import run_generator

    for stop_w, start_w in ((3, 0), (4, 2), (1, 0), (9, 8)):
        kind, vals = run_generator(ctx, fn.module, func, {stop_p: stop_w, start_p: start_w}, 3 * (stop_w - start_w + 1) + 2)
        key = ckey(fn, f"consecutive:{stop_w},{start_w}")
        if kind == "unknown":
            ctx.undecided(key, func, f"cycle({stop_w}, start={start_w}) not foldable: {vals}")
            continue
        period = list(range(start_w, stop_w + 1))
        want = (period * 4)[: 3 * len(period) + 2]
        ctx.check(kind == "return" and vals == want, key, func, f"cycle({stop_w}, start={start_w}) yields {want[:len(period) + 2]}...: every value of start..stop in turn, never twice in a row, never above stop",
                  f"cycle({stop_w}, start={start_w}) yields {vals!r} (expected {want!r}): a repeated count makes the target drop a message, a count above `stop` cannot be encoded")


def _guard_holds(guard, prev, stop):
    kind, cv, cs, k0, k = guard
    val = cv * (prev + k) + cs * stop + k0
    holds = val <= 0
    return holds if kind == "true" else not holds


def _apply(ctx, fn, st, var, state, start_p):
    """Transfer function of one statement on the symbolic counter."""
    if isinstance(st, ast.AugAssign) and atom_name(st.target) == var:
        k = ctx.folder.eval(st.value, fn.module)
        if isinstance(k, int) and isinstance(st.op, (ast.Add, ast.Sub)):
            d = k if isinstance(st.op, ast.Add) else -k
            if state[0] == "prev":
                return ("prev", state[1] + d), None
            if state[0] == "start":
                return ("other",), None
        return ("other",), None
    if isinstance(st, ast.Assign) and any(atom_name(t) == var for t in st.targets):
        if atom_name(st.value) == start_p:
            return ("start",), None
        if isinstance(st.value, ast.BinOp) and isinstance(st.value.op, (ast.Add, ast.Sub)) and atom_name(st.value.left) == var:
            k = ctx.folder.eval(st.value.right, fn.module)
            if isinstance(k, int) and state[0] == "prev":
                return ("prev", state[1] + (k if isinstance(st.value.op, ast.Add) else -k)), None
        return ("other",), None
    return state, None


def _sud_classes(ctx):
    base = ctx.model.cls(f"{PE}:SendUnitDataRequestPacket")
    return base, [c for c in ctx.model.classes.values() if base in c.mro()]


def construction_sites(ctx):
    """All Call nodes that construct a connected request packet: (FuncInfo, Call, ClassInfo|None, how)."""
    base, classes = _sud_classes(ctx)
    names = {c.name: c for c in classes}
    out = []
    for fi in ctx.model.all_functions():
        encl_cls = ctx.model.enclosing_class(fi.node)
        for c in walk(fi.node):
            if not isinstance(c, ast.Call) or enclosing_func(c) is not fi.node:
                continue
            f = c.func
            if isinstance(f, ast.Name):
                if f.id == "cls" and encl_cls is not None and encl_cls in classes:
                    out.append((fi, c, encl_cls, "cls"))
                    continue
                v = ctx.folder.eval(f, fi.module)
                if isinstance(v, ClassRef) and v.ci in classes:
                    out.append((fi, c, v.ci, "direct"))
                    continue
                # local alias:  req_class = A if cond else B
                binds = [n for n in walk(fi.node) if isinstance(n, ast.Assign) and atom_name(n.targets[0]) == f.id]
                if binds and isinstance(binds[0].value, ast.IfExp):
                    for arm in (binds[0].value.body, binds[0].value.orelse):
                        v = ctx.folder.eval(arm, fi.module)
                        if isinstance(v, ClassRef) and v.ci in classes:
                            out.append((fi, c, v.ci, "alias"))
            elif isinstance(f, ast.Attribute) and f.attr == "from_request":
                v = ctx.folder.eval(f.value, fi.module)
                if isinstance(v, ClassRef) and v.ci in classes:
                    out.append((fi, c, v.ci, "from_request"))
    return out


def _seq_arg(ctx, fi, call, how):
    if call.args and not isinstance(call.args[0], ast.Starred):
        return call.args[0]
    for k in call.keywords:
        if k.arg == "sequence":
            return k.value
        if k.arg is None:
            # **_kwargs : find _kwargs["sequence"] = ...
            name = atom_name(k.value)
            for n in walk(fi.node):
                if isinstance(n, ast.Assign) and isinstance(n.targets[0], ast.Subscript) and atom_name(n.targets[0].value) == name and isinstance(n.targets[0].slice, ast.Constant) and n.targets[0].slice.value == "sequence":
                    return n.value
    return None


@rule(P, "D17.2", "T-FRESH", floor=22)
def d17_2(ctx):
    """Every connected packet takes its count at construction from the driver generator (or next(generator)); never a stored count."""
    base, classes = _sud_classes(ctx)
    init = base.methods.get("__init__")
    # the base constructor draws exactly one count from a generator and keeps a plain count as it is: folded on both
    from ..consteval import UNKNOWN
    from ..miniinterp import fold_object

    def gen_hook(call, env, it):
        if call_name(call) == "isinstance" and len(call.args) == 2 and "Generator" in src(call.args[1]):
            return isinstance(it.ev(call.args[0], env), list)  # the witness generator is a list consumed by next()
        return UNKNOWN

    gen = [7, 8, 9]
    k1, o1 = fold_object(ctx, base, [gen], {}, gen_hook)
    k2, o2 = fold_object(ctx, base, [5], {}, gen_hook)
    if "unknown" in (k1, k2):
        ctx.undecided(ckey(base.key + ".__init__"), init or base.node, f"constructor not foldable: {o1 if k1 == 'unknown' else o2}")
    else:
        good = k1 == k2 == "return" and o1.__dict__.get("_sequence") == 7 and gen == [8, 9] and o2.__dict__.get("_sequence") == 5
        ctx.check(good, ckey(base.key + ".__init__"), init or base.node, "draws next(sequence) once when given the generator, keeps a count it is given",
                  f"SendUnitDataRequestPacket(generator) stores {o1.__dict__.get('_sequence') if k1 == 'return' else (k1, o1)!r} and leaves the generator at {gen!r}; given the count 5 it stores {o2.__dict__.get('_sequence') if k2 == 'return' else (k2, o2)!r} (expected 7, [8, 9], 5)")
    # subclass constructors pass their `sequence` parameter through
    for c in classes:
        ini = c.methods.get("__init__")
        if c is base or ini is None:
            continue
        p = ini.args.args[1].arg if len(ini.args.args) > 1 else None
        sup = [n for n in walk(ini) if isinstance(n, ast.Call) and isinstance(n.func, ast.Attribute) and n.func.attr == "__init__" and isinstance(n.func.value, ast.Call) and call_name(n.func.value) == "super"]
        good = len(sup) == 1 and sup[0].args and atom_name(sup[0].args[0]) == p
        ctx.check(good, ckey(c.key + ".__init__", "passthrough"), ini, "passes its sequence parameter to the base constructor", "constructor does not hand its `sequence` parameter to the base class unchanged")
    for fi, call, cls, how in construction_sites(ctx):
        arg = _seq_arg(ctx, fi, call, how)
        key = ckey(fi, f"{cls.name if cls else '?'}@{how}")
        if arg is None:
            ctx.violation(key, call, "cannot find the sequence argument of this connected-packet construction")
            continue
        a = atom_name(arg)
        params = [x.arg for x in fi.node.args.args]
        fresh = a == "self._sequence" or (isinstance(arg, ast.Call) and call_name(arg) == "next" and atom_name(arg.args[0]) in (["self._sequence"] + params)) or (how != "direct" and a in params and a == "sequence") or (a in params and a == "sequence")
        if not fresh and isinstance(arg, ast.Name):
            # a local bound exactly once, to a fresh draw from the generator, is that draw
            binds = [n_ for n_ in walk(fi.node) if isinstance(n_, ast.Name) and isinstance(n_.ctx, ast.Store) and n_.id == arg.id]
            defs = [n_ for n_ in walk(fi.node) if isinstance(n_, ast.Assign) and len(n_.targets) == 1 and atom_name(n_.targets[0]) == arg.id]
            uses = [n_ for n_ in walk(fi.node) if isinstance(n_, ast.Name) and isinstance(n_.ctx, ast.Load) and n_.id == arg.id]
            if len(binds) == 1 and len(defs) == 1 and len(uses) == 1 and isinstance(defs[0].value, ast.Call) and call_name(defs[0].value) == "next" and atom_name(defs[0].value.args[0]) in (["self._sequence"] + params):
                fresh = True
        ctx.check(fresh, key, call, f"sequence argument `{a}` is the generator / a fresh draw",
                  f"sequence argument `{a}` is a stored count, not the driver generator or next(generator): two packets can carry the same count", arg=a)
        if how == "from_request":
            continue
    # a packet's stored count is never copied into another packet
    for fi in ctx.model.all_functions():
        if fi.module.name.startswith("pycomm3.packets") or fi.module.name.endswith("_driver"):
            for n in walk(fi.node):
                if isinstance(n, ast.Attribute) and n.attr == "_sequence" and isinstance(n.ctx, ast.Load) and not (isinstance(n.value, ast.Name) and n.value.id == "self"):
                    ctx.violation(ckey(fi, "copies-count"), n, f"`{src(n)}` reads another object's stored sequence count")


@rule(P, "D17.3", "T-WITNESS", floor=1)
def d17_3(ctx):
    """The count is the first thing in the connected data, as a UINT.  Decided on witness packets: every connected request frame of
    sa/rules/packets.py (read, write, fragmented, read-modify-write, multi-service, generic, raw) starts its data item with the
    witness count 7 as `07 00`."""
    from .packets import _emit

    _emit(ctx, {"read-request", "write-request", "fragment-request", "bit-write", "multi-request", "generic-request", "raw-request"})


@rule(P, "D17.4", "T-WHO", floor=1)
def d17_4(ctx):
    """One generator per driver: self._sequence is assigned only in CIPDriver.__init__."""
    drv = ctx.model.cls(f"{CD}:CIPDriver")
    stores = []
    for c in ctx.model.subclasses(drv):
        for m in c.methods.values():
            for n in walk(m):
                if isinstance(n, (ast.Assign, ast.AnnAssign, ast.AugAssign)):
                    tgts = n.targets if isinstance(n, ast.Assign) else [n.target]
                    if any(attr_path(t) == "self._sequence" for t in tgts):
                        stores.append((c, m, n))
    good = len(stores) == 1 and stores[0][0] is drv and stores[0][1].name == "__init__" and isinstance(stores[0][2].value, ast.Call) and call_name(stores[0][2].value) == "cycle"
    ctx.check(good, ckey(drv.key, "_sequence-owner"), stores[0][2] if stores else drv.node, "the generator is created once, in CIPDriver.__init__",
              f"self._sequence is assigned at {[(c.name + '.' + m.name) for c, m, n in stores]}: re-creating the generator restarts the counts on a live connection", writers=[f"{c.name}.{m.name}" for c, m, n in stores])


def _header_exprs(n):
    """The expressions a CFG node evaluates itself (a compound statement's node stands for its header only)."""
    a = n.ast
    if a is None:
        return []
    if isinstance(a, (ast.For, ast.AsyncFor)):
        return []  # (the iterable has a node of its own; this node draws the next item and binds the target)
    if isinstance(a, (ast.With, ast.AsyncWith)):
        return [i.context_expr for i in a.items]
    if isinstance(a, (ast.If, ast.While)):
        return [a.test]
    if isinstance(a, ast.Try):
        return []
    return [a]


def _binds(n, name):
    a = n.ast
    tgts = []
    if isinstance(a, ast.Assign):
        tgts = a.targets
    elif isinstance(a, (ast.AnnAssign, ast.AugAssign)):
        tgts = [a.target]
    elif isinstance(a, (ast.For, ast.AsyncFor)):
        tgts = [a.target]
    elif isinstance(a, (ast.With, ast.AsyncWith)):
        tgts = [i.optional_vars for i in a.items if i.optional_vars is not None]
    for e in _header_exprs(n):
        tgts.extend(x.target for x in walk(e) if isinstance(x, ast.NamedExpr))
    return any(isinstance(x, ast.Name) and x.id == name for t in tgts for x in walk(t))


@rule(P, "D17.8", "T-PATHS", floor=4)
def d17_8(ctx):
    """A packet object is sent at most once per construction (a connected packet takes its count when it is constructed, so the
    same object sent again carries the count of the message before it): from every `self.send(x)` / `super().send(x)` in a
    driver method, no path - normal or exceptional, around a loop or into a handler - reaches a send of the same name without
    passing a statement that rebinds the name."""
    drv = ctx.model.cls(f"{CD}:CIPDriver")
    n_sites = 0
    for c in ctx.model.subclasses(drv):
        for mname, m in sorted(c.methods.items()):
            calls = [x for x in walk(m) if isinstance(x, ast.Call) and isinstance(x.func, ast.Attribute) and x.func.attr == "send" and x.args and isinstance(x.args[0], ast.Name)
                     and (atom_name(x.func.value) == "self" or (isinstance(x.func.value, ast.Call) and call_name(x.func.value) == "super")) and enclosing_func(x) is m]
            if not calls:
                continue
            g = ctx.cfg(m)
            where = {}
            for n in g.nodes:
                for e in _header_exprs(n):
                    for x in walk(e):
                        if any(x is c_ for c_ in calls):
                            where.setdefault(n, []).append(x)
            for start, cs in sorted(where.items(), key=lambda kv: kv[0].id):
                for call in cs:
                    name = call.args[0].id
                    n_sites += 1
                    key = ckey(f"{c.key}.{mname}", f"sent-once:{name}@{sorted(x.id for x in where).index(start.id)}")
                    # paths carry the names last assigned None: a loop flag (`offset = None` under `while offset is not None`) closes the loop
                    seen, todo, hit = set(), [(s, frozenset()) for s, _ in start.succ], None
                    if _binds(start, name):
                        todo = []  # e.g. `request = self.send(request)`: the name no longer denotes the packet
                    while todo and hit is None:
                        n, nulls = todo.pop()
                        if (n, nulls) in seen:
                            continue
                        seen.add((n, nulls))
                        again = [x for x in where.get(n, []) if x.args[0].id == name]
                        if isinstance(n.ast, (ast.For, ast.AsyncFor)) and _binds(n, name):
                            continue  # the loop header draws a new item into the name
                        if again:
                            hit = (n, again[0])
                            break
                        if _binds(n, name):
                            continue
                        a = n.ast
                        if isinstance(a, ast.Assign) and len(a.targets) == 1 and isinstance(a.targets[0], ast.Name):
                            v = a.targets[0].id
                            nulls = nulls | {v} if isinstance(a.value, ast.Constant) and a.value.value is None else nulls - {v}
                        else:
                            nulls = frozenset(v for v in nulls if not _binds(n, v))
                        only = None
                        t = a.test if isinstance(a, (ast.While, ast.If)) else a
                        if n.kind == "test" and isinstance(t, ast.Compare) and len(t.ops) == 1 and isinstance(t.left, ast.Name) and t.left.id in nulls \
                                and isinstance(t.comparators[0], ast.Constant) and t.comparators[0].value is None and isinstance(t.ops[0], (ast.Is, ast.IsNot)):
                            only = isinstance(t.ops[0], ast.Is)
                        todo.extend((s, nulls) for s, lab in n.succ if only is None or lab not in (True, False) or lab is only)
                    if hit is None:
                        ctx.ok(key, call, f"`{name}` is sent here and not again before it is rebound", method=f"{c.name}.{mname}")
                    else:
                        ctx.violation(key, call, f"{c.name}.{mname}: the packet `{name}` sent at line {call.lineno} reaches the send at line {hit[1].lineno} without being rebuilt: "
                                      "the second message carries the same sequence count as the first", method=f"{c.name}.{mname}", again_line=hit[1].lineno)
    if n_sites == 0:
        ctx.undecided(ckey(drv.key, "sent-once"), drv.node, "no send of a named packet found in the driver classes")
