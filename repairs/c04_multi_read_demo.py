import sys
sys.path.insert(0, '/repo')
from unittest import mock
from pycomm3 import LogixDriver
from pycomm3.packets import MultiServiceRequestPacket, ReadTagFragmentedRequestPacket, WriteTagFragmentedRequestPacket
from pycomm3.cip import DINT

def driver(conn):
    d = LogixDriver('10.0.0.1', init_info=False, init_tags=False, init_program_tags=False)
    d._cfg['connection_size'] = conn
    d._cfg['use_instance_ids'] = True
    d._info = {'version_major': 30}
    mk = lambda iid, n: {'tag_name': 'x', 'instance_id': iid, 'tag_type': 'atomic', 'data_type_name': 'DINT', 'data_type': 'DINT', 'dim': 1, 'dimensions': [n,0,0], 'type_class': DINT[n] if n > 1 else DINT, 'string': None, 'external_access': 'Read/Write', 'alias': False}
    d._tags = {'a': mk(5, 200), 'b': mk(6, 1)}
    for k,v in d._tags.items(): v['tag_name']=k
    return d

for conn in (500, 4000):
    n = (conn - 12) // 4
    d = driver(conn)
    parsed = d._parse_requested_tags([f'a{{{n}}}', 'b'])
    reqs = d._read_build_multi_requests(parsed)
    for r in reqs:
        kind = type(r).__name__
        if isinstance(r, MultiServiceRequestPacket):
            # the reply this packet solicits: seq 2 + reply header 4 + count 2 + per member (offset 2 + header 4 + type 2 + data)
            reply = 2 + 4 + 2 + sum(2 + 4 + 2 + 4 * x.elements for x in r.requests)
            print(conn, kind, [(x.tag, x.elements) for x in r.requests], 'solicited reply bytes:', reply, 'OVER' if reply > conn else 'ok')
        else:
            print(conn, kind, r.tag)
    # writes
    d = driver(conn)
    pass
    for nw in range((conn - 30) // 4, (conn - 4) // 4 + 1):
        parsed = d._parse_requested_tags([f'a{{{nw}}}', 'b'])
        parsed[0]['value'] = [1] * nw; parsed[1]['value'] = 1
        reqs = d._write_build_multi_requests(parsed)
        for r in reqs:
            if isinstance(r, MultiServiceRequestPacket):
                r.build_message() if hasattr(r, 'build_message') else None
                msg = r.message if isinstance(r.message, bytes) else b''.join(r.message)
                if len(msg) > conn:
                    print(conn, 'write', nw, 'elements ->', type(r).__name__, [x.tag for x in r.requests], 'connected message bytes:', len(msg), 'OVER')
