"""C14 -- Generic messaging delivers the request verbatim and returns the answer."""
from __future__ import annotations

import ast

from ..astutil import attr_path, call_name, walk, src, dump, decorators
from ..bytelayout import Layouter, ListVal, flatten, show
from ..consteval import UNKNOWN, ClassRef, Instance
from ..framework import rule
from ..linexpr import atom_name
from .common import witness_instance, CD, LX, PC, PU, ckey

P = "C14"
EXPLANATION = (
    "Static rules D14.1-D14.7 (DESIGN.md section 5, C14): the three transports of a generic request carry the same "
    "(service, class/instance/attribute path, data) triple in the same order (byte-layout of both _setup_message bodies and of "
    "wrap_unconnected_send, with identical service normalisation), the Unconnected Send wrapper against CIP 3-5.5.4 (service 0x52 "
    "to class 6 instance 1, embedded length = len(message) of exactly the embedded message, pad iff odd, then the route), "
    "identical route encoding facts in all route_path branches of generic_message, the raw-or-decoded reply value rule in both "
    "response classes and the Tag returned, and the service/class/instance/attribute/transport constants of every helper against "
    "spec/helpers.json. Decides what is put on the wire for every argument shape; what a target answers is outside."
)
ASSUMPTIONS = ["set/get time agreement depends on the controller's wall-clock object (attribute 6 vs 11) and is not decided"]


def _msg_items(ctx, cls, fn):
    """Layouts of the items a _setup_message adds to self._msg (after the base part)."""
    L = Layouter(ctx, cls.module, cls, fn, inline_depth=0)
    env = {}
    res = L.block(list(fn.body), env)
    v = env.get("self._msg")
    if isinstance(v, ListVal):
        return [it for it in v.items if it != [("ref", "self._msg")]]
    return None


@rule(P, "D14.1", "T-WITNESS", floor=4)
def d14_1(ctx):
    """Connected, UCMM and Unconnected Send requests carry [service, request_path(class, instance, attribute), data] in that order
    (UCMM: followed by the route; Unconnected Send: that message embedded, the route as the wrapper's second part).  Decided on
    witness packets (generic-request / generic-response frames of sa/rules/packets.py)."""
    from .packets import _emit

    _emit(ctx, {"generic-request", "generic-response", "generic-response-errors"})


@rule(P, "D14.2", "T-WITNESS", floor=2)
def d14_2(ctx):
    """Unconnected Send wrapper: 52 | path(connection manager, instance 1) | priority | ticks | UINT len(message) | message | pad iff
    odd | route.  Decided by folding `wrap_unconnected_send` on odd, even and empty messages (part of D14.10)."""
    from .driver import _generic_message_rule

    _generic_message_rule(ctx)


def _route_calls(ctx, fn):
    out = []
    for n in walk(fn):
        if isinstance(n, ast.Assign) and isinstance(n.targets[0], ast.Subscript) and atom_name(n.targets[0].value) == "_kwargs" and isinstance(n.targets[0].slice, ast.Constant) and n.targets[0].slice.value == "route_path":
            out.append(n)
    return out


@rule(P, "D14.3", "T-WITNESS", floor=5)
def d14_3(ctx):
    """Route selection: True / string / segment list are encoded with word count and reserved byte, bytes pass through, False or an
    empty list give no route; connected requests carry the sequence generator and pass the Forward Open guard.  Decided by folding
    `generic_message` on one witness per route form (D14.10).  An earlier form compared the branches of the `route_path` ladder and
    alarmed when the ladder was moved into a helper."""
    from .driver import _generic_message_rule

    _generic_message_rule(ctx)


@rule(P, "D14.4", "T-SIB", floor=3)
def d14_4(ctx):
    """Reply value: raw data without a data type, decoded only when valid, decode failure -> _error and None; Tag carries value and error."""
    a = ctx.model.cls(f"{PC}:GenericConnectedResponsePacket")
    b = ctx.model.cls(f"{PC}:GenericUnconnectedResponsePacket")
    fa, fb = a.methods["_parse_reply"], b.methods["_parse_reply"]
    # witness evaluation (sa/miniinterp.py): the reply object is a witness with (data type given or not) x (reply valid or
    # refused) x (decode succeeds or raises); `super()._parse_reply()` is a no-op, `self.is_valid()` and
    # `self.data_type.decode(..)` are answered by the witness.  Expected: raw data without a data type; decoded value when
    # valid; None plus a recorded parse error when the decode of a valid reply fails; and for a refused reply no decode
    # attempt and no parse error, so that the status text of the refusal is what the caller sees.
    from ..miniinterp import Obj, Raise, run_function

    outcomes = {}
    for c, fn in ((a, fa), (b, fb)):
        bad, und = [], None
        for has_type in (False, True):
            for valid in (True, False):
                for decodes in (True, False):
                    calls = []
                    me = Obj(data_type=(Obj() if has_type else None), data=b"\x11\x22", value=None, _error=None)

                    def hook(call, env, it, _valid=valid, _decodes=decodes, _calls=calls):
                        p_ = attr_path(call.func) or ""
                        if isinstance(call.func, ast.Attribute) and call.func.attr == "_parse_reply" and isinstance(call.func.value, ast.Call) and call_name(call.func.value) == "super":
                            return None
                        if p_ == "self.is_valid":
                            return _valid
                        if p_ == "self.data_type.decode":
                            _calls.append("decode")
                            if not _decodes:
                                raise Raise("DataError")
                            return "<decoded>"
                        return UNKNOWN

                    kind, res = run_function(ctx, c.module, fn, {"self": me}, call_hook=hook, deep=False)
                    label = f"type={'T' if has_type else None},valid={valid},decode={'ok' if decodes else 'raises'}"
                    if kind == "unknown":
                        und = f"{label}: {res}"
                        break
                    if kind == "raise":
                        bad.append(f"{label}: {res} escapes _parse_reply")
                        continue
                    if not has_type:
                        ok = me.value == b"\x11\x22" and not calls
                    elif not valid:
                        ok = not calls and me._error is None
                    elif decodes:
                        ok = me.value == "<decoded>" and me._error is None
                    else:
                        ok = me.value is None and isinstance(me._error, str) and bool(me._error)
                    outcomes[(c.name, label)] = (me.value, me._error, tuple(calls))
                    if not ok:
                        bad.append(f"{label}: value={me.value!r}, _error={me._error!r}, decode attempted={bool(calls)}")
        key = ckey(c.key + "._parse_reply", "value")
        if und is not None:
            ctx.undecided(key, fn, f"_parse_reply not foldable on witness {und}")
            continue
        ctx.check(not bad, key, fn, "value = data | decoded-when-valid | None with _error on decode failure; refused replies are not decoded (8 witnesses)",
                  f"reply value rule deviates: {bad[:3]} (a refused reply must keep its status text: no decode attempt, no parse error; a failed decode of a valid reply is recorded, not raised)")
    same = all(outcomes.get((a.name, k[1])) == outcomes.get((b.name, k[1])) for k in outcomes)
    ctx.check(same and bool(outcomes), ckey(PC, "parse-siblings"), fb, "both generic response classes derive value and error identically on every witness", "the connected and unconnected generic responses derive their value differently")
    # the Tag carries the caller's name, the reply's value (or the reply itself when asked), the data type and the reply's error, and the
    # request is sent exactly once: decided by folding generic_message on witness requests and replies (D14.10) - an earlier form compared
    # the argument names of the `return Tag(...)` statements and alarmed when the two returns were merged
    from .driver import _generic_message_rule

    _generic_message_rule(ctx)


def _gm_call(ctx, fn, module):
    for c in walk(fn):
        if isinstance(c, ast.Call) and attr_path(c.func) == "self.generic_message":
            return c, {k.arg: k.value for k in c.keywords}
    return None, {}


def _cv(ctx, node, module, fn=None):
    v = ctx.folder.eval(node, module, func=fn) if node is not None else None
    if isinstance(v, bytes):
        return v.hex()
    if isinstance(v, int) and not isinstance(v, bool):
        return f"{v:02x}"
    if isinstance(v, ClassRef):
        return v.ci.name
    return v


def _helper_request(ctx, cls, name, me_attrs, args):
    """Fold helper `name` with generic_message as a marker; returns (kind, result, [keyword arguments of each request])."""
    from ..miniinterp import Obj, run_function

    fn = cls.methods[name]
    seen = []

    def hook(call, env, it):
        n = call_name(call) or ""
        path = attr_path(call.func) or ""
        if path == "self.generic_message":
            seen.append({k.arg: it.ev(k.value, env) for k in call.keywords if k.arg})
            return Obj(kind="response", _truth=True, value=me_attrs.get("__reply__"), error=None)
        if path == "PADDED_EPATH.encode":
            kw = {k.arg: it.ev(k.value, env) for k in call.keywords}
            return ("EPATH", tuple(it.ev(call.args[0], env)), kw.get("length", False), kw.get("pad_length", False))
        if n in ("PortSegment", "Struct", "n_bytes", "ULINT", "UINT", "UDINT") and isinstance(call.func, ast.Name):
            return (n,) + tuple(it.ev(a, env) if not (isinstance(a, ast.Name) and a.id in ("UINT", "ULINT", "UDINT")) else a.id for a in call.args)
        if isinstance(call.func, ast.Attribute) and call.func.attr == "encode" and isinstance(call.func.value, ast.Name) and isinstance(env.get(call.func.value.id), tuple) and env[call.func.value.id][:1] == ("Struct",):
            return ("encoded", env[call.func.value.id], tuple(it.ev(call.args[0], env)))
        if path in ("ModuleIdentityObject.decode",):
            return {"status": b"\x30\x60"}
        if path == "time.time":
            return 1.0
        return UNKNOWN

    env = {"self": witness_instance(cls, **{k: v for k, v in me_attrs.items() if not k.startswith("__")})}
    params = [a.arg for a in fn.args.args][1:]
    defaults = dict(zip(params[len(params) - len(fn.args.defaults):], [ctx.folder.eval(d, cls.module) for d in fn.args.defaults]))
    for p_ in params:
        env[p_] = args.get(p_, defaults.get(p_))
    kind, res = run_function(ctx, cls.module, fn, env, call_hook=hook, deep=False)
    return kind, res, seen


def _hexform(v):
    if isinstance(v, bytes):
        return v.hex()
    if isinstance(v, int) and not isinstance(v, bool):
        return f"{v:02x}"
    if isinstance(v, ClassRef):
        return v.ci.name
    return v


@rule(P, "D14.5", "T-SPEC", floor=7)
def d14_5(ctx):
    """Helpers address the documented service / class / instance over the documented transport, decode the reply as documented and
    build their request data / route as documented.  Each helper is folded with generic_message as a marker (sa/miniinterp.py)
    and the request it makes is compared with the specification table `spec/helpers.json`.  An earlier form read the keyword
    expressions of the call site and alarmed when one of them was computed into a local first."""
    sp = ctx.spec("helpers")
    lx = ctx.model.cls(f"{LX}:LogixDriver")
    drv = ctx.model.cls(f"{CD}:CIPDriver")
    table = [("get_plc_name", lx, {"_info": {}, "__reply__": "name"}, {}, None), ("get_plc_info", lx, {"_micro800": False, "_info": {}, "__reply__": {"status": b"\x30\x60"}}, {}, None),
             ("get_plc_info", lx, {"_micro800": True, "_info": {}, "__reply__": {"status": b"\x30\x60"}}, {}, "micro800"),
             ("get_module_info", drv, {"_cfg": {"cip_path": ["<hop1>", "<last hop>"]}, "__reply__": b"raw"}, {"slot": 3}, None), ("get_plc_time", lx, {"__reply__": {"\u00b5s": 5}}, {}, None),
             ("set_plc_time", lx, {}, {"microseconds": 123456}, None)]
    for name, cls, attrs, args, variant in table:
        fn = cls.methods.get(name)
        key = ckey(f"{cls.key}.{name}" + (f"#{variant}" if variant else ""))
        if fn is None:
            ctx.undecided(key, cls.node, "anchor vanished")
            continue
        kind, res, seen = _helper_request(ctx, cls, name, attrs, args)
        if kind == "unknown":
            ctx.undecided(key, fn, f"{name} not foldable: {res}")
            continue
        want = sp[name]
        if len(seen) != 1:
            ctx.violation(key, fn, f"{name} makes {len(seen)} generic_message request(s) instead of one")
            continue
        kw = seen[0]
        got = {"service": _hexform(kw.get("service")), "class": _hexform(kw.get("class_code")), "instance": _hexform(kw.get("instance"))}
        inst = int(got["instance"], 16) if isinstance(got["instance"], str) else got["instance"]
        probs = []
        if got["service"] != want["service"]:
            probs.append(f"service {got['service']} != {want['service']}")
        if got["class"] != want["class"]:
            probs.append(f"class {got['class']} != {want['class']}")
        if inst != want["instance"]:
            probs.append(f"instance {inst} != {want['instance']}")
        if "connected" in want:
            c = kw.get("connected", True)
            if c != want["connected"]:
                probs.append(f"connected={c} != {want['connected']}")
            if want["connected"] and "with_forward_open" not in decorators(fn) and name == "get_plc_name":
                probs.append("connected helper is not guarded by @with_forward_open")
        if "data_type" in want and _hexform(kw.get("data_type")) != want["data_type"]:
            probs.append(f"data_type {_hexform(kw.get('data_type'))} != {want['data_type']}")
        if want.get("unconnected_send") and kw.get("unconnected_send") is not True:
            probs.append("unconnected_send is not True")
        if name == "get_plc_info" and kw.get("unconnected_send") is not (variant != "micro800"):
            probs.append(f"unconnected_send={kw.get('unconnected_send')!r} for a {'Micro800' if variant else 'Logix'} target (the Unconnected Send wrapper is used except on Micro800)")
        if name == "get_module_info" and kw.get("route_path") != ("EPATH", ("<hop1>", ("PortSegment", "bp", 3)), True, True):
            probs.append(f"route {kw.get('route_path')!r} is not the connection path without its last hop + bp/<slot>, with word count and reserved byte")
        if name == "get_plc_time":
            rd, dt = kw.get("request_data"), kw.get("data_type")
            if not (isinstance(rd, bytes) and rd[:2] == b"\x01\x00" and len(rd) == 4):
                probs.append(f"request data {rd!r} is not `count=1, attribute`")
            if not (isinstance(dt, tuple) and dt[:1] == ("Struct",) and len(dt) == 3 and dt[1] == ("n_bytes", want["reply_prefix_width"]) and isinstance(dt[2], tuple) and dt[2][0] == want["value"]):
                probs.append(f"reply decoded as {dt!r}, not {want['reply_prefix_width']} prefix bytes + {want['value']} microseconds")
        if name == "set_plc_time":
            rd = kw.get("request_data")
            if not (isinstance(rd, tuple) and rd[0] == "encoded" and rd[1] == ("Struct", "UINT", "UINT", "ULINT") and len(rd[2]) == 3 and rd[2][0] == 1 and rd[2][2] == 123456):
                probs.append(f"request data {rd!r} is not Struct(UINT count=1, UINT attribute, ULINT microseconds)")
        if probs:
            ctx.violation(key, fn, "; ".join(probs), got=got)
        else:
            ctx.ok(key, fn, f"service {want['service']}, class {want['class']}, instance {want['instance']}", got=got)
    # template read / structure makeup / symbol list services
    lxm = lx.methods
    checks = [("_read_template", "template_read"), ("_get_structure_makeup", "structure_makeup")]
    for m, key in checks:
        call, kw = _gm_call(ctx, lxm[m], lx.module)
        got = {"service": _cv(ctx, kw.get("service"), lx.module), "class": _cv(ctx, kw.get("class_code"), lx.module)}
        ctx.check(got["service"] == sp[key]["service"] and got["class"] == sp[key]["class"] and atom_name(kw.get("instance")) == "instance_id", ckey(f"{lx.key}.{m}"), call or lxm[m], f"service {sp[key]['service']} class {sp[key]['class']} on the template instance", f"{m}: {got}; expected service {sp[key]['service']} class {sp[key]['class']} instance instance_id", got=got)


@rule(P, "D14.6", "T-WITNESS", floor=4)
def d14_6(ctx):
    """set_plc_time delivers the timestamp it was given - including 0 (the epoch, falsy) - and the client clock only for None:
    the helper is folded (sa/miniinterp.py) with the structure encoder, the clock and generic_message replaced by witnesses."""
    from ..miniinterp import Obj, run_function

    lx = ctx.model.cls("pycomm3.logix_driver:LogixDriver")
    fn = lx.methods.get("set_plc_time")
    if fn is None:
        ctx.undecided(ckey(lx.key + ".set_plc_time"), lx.node, "anchor vanished")
        return
    p = fn.args.args[1].arg
    us = ctx.folder.module_value("pycomm3.logix_driver", "SEC_TO_US")
    for w in (0, 1, 1_700_000_000_000_000, None):
        sent = {}

        def hook(call, env, it, _sent=sent):
            path = attr_path(call.func) or ""
            if path == "time.time":
                return 1234.5
            if call_name(call) == "Struct":
                return Obj(kind="struct")
            if isinstance(call.func, ast.Attribute) and call.func.attr == "encode" and isinstance(env.get(atom_name(call.func.value)), Obj):
                return ("encoded", it.ev(call.args[0], env))
            if path == "self.generic_message":
                _sent.update({k.arg: it.ev(k.value, env) for k in call.keywords if k.arg in ("request_data",)})
                return Obj(kind="tag")
            return UNKNOWN

        kind, res = run_function(ctx, lx.module, fn, {"self": witness_instance(lx), p: w}, call_hook=hook, deep=False)
        key = ckey(lx.key + ".set_plc_time", f"witness:{w}")
        if kind != "return" or "request_data" not in sent:
            ctx.undecided(key, fn, f"set_plc_time not foldable on microseconds={w!r}: {kind} {res}")
            continue
        rd = sent["request_data"]
        fields = list(rd[1]) if isinstance(rd, tuple) and rd and rd[0] == "encoded" and isinstance(rd[1], (list, tuple)) else None
        want = w if w is not None else (int(1234.5 * us) if isinstance(us, int) else None)
        ok = fields is not None and len(fields) == 3 and fields[-1] == want
        ctx.check(ok, key, fn, f"set_plc_time({w!r}) sends the time {want!r}", f"set_plc_time({w!r}) sends {fields!r}; the time field must be {want!r}" + (" (0 is a valid timestamp: the epoch; only None means 'use the client clock')" if w == 0 else ""), fields=str(fields))


@rule(P, "D14.7", "T-WITNESS", floor=3)
def d14_7(ctx):
    """get_plc_time folded with the reply replaced by a witness: the microsecond count of the reply is reported unchanged, the
    datetime is the Unix epoch plus that count, a refused request gives a falsy result carrying the error."""
    import datetime as _dt

    from ..miniinterp import Obj, run_function

    lx = ctx.model.cls("pycomm3.logix_driver:LogixDriver")
    fn = lx.methods.get("get_plc_time")
    if fn is None:
        ctx.undecided(ckey(lx.key + ".get_plc_time"), lx.node, "anchor vanished")
        return
    for us in (0, 86_400_000_000, 1_700_000_000_123_456):
        def hook(call, env, it, _us=us):
            if attr_path(call.func) == "self.generic_message":
                return Obj(value={"µs": _us}, error=None)
            if call_name(call) in ("Struct", "n_bytes", "ULINT"):
                return Obj()
            if call_name(call) == "Tag":
                return ("Tag", [it.ev(a, env) for a in call.args], {k.arg: it.ev(k.value, env) for k in call.keywords})
            return UNKNOWN

        kind, res = run_function(ctx, lx.module, fn, {"self": witness_instance(lx), "fmt": "%Y-%m-%d %H:%M:%S"}, call_hook=hook, deep=False)
        key = ckey(lx.key + ".get_plc_time", f"witness:{us}")
        if kind == "unknown":
            ctx.undecided(key, fn, f"get_plc_time not foldable: {res}")
            continue
        want_dt = _dt.datetime(1970, 1, 1) + _dt.timedelta(microseconds=us)
        val = res[1][1] if kind == "return" and isinstance(res, tuple) and res[0] == "Tag" and len(res[1]) > 1 else None
        ok = isinstance(val, dict) and val.get("microseconds") == us and val.get("datetime") == want_dt and val.get("string") == want_dt.strftime("%Y-%m-%d %H:%M:%S")
        ctx.check(ok, key, fn, f"{us} us -> {want_dt.isoformat()}", f"get_plc_time reports {val!r} for a controller clock of {us} us (expected {want_dt.isoformat()})", us=us)
