#!/usr/bin/env python3
"""Developer helper (not used by any check): verify a sub-agent's seeded change in a fresh scratch worktree
and, if it holds up, keep it as /verif/seeded/<id>/ (patch.diff, demo.py, meta.json).

usage: tools_seed_intake.py <agent worktree> <seed id>
"""
import json
import os
import shutil
import subprocess
import sys

PY = "/venv/bin/python"


def run(cmd, cwd, env=None, timeout=900):
    e = dict(os.environ)
    e.update(env or {})
    r = subprocess.run(cmd, cwd=cwd, env=e, capture_output=True, text=True, timeout=timeout, shell=isinstance(cmd, str))
    return r.returncode, (r.stdout + r.stderr)


def main():
    wt, sid = sys.argv[1], sys.argv[2]
    src = os.path.join(wt, "seeded_change")
    for f in ("patch.diff", "demo.py", "meta.json"):
        if not os.path.exists(os.path.join(src, f)):
            print("MISSING", f)
            return 1
    meta = json.load(open(os.path.join(src, "meta.json")))
    scratch = f"/tmp/verify-{sid}"
    if os.path.exists(scratch):
        run(["git", "-C", "/repo", "worktree", "remove", "--force", scratch], "/")
    rc, out = run(["git", "-C", "/repo", "worktree", "add", "--detach", scratch, "HEAD", "-q"], "/")
    if rc:
        print("worktree failed", out)
        return 1
    try:
        os.makedirs(os.path.join(scratch, "seeded_change"), exist_ok=True)
        shutil.copy(os.path.join(src, "demo.py"), os.path.join(scratch, "seeded_change", "demo.py"))
        env = {"PYTHONPATH": scratch}
        rc0, out0 = run([PY, "seeded_change/demo.py"], scratch, env)
        print("demo on clean tree: exit", rc0, out0.strip().splitlines()[-1:] if out0.strip() else "")
        rc, out = run(["git", "apply", os.path.join(src, "patch.diff")], scratch)
        if rc:
            print("patch does not apply:", out)
            return 1
        rc1, out1 = run([PY, "seeded_change/demo.py"], scratch, env)
        print("demo with change: exit", rc1, out1.strip().splitlines()[-3:])
        rc2, out2 = run([PY, "-m", "pytest", "-q", "-p", "no:cacheprovider", "--timeout=900", "--continue-on-collection-errors"], scratch, env)
        tail = out2.strip().splitlines()[-1] if out2.strip() else ""
        print("suite with change:", tail)
        rc3, out3 = run([PY, "-c", "import pycomm3,sys;print(pycomm3.__file__)"], scratch, env)
        ok = rc0 == 0 and rc1 != 0 and "368 passed" in tail and scratch in out3
        print("pycomm3 imported from", out3.strip())
        if not ok:
            print("REJECTED")
            return 1
        dst = os.path.join("/verif/seeded", sid)
        os.makedirs(dst, exist_ok=True)
        shutil.copy(os.path.join(src, "patch.diff"), os.path.join(dst, "patch.diff"))
        shutil.copy(os.path.join(src, "demo.py"), os.path.join(dst, "demo.py"))
        meta["verified_by_intake"] = {
            "demo_clean_exit": rc0,
            "demo_changed_exit": rc1,
            "demo_changed_output_tail": out1.strip().splitlines()[-3:],
            "baseline_with_change": tail,
            "ran": [f"{PY} seeded_change/demo.py (clean scratch worktree of /repo HEAD)", "git apply patch.diff", f"{PY} seeded_change/demo.py", f"{PY} -m pytest -q -p no:cacheprovider --timeout=900 --continue-on-collection-errors"],
            "repo_head": run(["git", "-C", "/repo", "log", "--format=%h", "-1"], "/")[1].strip(),
        }
        json.dump(meta, open(os.path.join(dst, "meta.json"), "w"), indent=1)
        print("KEPT", dst)
        return 0
    finally:
        run(["git", "-C", "/repo", "worktree", "remove", "--force", scratch], "/")


if __name__ == "__main__":
    sys.exit(main())
