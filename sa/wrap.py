"""T-WRAP: exception-containment recogniser.

A function body is *contained* when every statement that may raise lies inside a
``try`` whose handlers catch ``Exception`` (or everything) and every such
handler path ends by raising an allowed library exception ``from`` the caught
one (mode "raise") or by recording the failure in ``self._error`` (mode
"record").  Statements outside such a ``try`` must be non-raising under a
strict syntactic predicate.  Documented pass-through handlers (``except
RequestError: raise``; ``if isinstance(err, BufferEmptyError): raise``) are
accepted only for the exception names the caller lists.
"""
from __future__ import annotations

import ast
from typing import Callable, List, Optional, Sequence, Set, Tuple

from .astutil import attr_path, strip_docstring, walk
from .cfg import exc_name, handler_catches_all, handler_names

Problem = Tuple[ast.AST, str]


class WrapSpec:
    def __init__(
        self,
        mode: str = "raise",  # "raise" | "record"
        allowed_raise: Sequence[str] = (),
        passthrough: Sequence[str] = (),
        safe_calls: Optional[Callable[[ast.Call], bool]] = None,
        record_attr: str = "_error",
        allow_explicit_raise_outside: Sequence[str] = (),
    ):
        self.mode = mode
        self.allowed_raise = set(allowed_raise)
        self.passthrough = set(passthrough)
        self.safe_calls = safe_calls or (lambda c: False)
        self.record_attr = record_attr
        self.allow_explicit_raise_outside = set(allow_explicit_raise_outside)


_SAFE_BUILTINS = {"isinstance", "issubclass", "_as_stream", "id", "type", "callable"}


def is_logger_call(call: ast.Call) -> bool:
    f = call.func
    if isinstance(f, ast.Attribute):
        v = f.value
        if isinstance(v, ast.Attribute) and v.attr.endswith("__log"):
            return True
        if isinstance(v, ast.Name) and v.id in ("logger", "log"):
            return True
    return False


def nonraising_expr(e, spec: WrapSpec) -> bool:
    if e is None:
        return True
    if isinstance(e, (ast.Constant, ast.Name)):
        return True
    if isinstance(e, ast.Attribute):
        return isinstance(e.value, ast.Name) and e.value.id in ("self", "cls")
    if isinstance(e, ast.BoolOp):
        return all(nonraising_expr(v, spec) for v in e.values)
    if isinstance(e, ast.UnaryOp) and isinstance(e.op, ast.Not):
        return nonraising_expr(e.operand, spec)
    if isinstance(e, ast.Compare):
        if all(isinstance(op, (ast.Is, ast.IsNot, ast.Eq, ast.NotEq)) for op in e.ops):
            return nonraising_expr(e.left, spec) and all(nonraising_expr(c, spec) for c in e.comparators)
        return False
    if isinstance(e, ast.IfExp):
        return all(nonraising_expr(x, spec) for x in (e.test, e.body, e.orelse))
    if isinstance(e, (ast.Tuple, ast.List)):
        return all(nonraising_expr(x, spec) for x in e.elts)
    if isinstance(e, ast.Dict):
        return all(k is not None and nonraising_expr(k, spec) for k in e.keys) and all(nonraising_expr(v, spec) for v in e.values)
    if isinstance(e, ast.JoinedStr):
        # f"...{err}": formatting a caught exception / plain names; accepted in handlers only via handler rules
        return all(isinstance(v, ast.Constant) or (isinstance(v, ast.FormattedValue) and isinstance(v.value, (ast.Name, ast.Constant))) for v in e.values)
    if isinstance(e, ast.Call):
        if is_logger_call(e):
            return all(nonraising_expr(a, spec) or isinstance(a, ast.JoinedStr) for a in e.args)
        if isinstance(e.func, ast.Name) and e.func.id in _SAFE_BUILTINS:
            return all(nonraising_expr(a, spec) for a in e.args)
        if spec.safe_calls(e):
            return all(nonraising_expr(a, spec) for a in e.args) and all(nonraising_expr(k.value, spec) for k in e.keywords)
        return False
    return False


def _targets_simple(targets) -> bool:
    for t in targets:
        if isinstance(t, ast.Name):
            continue
        if isinstance(t, ast.Attribute) and isinstance(t.value, ast.Name) and t.value.id in ("self", "cls"):
            continue
        if isinstance(t, ast.Tuple) and all(isinstance(x, ast.Name) for x in t.elts):
            return False  # unpacking may raise
        return False
    return True


def nonraising_stmt(st, spec: WrapSpec) -> bool:
    if isinstance(st, ast.Pass):
        return True
    if isinstance(st, ast.Expr):
        return nonraising_expr(st.value, spec)
    if isinstance(st, ast.Assign):
        return _targets_simple(st.targets) and nonraising_expr(st.value, spec)
    if isinstance(st, ast.AnnAssign):
        return _targets_simple([st.target]) and nonraising_expr(st.value, spec)
    if isinstance(st, ast.Return):
        return nonraising_expr(st.value, spec)
    if isinstance(st, ast.If):
        return nonraising_expr(st.test, spec) and all(nonraising_stmt(s, spec) for s in st.body + st.orelse)
    return False


def _handler_problems(h: ast.ExceptHandler, spec: WrapSpec, catch_all: bool) -> List[Problem]:
    """Check one handler: every path must end in an allowed raise / record."""
    probs: List[Problem] = []

    def block(stmts) -> bool:
        """returns True when every path through stmts terminates acceptably (raise/record+fallthrough allowed for record)."""
        recorded = False
        for st in stmts:
            if isinstance(st, ast.Raise):
                if st.exc is None:
                    # bare re-raise: acceptable only for pass-through names
                    if catch_all:
                        probs.append((st, "bare re-raise in a catch-all handler lets any exception escape"))
                        return True
                    names = handler_names(h)
                    bad = [n for n in names if n not in spec.passthrough and n not in spec.allowed_raise]
                    if bad:
                        probs.append((st, f"re-raises {bad} which is neither a documented pass-through nor a library error"))
                    return True
                nm = exc_name(st.exc)
                if nm not in spec.allowed_raise:
                    probs.append((st, f"handler raises {nm}, not one of {sorted(spec.allowed_raise)}"))
                return True
            if isinstance(st, ast.If):
                # if isinstance(err, BufferEmptyError): raise   else: raise DataError(..) from err
                pt = _isinstance_passthrough(st.test, h.name)
                if pt is not None:
                    ok_body = all(isinstance(s, ast.Raise) and s.exc is None for s in st.body) and bool(st.body)
                    if ok_body:
                        bad = [n for n in pt if n not in spec.passthrough]
                        if bad:
                            probs.append((st, f"passes {bad} through unchanged; only {sorted(spec.passthrough)} may pass"))
                        if st.orelse:
                            return block(st.orelse)
                        continue
                if not nonraising_expr(st.test, spec):
                    probs.append((st, "handler test may raise"))
                a = block(st.body)
                b = block(st.orelse) if st.orelse else False
                if a and b:
                    return True
                continue
            if isinstance(st, ast.Return):
                if spec.mode == "record" and recorded and nonraising_expr(st.value, spec):
                    return True
                probs.append((st, "handler returns instead of raising a library error"))
                return True
            if spec.mode == "record" and isinstance(st, ast.Assign) and any(attr_path(t) == f"self.{spec.record_attr}" for t in st.targets):
                recorded = True
                continue
            if not nonraising_stmt(st, spec) and not (isinstance(st, ast.Assign) and _targets_simple(st.targets) and isinstance(st.value, ast.JoinedStr)):
                probs.append((st, "statement inside the handler may raise before the failure is converted"))
        if spec.mode == "record":
            if not recorded:
                probs.append((h, f"catch-all handler neither raises a library error nor records self.{spec.record_attr}"))
            return True
        probs.append((h, "handler falls through without raising a library error (failure is swallowed)"))
        return True

    block(h.body)
    return probs


def _isinstance_passthrough(test, errname) -> Optional[List[str]]:
    if isinstance(test, ast.Call) and isinstance(test.func, ast.Name) and test.func.id == "isinstance" and len(test.args) == 2:
        a, b = test.args
        if isinstance(a, ast.Name) and a.id == errname:
            if isinstance(b, ast.Tuple):
                return [exc_name(x) for x in b.elts]
            return [exc_name(b)]
    return None


def wrap_problems(func, spec: WrapSpec) -> List[Problem]:
    """Problems that break containment of `func` (empty list = contained)."""
    probs: List[Problem] = []

    def block(stmts):
        for st in stmts:
            if isinstance(st, ast.Try):
                catch_all = [h for h in st.handlers if handler_catches_all(h)]
                if not catch_all:
                    # a try without catch-all protects nothing by itself: body must be non-raising
                    probs.append((st, "try block has no `except Exception` handler; other exception types escape"))
                    continue
                seen_all = False
                for h in st.handlers:
                    is_all = handler_catches_all(h)
                    if seen_all:
                        break
                    probs.extend(_handler_problems(h, spec, is_all))
                    seen_all = seen_all or is_all
                # else / finally are outside the protection of this try
                block(st.orelse)
                block(st.finalbody)
                continue
            if isinstance(st, ast.Raise):
                nm = exc_name(st.exc)
                if nm in spec.allowed_raise or nm in spec.allow_explicit_raise_outside:
                    if st.exc is not None and isinstance(st.exc, ast.Call) and not all(
                        nonraising_expr(a, spec) or isinstance(a, ast.JoinedStr) for a in st.exc.args
                    ):
                        probs.append((st, "argument of the raise may itself raise"))
                    continue
                probs.append((st, f"raises {nm} outside the wrapper"))
                continue
            if isinstance(st, ast.If):
                if not nonraising_expr(st.test, spec):
                    probs.append((st, f"test `{ast.unparse(st.test)}` outside the try may raise"))
                block(st.body)
                block(st.orelse)
                continue
            if not nonraising_stmt(st, spec):
                probs.append((st, f"statement `{ast.unparse(st).splitlines()[0][:80]}` may raise outside any catch-all try"))

    block(strip_docstring(func.body))
    return probs


def has_catch_all_try(func) -> bool:
    for n in walk(func):
        if isinstance(n, ast.Try) and any(handler_catches_all(h) for h in n.handlers):
            return True
    return False
