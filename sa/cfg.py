"""Statement-level control-flow graph with exceptional edges, dominators and
post-dominators, for the statement kinds the repository uses
(if/while/for(+else)/try-except-else-finally/with/return/raise/break/continue/yield).

Nodes
  entry, exit (normal return / fall off), raise_exit (exception leaves the function),
  stmt   -- a simple statement (Assign, AugAssign, Expr, Return, Raise, ...)
  test   -- the condition of an if / while, or the iterator step of a for
  handler-- the entry of an except clause

Edges carry a label: None (sequential), True / False (branch of a test),
"exc" (exceptional), "back" is not distinguished (loops are ordinary cycles).

Exceptional edges leave a node *before its effect*; a node has them iff the
may-raise predicate holds for the expressions it evaluates.
"""
from __future__ import annotations

import ast
from typing import Callable, Dict, List, Optional, Set, Tuple

BUILTIN_EXC = {
    "BaseException": None,
    "Exception": "BaseException",
    "ArithmeticError": "Exception",
    "ZeroDivisionError": "ArithmeticError",
    "OverflowError": "ArithmeticError",
    "LookupError": "Exception",
    "KeyError": "LookupError",
    "IndexError": "LookupError",
    "ValueError": "Exception",
    "UnicodeError": "ValueError",
    "TypeError": "Exception",
    "AttributeError": "Exception",
    "OSError": "Exception",
    "IOError": "Exception",
    "socket.error": "Exception",
    "socket.timeout": "OSError",
    "TimeoutError": "OSError",
    "ConnectionError": "OSError",
    "ConnectionResetError": "ConnectionError",
    "ConnectionRefusedError": "ConnectionError",
    "BrokenPipeError": "ConnectionError",
    "StopIteration": "Exception",
    "RuntimeError": "Exception",
    "NotImplementedError": "RuntimeError",
    "struct.error": "Exception",
    "AssertionError": "Exception",
    "NameError": "Exception",
    # library hierarchy (pycomm3/exceptions.py) -- re-derived from source by excflow, this is the fallback
    "PycommError": "Exception",
    "CommError": "PycommError",
    "DataError": "PycommError",
    "BufferEmptyError": "DataError",
    "ResponseError": "PycommError",
    "RequestError": "PycommError",
}


def exc_name(expr) -> Optional[str]:
    """Name of an exception class expression (Name, dotted Attribute, or a call of it)."""
    if expr is None:
        return None
    if isinstance(expr, ast.Call):
        expr = expr.func
    if isinstance(expr, ast.Name):
        return expr.id
    if isinstance(expr, ast.Attribute) and isinstance(expr.value, ast.Name):
        return f"{expr.value.id}.{expr.attr}"
    return None


EXC_ALIASES = {"socket.error": "OSError", "IOError": "OSError", "EnvironmentError": "OSError", "OSError": "OSError", "socket.timeout": "TimeoutError", "builtins.OSError": "OSError"}


def exc_is_subclass(name: Optional[str], parent: Optional[str], hierarchy=BUILTIN_EXC) -> Optional[bool]:
    """True/False when decidable from the hierarchy, None when unknown."""
    if name is None or parent is None:
        return None
    # names Python binds to the same class
    name, parent = EXC_ALIASES.get(name, name), EXC_ALIASES.get(parent, parent)
    if parent in ("BaseException",):
        return True
    seen = set()
    cur = name
    while cur is not None and cur not in seen:
        if cur == parent:
            return True
        seen.add(cur)
        if cur not in hierarchy:
            return None
        cur = hierarchy[cur]
    return False


def handler_names(h: ast.ExceptHandler) -> List[Optional[str]]:
    if h.type is None:
        return ["BaseException"]
    if isinstance(h.type, ast.Tuple):
        return [exc_name(e) for e in h.type.elts]
    return [exc_name(h.type)]


def handler_catches_all(h: ast.ExceptHandler) -> bool:
    return any(n in ("Exception", "BaseException") for n in handler_names(h))


class Node:
    __slots__ = ("id", "kind", "ast", "succ", "pred", "label")

    def __init__(self, id, kind, astnode=None, label=""):
        self.id = id
        self.kind = kind
        self.ast = astnode
        self.succ: List[Tuple["Node", object]] = []
        self.pred: List[Tuple["Node", object]] = []
        self.label = label

    @property
    def lineno(self):
        return getattr(self.ast, "lineno", 0)

    def __repr__(self):
        return f"<{self.kind}#{self.id}@{self.lineno}{' ' + self.label if self.label else ''}>"


_NONRAISING_CALLS = {"isinstance", "issubclass", "Tag", "str", "bool", "repr", "id", "type", "callable"}


def _nonraising_call(n: ast.Call) -> bool:
    f = n.func
    if isinstance(f, ast.Name) and f.id in _NONRAISING_CALLS:
        return True
    if isinstance(f, ast.Attribute):
        v = f.value
        # logger calls: self.__log.x(...), cls.__log.x(...), logger.x(...)
        if isinstance(v, ast.Attribute) and v.attr.endswith("__log"):
            return True
        if isinstance(v, ast.Name) and v.id in ("logger", "log", "logging"):
            return True
        if f.attr == "append" and isinstance(v, ast.Name):
            return True  # list.append on a local name
    return False


def default_may_raise(expr_or_stmt) -> bool:
    """Conservative may-raise predicate for the expressions evaluated by a node:
    any call, subscript, arithmetic or attribute read on something other than
    self/cls may raise, except logger calls, list.append on a local, isinstance,
    Tag(...), str()/bool()/repr()."""
    if expr_or_stmt is None:
        return False
    stack = [expr_or_stmt]
    while stack:
        n = stack.pop()
        if isinstance(n, (ast.FunctionDef, ast.AsyncFunctionDef, ast.Lambda, ast.ClassDef)) and n is not expr_or_stmt:
            continue
        if isinstance(n, ast.Call):
            if _nonraising_call(n):
                stack.extend(n.args)
                stack.extend(k.value for k in n.keywords)
                continue
            return True
        if isinstance(n, (ast.Subscript, ast.BinOp, ast.Await, ast.Yield, ast.YieldFrom, ast.Starred)):
            return True
        if isinstance(n, ast.JoinedStr):
            # f-strings call __format__/__repr__ of arbitrary values
            if any(isinstance(v, ast.FormattedValue) and not isinstance(v.value, (ast.Constant, ast.Name)) for v in n.values):
                return True
            continue
        if isinstance(n, ast.Attribute) and isinstance(n.ctx, ast.Load):
            if isinstance(n.value, ast.Name) and n.value.id in ("self", "cls", "logger", "logging", "socket"):
                continue
            return True
        stack.extend(ast.iter_child_nodes(n))
    return False


def _walk_no_defs(node):
    stack = [node]
    while stack:
        n = stack.pop()
        yield n
        for c in ast.iter_child_nodes(n):
            if isinstance(c, (ast.FunctionDef, ast.AsyncFunctionDef, ast.Lambda, ast.ClassDef)):
                continue
            stack.append(c)


class _Frame:
    """One enclosing try statement while building."""

    def __init__(self, handlers, has_finally):
        self.handlers = handlers  # list of (ExceptHandler, Node) or []
        self.has_finally = has_finally
        self.exc_into_finally: List[Node] = []  # sources of exceptional edges to the finally
        self.ret_into_finally: List[Tuple[Node, object]] = []
        self.brk_into_finally: List[Tuple[Node, object]] = []
        self.cont_into_finally: List[Tuple[Node, object]] = []


class CFG:
    def __init__(self, func, may_raise: Callable = default_may_raise, hierarchy=None):
        self.func = func
        self.may_raise = may_raise
        self.hier = dict(BUILTIN_EXC)
        if hierarchy:
            self.hier.update(hierarchy)
        self.nodes: List[Node] = []
        self.entry = self._new("entry")
        self.exit = self._new("exit")
        self.raise_exit = self._new("raise_exit")
        self.by_ast: Dict[ast.AST, List[Node]] = {}
        self._loops: List[Tuple[Node, List, int]] = []  # (header, break edges, frame depth)
        self._frames: List[_Frame] = []
        self._in_handler: List[Optional[ast.ExceptHandler]] = []
        out = self._seq(func.body, [(self.entry, None)])
        for n, lab in out:
            self._edge(n, self.exit, lab)

    # -- construction helpers
    def _new(self, kind, astnode=None, label=""):
        n = Node(len(self.nodes), kind, astnode, label)
        self.nodes.append(n)
        if astnode is not None:
            self.by_ast.setdefault(astnode, []).append(n)
        return n

    def _edge(self, a: Node, b: Node, label=None):
        if (b, label) not in a.succ:
            a.succ.append((b, label))
            b.pred.append((a, label))

    def _connect(self, preds, node):
        for p, lab in preds:
            self._edge(p, node, lab)

    def _raise_from(self, node: Node, exc: Optional[str] = None, start_depth: Optional[int] = None):
        """Add exceptional edges from `node` for an exception of class `exc` (None = unknown)."""
        depth = len(self._frames) if start_depth is None else start_depth
        for i in range(depth - 1, -1, -1):
            fr = self._frames[i]
            caught = False
            for h, hn in fr.handlers:
                names = handler_names(h)
                verdicts = [exc_is_subclass(exc, n, self.hier) if exc is not None else None for n in names]
                if any(n in ("Exception", "BaseException") for n in names) and (exc is None or exc_is_subclass(exc, "Exception", self.hier) is not False):
                    self._edge(node, hn, "exc")
                    caught = True
                    break
                if any(v is True for v in verdicts):
                    self._edge(node, hn, "exc")
                    caught = True
                    break
                if exc is None or any(v is None for v in verdicts):
                    self._edge(node, hn, "exc")  # may match
                    continue
                # definitely not matching: try the next handler
            if caught:
                return
            if fr.has_finally:
                fr.exc_into_finally.append(node)
                return  # continues outward from the finally copy
        self._edge(node, self.raise_exit, "exc")

    def _stmt_node(self, st, preds, label=""):
        n = self._new("stmt", st, label)
        self._connect(preds, n)
        return n

    # -- statements
    def _seq(self, stmts, preds):
        for st in stmts:
            if not preds:
                # unreachable code: still build (so anchors exist) but disconnected
                pass
            preds = self._stmt(st, preds)
        return preds

    def _stmt(self, st, preds):
        if isinstance(st, (ast.FunctionDef, ast.AsyncFunctionDef, ast.ClassDef)):
            n = self._stmt_node(st, preds, "def")
            return [(n, None)]
        if isinstance(st, ast.If):
            t = self._new("test", st.test, "if")
            self.by_ast.setdefault(st, []).append(t)
            self._connect(preds, t)
            if self.may_raise(st.test):
                self._raise_from(t)
            out = self._seq(st.body, [(t, True)])
            if st.orelse:
                out += self._seq(st.orelse, [(t, False)])
            else:
                out.append((t, False))
            return out
        if isinstance(st, ast.While):
            t = self._new("test", st.test, "while")
            self.by_ast.setdefault(st, []).append(t)
            self._connect(preds, t)
            if self.may_raise(st.test):
                self._raise_from(t)
            breaks: List = []
            self._loops.append((t, breaks, len(self._frames)))
            body_out = self._seq(st.body, [(t, True)])
            self._loops.pop()
            for p, lab in body_out:
                self._edge(p, t, lab)
            const_true = isinstance(st.test, ast.Constant) and bool(st.test.value) is True
            out = [] if const_true else [(t, False)]
            if st.orelse:
                out = self._seq(st.orelse, out)
            return out + breaks
        if isinstance(st, (ast.For, ast.AsyncFor)):
            it = self._new("stmt", st.iter, "for-iter")
            self._connect(preds, it)
            if self.may_raise(st.iter):
                self._raise_from(it)
            t = self._new("test", st, "for")
            self._edge(it, t, None)
            self._raise_from(t)  # next() of an arbitrary iterator / unpacking may raise
            breaks = []
            self._loops.append((t, breaks, len(self._frames)))
            body_out = self._seq(st.body, [(t, True)])
            self._loops.pop()
            for p, lab in body_out:
                self._edge(p, t, lab)
            out = [(t, False)]
            if st.orelse:
                out = self._seq(st.orelse, out)
            return out + breaks
        if isinstance(st, ast.Try):
            return self._try(st, preds)
        if isinstance(st, (ast.With, ast.AsyncWith)):
            n = self._stmt_node(st, preds, "with")
            self._raise_from(n)
            return self._seq(st.body, [(n, None)])
        if isinstance(st, ast.Return):
            n = self._stmt_node(st, preds, "return")
            if self.may_raise(st.value):
                self._raise_from(n)
            self._jump(n, "ret")
            return []
        if isinstance(st, ast.Raise):
            n = self._stmt_node(st, preds, "raise")
            name = exc_name(st.exc) if st.exc is not None else self._reraised()
            self._raise_from(n, name)
            return []
        if isinstance(st, ast.Break):
            n = self._stmt_node(st, preds, "break")
            self._jump(n, "brk")
            return []
        if isinstance(st, ast.Continue):
            n = self._stmt_node(st, preds, "continue")
            self._jump(n, "cont")
            return []
        if isinstance(st, ast.Pass):
            n = self._stmt_node(st, preds, "pass")
            return [(n, None)]
        # simple statement
        n = self._stmt_node(st, preds)
        if self.may_raise(st):
            self._raise_from(n)
        return [(n, None)]

    def _reraised(self):
        for h in reversed(self._in_handler):
            if h is not None:
                names = handler_names(h)
                return names[0] if len(names) == 1 else None
        return None

    def _jump(self, n: Node, kind: str):
        """return / break / continue, honouring enclosing finally blocks."""
        if kind == "ret":
            limit = 0
        else:
            limit = self._loops[-1][2] if self._loops else 0
        for i in range(len(self._frames) - 1, limit - 1, -1):
            fr = self._frames[i]
            if fr.has_finally:
                getattr(fr, {"ret": "ret_into_finally", "brk": "brk_into_finally", "cont": "cont_into_finally"}[kind]).append((n, None))
                return
        if kind == "ret":
            self._edge(n, self.exit, None)
        elif kind == "brk":
            self._loops[-1][1].append((n, None))
        else:
            self._edge(n, self._loops[-1][0], None)

    def _try(self, st: ast.Try, preds):
        has_finally = bool(st.finalbody)
        # the finally frame encloses body, handlers and else
        fin_frame = _Frame([], True) if has_finally else None
        if fin_frame:
            self._frames.append(fin_frame)
        handler_nodes = [(h, self._new("handler", h, "except")) for h in st.handlers]
        frame = _Frame(handler_nodes, False)
        self._frames.append(frame)
        body_out = self._seq(st.body, preds)
        self._frames.pop()
        if st.orelse:
            body_out = self._seq(st.orelse, body_out)
        outs = list(body_out)
        for h, hn in handler_nodes:
            self._in_handler.append(h)
            outs += self._seq(h.body, [(hn, None)])
            self._in_handler.pop()
        if not has_finally:
            return outs
        self._frames.pop()  # fin_frame
        result = []
        # normal completion copy
        if outs:
            result += self._seq(st.finalbody, outs)
        # exceptional copy: runs finally then keeps propagating
        if fin_frame.exc_into_finally:
            hn = self._new("handler", st, "finally-exc")
            for src in fin_frame.exc_into_finally:
                self._edge(src, hn, "exc")
            out = self._seq(st.finalbody, [(hn, None)])
            for p, lab in out:
                tmp = self._new("stmt", None, "reraise")
                self._edge(p, tmp, lab)
                self._raise_from(tmp)
        for kind, lst in (("ret", fin_frame.ret_into_finally), ("brk", fin_frame.brk_into_finally), ("cont", fin_frame.cont_into_finally)):
            if lst:
                out = self._seq(st.finalbody, lst)
                for p, lab in out:
                    tmp = self._new("stmt", None, f"resume-{kind}")
                    self._edge(p, tmp, lab)
                    self._jump(tmp, kind)
        return result

    # ---------------------------------------------------------------- queries
    def nodes_of(self, astnode) -> List[Node]:
        return self.by_ast.get(astnode, [])

    def reachable(self, start: Optional[Node] = None) -> Set[Node]:
        start = start or self.entry
        seen = {start}
        stack = [start]
        while stack:
            n = stack.pop()
            for s, _ in n.succ:
                if s not in seen:
                    seen.add(s)
                    stack.append(s)
        return seen

    def dominators(self) -> Dict[Node, Set[Node]]:
        reach = self.reachable()
        nodes = [n for n in self.nodes if n in reach]
        dom = {n: set(nodes) for n in nodes}
        dom[self.entry] = {self.entry}
        changed = True
        while changed:
            changed = False
            for n in nodes:
                if n is self.entry:
                    continue
                ps = [p for p, _ in n.pred if p in reach]
                new = set(nodes)
                for p in ps:
                    new &= dom[p]
                new = new | {n}
                if new != dom[n]:
                    dom[n] = new
                    changed = True
        return dom

    def post_dominators(self, include_raise_exit=True) -> Dict[Node, Set[Node]]:
        """Post-dominators w.r.t. a virtual sink joining exit (and raise_exit)."""
        reach = self.reachable()
        nodes = [n for n in self.nodes if n in reach]
        sinks = [self.exit] + ([self.raise_exit] if include_raise_exit else [])
        pdom = {n: set(nodes) for n in nodes}
        for s in sinks:
            if s in pdom:
                pdom[s] = {s}
        changed = True
        while changed:
            changed = False
            for n in nodes:
                if n in sinks:
                    continue
                ss = [s for s, lab in n.succ if s in reach and (include_raise_exit or not self._only_to_raise(s))]
                if not include_raise_exit:
                    ss = [s for s in ss if s is not self.raise_exit]
                if not ss:
                    new = {n}
                else:
                    new = None
                    for s in ss:
                        new = set(pdom[s]) if new is None else (new & pdom[s])
                    new = new | {n}
                if new != pdom[n]:
                    pdom[n] = new
                    changed = True
        return pdom

    def _only_to_raise(self, n):
        return n is self.raise_exit

    def must_pass(self, required: Set[Node], start: Optional[Node] = None, sinks: Optional[Set[Node]] = None, avoid_edges: Callable = None) -> Optional[List[Node]]:
        """Return None if every path from start to any sink passes a node in `required`;
        otherwise a witness path (list of nodes) that avoids them."""
        start = start or self.entry
        sinks = sinks or {self.exit, self.raise_exit}
        if start in required:
            return None
        prev = {start: None}
        stack = [start]
        while stack:
            n = stack.pop()
            if n in sinks:
                path = []
                cur = n
                while cur is not None:
                    path.append(cur)
                    cur = prev[cur]
                return list(reversed(path))
            for s, lab in n.succ:
                if s in required or s in prev:
                    continue
                if avoid_edges is not None and avoid_edges(n, s, lab):
                    continue
                prev[s] = n
                stack.append(s)
        return None

    def paths(self, start: Node, stops: Set[Node], max_visits=2, limit=20000):
        """Enumerate paths from start until a stop node (inclusive); each node visited at most max_visits times."""
        out = []
        stack = [(start, [start], {start: 1})]
        while stack:
            n, path, cnt = stack.pop()
            if n in stops and len(path) > 1:
                out.append(path)
                if len(out) > limit:
                    raise RuntimeError("path explosion")
                continue
            if not n.succ:
                out.append(path)
                continue
            for s, lab in n.succ:
                c = cnt.get(s, 0)
                if c >= max_visits:
                    continue
                c2 = dict(cnt)
                c2[s] = c + 1
                stack.append((s, path + [s], c2))
        return out

    def branch_dominates(self, test: Node, branch, target: Node) -> bool:
        """True iff every path entry -> target passes the edge (test --branch-->)."""
        # remove that edge and see whether target stays reachable
        seen = {self.entry}
        stack = [self.entry]
        while stack:
            n = stack.pop()
            if n is target:
                return False
            for s, lab in n.succ:
                if n is test and lab == branch:
                    continue
                if s not in seen:
                    seen.add(s)
                    stack.append(s)
        return target in self.reachable()

    def dump(self):
        lines = []
        for n in self.nodes:
            lines.append(f"{n!r} -> " + ", ".join(f"{s!r}[{lab}]" for s, lab in n.succ))
        return "\n".join(lines)
