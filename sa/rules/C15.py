"""C15 -- Connection-path strings parse to the documented route."""
from __future__ import annotations

import ast

from ..astutil import attr_path, call_name, walk, src
from ..cfg import exc_name
from ..consteval import Instance, UNKNOWN
from ..framework import rule
from ..guards import branch_outcome, in_try_with_handler
from ..linexpr import atom_name, cmp_norm
from ..wrap import WrapSpec, wrap_problems
from .common import CD, DT, LX, SLC, ckey

P = "C15"
EXPLANATION = (
    "Static rules D15.1-D15.6 (DESIGN.md section 5, C15): dataflow of the separator normalisation before the split, host/port "
    "split and the TCP port range guard in parse_connection_path; the odd-segment-count test dominating the port/link pairing and "
    "the auto-slot shortcuts in parse_cip_route; T-WRAP exception discipline of both parsers (RequestError passes, everything else "
    "becomes RequestError); the port-name table against spec/ports.json (aliases equal); validation of names and links at encode "
    "time (subscript lookup -> KeyError inside the DataError wrapper, USINT range, ipaddress); the per-driver shortcut flags and "
    "their wiring into the parser. Decides the guards and tables; does not decide string-level language inclusion for every input."
)
ASSUMPTIONS = ["str.replace/split/isdigit/int behave as documented"]


@rule(P, "D15.1", "T-WITNESS", floor=20)
def d15_1(ctx):
    """Separators `\\` and `,` are normalised to `/` before splitting; host:port split; TCP port range; the rest of the path and the
    auto-slot flag go to the route parser, whose shortcuts apply only when asked for.  Decided by folding parse_connection_path on
    22 witness path strings (D15.12) and parse_cip_route on 17 (D15.11); an earlier form traced the `replace` / `split` calls and the
    port comparison through the function's locals."""
    from .driver import _conn_path_rule, _route_rule

    _conn_path_rule(ctx)
    _route_rule(ctx)


def _d15_2_shortcuts(ctx):
    """Shortcuts, pairing and freshness decided on witnesses: the function is folded on route lists / strings with and without
    the auto-slot flag; a result that is a module-level list would be shared between calls."""
    from ..miniinterp import run_function

    fn = ctx.model.func(f"{CD}:parse_cip_route")
    f = fn.node
    pathp, autop = f.args.args[0].arg, f.args.args[1].arg
    witnesses = [
        (([], True), [("bp", 0)]), (([], False), []), ((["3"], True), [("bp", "3")]), ((["3"], False), "RequestError"),
        ((["bp", "1"], True), [("bp", "1")]), ((["bp", "1"], False), [("bp", "1")]), ((["1", "2"], False), [(1, "2")]),
        ((["backplane", "1", "enet", "10.0.0.2"], False), [("backplane", "1"), ("enet", "10.0.0.2")]), ((["a", "b", "c"], True), "RequestError"),
        (("bp/1", False), [("bp", "1")]), (("bp\\1/2\\3", True), [("bp", "1"), (2, "3")]),
    ]
    mutable_consts = [v for v in (ctx.folder.module_value(fn.module.name, nm) for nm in list(fn.module.symbols)) if isinstance(v, (list, dict, set))]
    bad, und, shared = [], None, []
    for (path_w, auto_w), want in witnesses:
        kind, res = run_function(ctx, fn.module, f, {pathp: path_w, autop: auto_w})
        if kind == "unknown":
            und = f"({path_w!r}, {auto_w}): {res}"
            break
        if kind == "raise":
            got = res
        else:
            if any(res is m_ for m_ in mutable_consts):
                shared.append(f"({path_w!r}, {auto_w})")
            got = [(x.args[0], x.args[1]) if isinstance(x, Instance) and x.ci.name == "PortSegment" and len(x.args) >= 2 else x for x in res] if isinstance(res, (list, tuple)) else res
        if got != want:
            bad.append(f"parse_cip_route({path_w!r}, auto_slot={auto_w}) -> {got!r}, expected {want!r}")
    key = ckey(fn, "shortcuts")
    if und is not None:
        ctx.undecided(key, f, f"parse_cip_route is not foldable on witness {und}")
    else:
        ctx.check(not bad and not shared, key, f, f"no segments -> bp/0 and one segment -> bp/<segment> with auto slot only; pairs otherwise; odd counts refused ({len(witnesses)} witnesses); results are fresh lists",
                  (f"route parsing deviates: {bad[:2]}" if bad else f"the route returned for {shared} is a module-level list shared between calls: a caller that edits its route (the Micro800 driver pops the slot) changes the route of every later bare-address path"), witnesses=len(witnesses))


@rule(P, "D15.2", "T-WITNESS", floor=3)
def d15_2(ctx):
    """Routes are consecutive (port, link) pairs from the first element; an odd element count is RequestError; digits become port
    numbers; the auto-slot shortcuts apply only when asked; every call returns a fresh list.  Decided by folding
    `parse_cip_route` on witness routes (D15.11) and, for the default route of a bare address, the freshness witnesses below."""
    from .driver import _route_rule

    _route_rule(ctx)
    _d15_2_shortcuts(ctx)


def _in_shortcut(stmt):
    return isinstance(stmt, ast.Assign) and isinstance(stmt.value, (ast.IfExp, ast.List)) and not any(isinstance(x, ast.ListComp) for x in walk(stmt))


@rule(P, "D15.3", "T-WRAP", floor=2)
def d15_3(ctx):
    """Both parsers: RequestError passes through, everything else becomes RequestError."""
    spec = WrapSpec(mode="raise", allowed_raise={"RequestError"}, passthrough={"RequestError"})
    for name in ("parse_connection_path", "parse_cip_route"):
        fn = ctx.model.func(f"{CD}:{name}")
        probs = wrap_problems(fn.node, spec)
        # explicit raises inside the try must be RequestError too
        inner = [r for r in walk(fn.node) if isinstance(r, ast.Raise) and r.exc is not None and exc_name(r.exc) != "RequestError"]
        if probs or inner:
            node, why = (probs[0] if probs else (inner[0], f"raises {exc_name(inner[0].exc)}"))
            ctx.violation(ckey(fn, "wrap"), node, why, statements=[src(n).splitlines()[0][:70] for n, _ in probs[:6]])
        else:
            ctx.ok(ckey(fn, "wrap"), fn.node, "only RequestError can leave the parser")


@rule(P, "D15.4", "T-SPEC", floor=3)
def d15_4(ctx):
    """Port-name table: documented names and aliases."""
    sp = ctx.spec("ports")
    ps = ctx.model.cls(f"{DT}:PortSegment")
    tbl = ctx.folder.class_attr(ps, "port_segments")
    node = ps.attr_nodes.get("port_segments", ps.node)
    if not isinstance(tbl, dict):
        ctx.undecided(ckey(ps.key, "port_segments"), node, "table does not fold")
        return
    for k, v in sp["pinned"].items():
        ctx.check(tbl.get(k) == v, ckey(ps.key, f"port_segments[{k}]"), node, f"{k} = port {v}", f"port name {k!r} maps to {tbl.get(k)!r}; the documented port is {v}", got=tbl.get(k))
    for a, b in sp["aliases_equal"]:
        ctx.check(a in tbl and tbl.get(a) == tbl.get(b), ckey(ps.key, f"alias:{a}={b}"), node, f"{a} and {b} are the same port", f"aliases {a}/{b} map to different ports ({tbl.get(a)!r} vs {tbl.get(b)!r}): spellings of one route give different bytes")
    bad = {k: v for k, v in tbl.items() if not (isinstance(v, int) and 0 < v < 15) or k != k.lower()}
    ctx.check(not bad, ckey(ps.key, "port_segments#range"), node, "all named ports fit the 4-bit port field and are lower-case", f"port table entries outside 1..14 / not lower-case: {bad}")


@rule(P, "D15.5", "T-WITNESS", floor=3)
def d15_5(ctx):
    """Unknown port names, port numbers outside 1..14, links that are neither one byte nor an IP address are rejected when the
    route is encoded.  Decided by folding `PortSegment._encode` on witness segments (D15.10)."""
    from .driver import _segment_rule

    _segment_rule(ctx)


@rule(P, "D15.6", "T-SPEC", floor=4)
def d15_6(ctx):
    """Shortcut flags per driver and their wiring into the parser."""
    want = {f"{CD}:CIPDriver": False, f"{LX}:LogixDriver": True, f"{SLC}:SLCDriver": True}
    for k, w in want.items():
        c = ctx.model.cls(k)
        v = ctx.folder.class_attr(c, "_auto_slot_cip_path")
        ctx.check(v is w, ckey(c.key, "_auto_slot_cip_path"), c.attr_nodes.get("_auto_slot_cip_path", c.node), f"{c.name}._auto_slot_cip_path = {w}", f"{c.name}._auto_slot_cip_path is {v!r}; documented behaviour is {w}", got=v)
    # the constructor parses the path with the driver's own shortcut flag and stores host, port (default 44818) and route from the
    # parser's result: folded on witness parser results (an earlier form compared the names of the unpacked locals)
    from ..miniinterp import Obj, run_function

    drv = ctx.model.cls(f"{CD}:CIPDriver")
    init = drv.methods["__init__"]
    for label, port, want_port in (("no port in the path", None, 44818), ("port 5000 in the path", 5000, 5000), ("port 44818 in the path", 44818, 44818)):
        seen = []

        def hook(call, env, it, seen=seen, port=port):
            n = call_name(call) or ""
            if n == "parse_connection_path" and isinstance(call.func, ast.Name):
                seen.append(tuple(it.ev(a, env) for a in call.args) + tuple(sorted((k.arg, it.ev(k.value, env)) for k in call.keywords)))
                return ("10.1.2.3", port, ["<segment>"])
            if n == "cycle":
                return Obj(kind="sequence")
            return UNKNOWN

        me = Obj(_ci=drv, _auto_slot_cip_path="<flag>")
        env = {"self": me, init.args.args[1].arg: "10.1.2.3/bp/1"}
        if init.args.vararg:
            env[init.args.vararg.arg] = ()
        if init.args.kwarg:
            env[init.args.kwarg.arg] = {}
        kind, res = run_function(ctx, drv.module, init, env, call_hook=hook, deep=False)
        key = ckey(drv.key + ".__init__", f"cfg:{label}")
        if kind == "unknown":
            ctx.undecided(key, init, f"CIPDriver.__init__ not foldable ({label}): {res}")
            continue
        cfg = me.__dict__.get("_cfg") if isinstance(me.__dict__.get("_cfg"), dict) else {}
        called = seen == [("10.1.2.3/bp/1", "<flag>")] or seen == [("10.1.2.3/bp/1", ("auto_slot", "<flag>"))]
        good = kind == "return" and called and cfg.get("ip address") == "10.1.2.3" and cfg.get("port") == want_port and cfg.get("cip_path") == ["<segment>"]
        ctx.check(good, key, init, f"{label}: parser called with the path and the driver's flag; host, port {want_port} and route stored",
                  f"CIPDriver.__init__ ({label}): parser calls {seen!r}; stored host {cfg.get('ip address')!r}, port {cfg.get('port')!r}, route {cfg.get('cip_path')!r}; expected the parser's host, port {want_port} and route", witness=label)


# "yields the stated route": the route bytes are what PortSegment._encode emits for the parsed (port, link) pairs - the
# port-segment obligations of C09 (layout, pad parity) are obligations of this property too
from .C09 import d9_3 as _d9_3, d9_6 as _d9_6  # noqa: E402

rule(P, "D15.8", "T-LAYOUT", floor=3)(_d9_6)
rule(P, "D15.9", "T-PARITY", floor=5)(_d9_3)
