"""Driver orchestration witnesses: LogixDriver methods that only route, merge and relabel are folded on witness inputs with
every callee replaced by a marker that records its arguments (sa/miniinterp.py).  What is decided is the method's own logic:
which branch a request takes, which ids results are filed under, what the user-facing Tag carries.  Packet frames, codecs and
tag parsing have their own rules; here they are witnesses."""
from __future__ import annotations

import ast

from ..astutil import attr_path, call_name
from ..consteval import UNKNOWN
from ..framework import rule
from ..miniinterp import PyFunc, Obj, _Raise, run_function
from .common import LX, ckey

PACKETS = ("ReadTagRequestPacket", "ReadTagFragmentedRequestPacket", "WriteTagRequestPacket", "WriteTagFragmentedRequestPacket", "ReadModifyWriteRequestPacket", "MultiServiceRequestPacket")


_LX_CI = [None]


def _lx(ctx):
    _LX_CI[0] = ctx.model.cls(f"{LX}:LogixDriver")
    return _LX_CI[0]


def _me(**kw):
    """A witness driver instance: carries its class, so a private helper method the rule does not know (an extracted
    method) is folded through the MRO instead of stopping the fold."""
    return Obj(_ci=_LX_CI[0], **kw)


def tag_witness(tag, value, type_=None, error=None):
    return Obj(kind="Tag", tag=tag, value=value, type=type_, error=error, _truth=value is not None and error is None)


def tag_tuple(o):
    if isinstance(o, Obj) and o.__dict__.get("kind") == "Tag":
        return (o.tag, o.value, o.type, o.error)
    return o


def tag_hook(call, env, it):
    if (call_name(call) or "") == "Tag" and not isinstance(call.func, ast.Attribute):
        a = [it.ev(x, env) for x in call.args]
        kw = {k.arg: it.ev(k.value, env) for k in call.keywords}
        names = ["tag", "value", "type", "error"]
        for n_, v in zip(names, a):
            kw[n_] = v
        return tag_witness(kw.get("tag"), kw.get("value"), kw.get("type"), kw.get("error"))
    return UNKNOWN


def chain(*hooks):
    def hook(call, env, it):
        for h in hooks:
            r = h(call, env, it)
            if r is not UNKNOWN:
                return r
        return UNKNOWN

    return hook


def self_call(name, fn):
    """hook for `self.<name>(...)`: fn(args, kwargs) -> value."""

    def hook(call, env, it):
        if attr_path(call.func) == f"self.{name}":
            args = [it.ev(a, env) for a in call.args]
            kwargs = {k.arg: it.ev(k.value, env) for k in call.keywords}
            return fn(args, kwargs)
        return UNKNOWN

    return hook


DINT = {"data_type_name": "DINT", "tag_type": "atomic", "data_type": "DINT"}
DWORD = {"data_type_name": "DWORD", "tag_type": "atomic", "data_type": "DWORD"}


def _parsed(i, user_tag, plc_tag=None, bit=None, bool_elements=None, info=DINT, elements=1, error=None, **kw):
    d = {"request_id": i, "request_tag": user_tag, "user_tag": user_tag, "plc_tag": plc_tag or user_tag, "bit": bit, "bool_elements": bool_elements, "tag_info": info, "elements": elements}
    if error is not None:
        d = {"request_id": i, "request_tag": user_tag, "error": error}
    d.update(kw)
    return d


def _report(ctx, key, node, label, got, want, what):
    kind, res = got
    if kind == "unknown":
        ctx.undecided(key, node, f"{what} not foldable on {label}: {res}")
        return
    ctx.check((kind, res) == want, key, node, f"{label}: {want[1]!r}"[:300], f"{what} on {label} gives {kind} {res!r}; expected {want[0]} {want[1]!r}"[:900], witness=label)


@rule("C01", "D1.14", "T-WITNESS", floor=8)
def d1_14(ctx):
    """LogixDriver.read folded on witness requests (parsing, request building and sending are markers): a request that failed
    to parse yields a falsy Tag with its error and the user's tag name; a bit of an integer is `value & (1 << bit)` as BOOL; a
    BOOL-array element / slice is taken from the 32-bit words at the bit offset, typed BOOL / BOOL[n]; a failed reply keeps
    the user's tag name and the reply's error; one tag gives a Tag, several a list in request order."""
    lx = _lx(ctx)
    fn = lx.methods["read"]
    bits32 = [i in (3, 4, 33) for i in range(64)]

    def run(label, parsed, results, want):
        tags = tuple(p["request_tag"] for p in parsed.values())
        sent = []
        hook = chain(tag_hook, self_call("_parse_requested_tags", lambda a, k: {i: dict(p) for i, p in parsed.items()} if (list(a[0]), a[1] if len(a) > 1 else k.get("rw")) == (list(tags), "r") else UNKNOWN),
                     self_call("_read_build_requests", lambda a, k: ("requests", sorted(a[0]))), self_call("_send_requests", lambda a, k: sent.append(a[0]) or dict(results)))
        kind, res = run_function(ctx, lx.module, fn, {"self": _me(), fn.args.vararg.arg: tags}, call_hook=hook, deep=False)
        if kind == "return":
            res = [tag_tuple(x) for x in res] if isinstance(res, list) else tag_tuple(res)
        _report(ctx, ckey(lx.key + ".read", f"witness:{label}"), fn, label, (kind, res), ("return", want), "read")
        if kind == "return" and sent != [("requests", sorted(parsed))]:
            ctx.violation(ckey(lx.key + ".read", f"witness:{label}:sent"), fn, f"read does not send the requests built from the parsed tags exactly once: {sent!r}")

    T = tag_witness
    run("plain tag", {0: _parsed(0, "dint")}, {0: T("dint", 77, "DINT")}, ("dint", 77, "DINT", None))
    run("bit 3 of an integer (set)", {0: _parsed(0, "dint.3", "dint", bit=3)}, {0: T("dint", 0b1000, "DINT")}, ("dint.3", True, "BOOL", None))
    run("bit 3 of an integer (clear)", {0: _parsed(0, "dint.3", "dint", bit=3)}, {0: T("dint", 0b10111, "DINT")}, ("dint.3", False, "BOOL", None))
    run("bit 0 of an integer", {0: _parsed(0, "dint.0", "dint", bit=0)}, {0: T("dint", 1, "DINT")}, ("dint.0", True, "BOOL", None))
    run("BOOL array element 3", {0: _parsed(0, "flags[3]", "flags[0]", bit=3, info=DWORD)}, {0: T("flags[0]", bits32[:32], "DWORD")}, ("flags[3]", True, "BOOL", None))
    run("BOOL array element 5 (clear)", {0: _parsed(0, "flags[5]", "flags[0]", bit=5, info=DWORD)}, {0: T("flags[0]", bits32[:32], "DWORD")}, ("flags[5]", False, "BOOL", None))
    run("BOOL array slice [2]{5}", {0: _parsed(0, "flags[2]{5}", "flags[0]", bit=2, bool_elements=5, info=DWORD, elements=1)}, {0: T("flags[0]", bits32[:32], "DWORD")}, ("flags[2]{5}", bits32[2:7], "BOOL[5]", None))
    run("BOOL array {64} without index", {0: _parsed(0, "flags{64}", "flags", bit=None, bool_elements=64, info=DWORD, elements=2)}, {0: T("flags", bits32, "DWORD[2]")}, ("flags{64}", bits32, "BOOL[64]", None))
    run("request that failed to parse", {0: _parsed(0, "no_such", error="Tag doesn't exist - no_such")}, {}, ("no_such", None, None, "Tag doesn't exist - no_such"))
    run("failed reply for a bit request", {0: _parsed(0, "dint.3", "dint", bit=3)}, {0: T("dint", None, None, "Path destination unknown")}, ("dint.3", None, None, "Path destination unknown"))
    run("failed reply for a BOOL array element", {0: _parsed(0, "flags[3]", "flags[0]", bit=3, info=DWORD)}, {0: T("flags[0]", None, None, "Path segment error")}, ("flags[3]", None, None, "Path segment error"))
    run("several tags, in request order, failures isolated",
        {0: _parsed(0, "a"), 1: _parsed(1, "bad", error="Tag doesn't exist - bad"), 2: _parsed(2, "b.1", "b", bit=1), 3: _parsed(3, "c")},
        {0: T("a", 1, "DINT"), 2: T("b", 2, "DINT"), 3: T("c", None, None, "Privilege violation")},
        [("a", 1, "DINT", None), ("bad", None, None, "Tag doesn't exist - bad"), ("b.1", True, "BOOL", None), ("c", None, None, "Privilege violation")])
    # a result that is missing altogether is reported against the user's tag, not raised
    tags = ("lost",)
    hook = chain(tag_hook, self_call("_parse_requested_tags", lambda a, k: {0: _parsed(0, "lost")}), self_call("_read_build_requests", lambda a, k: []), self_call("_send_requests", lambda a, k: {}))
    kind, res = run_function(ctx, lx.module, fn, {"self": _me(), fn.args.vararg.arg: tags}, call_hook=hook, deep=False)
    key = ckey(lx.key + ".read", "witness:missing result")
    if kind == "unknown":
        ctx.undecided(key, fn, f"read not foldable on a missing result: {res}")
    else:
        t = tag_tuple(res) if kind == "return" else None
        ctx.check(kind == "return" and isinstance(t, tuple) and t[0] == "lost" and t[1] is None and isinstance(t[3], str) and t[3].startswith("Invalid tag request"), key, fn,
                  "a missing result becomes a falsy Tag for the user's tag", f"read with no result for the request gives {kind} {t if t is not None else res!r}")


@rule("C03", "D3.11", "T-WITNESS", floor=8)
def d3_11(ctx):
    """LogixDriver.write folded on witness requests: write('tag', value) and write(('tag', value), ...) are the same request
    list; each value is attached to its own parsed request; the result of a merged read-modify-write is filed under every
    bit request it carries; the user-facing Tag has the user's tag name, the value given, the type BOOL / BOOL[n] / T[n] / T and
    the reply's error; parse failures and missing results are falsy Tags of their own request only."""
    lx = _lx(ctx)
    fn = lx.methods["write"]
    rmw_cls = ctx.model.cls("pycomm3.packets.logix:ReadModifyWriteRequestPacket")
    T = tag_witness

    def run(label, args, parsed, requests, results, want):
        seen = {}

        def parse(a, k):
            seen["tags"] = list(a[0])
            seen["rw"] = a[1] if len(a) > 1 else k.get("rw")
            return {i: dict(p) for i, p in parsed.items()}

        def build(a, k):
            seen["values"] = {i: p.get("value", "<none>") for i, p in a[0].items()}
            return list(requests)

        def isinst(call, env, it):
            if (call_name(call) or "") == "isinstance" and len(call.args) == 2 and ast.unparse(call.args[1]).endswith("ReadModifyWriteRequestPacket"):
                v = it.ev(call.args[0], env)
                return isinstance(v, Obj) and v.__dict__.get("kind") == "RMW"
            return UNKNOWN

        hook = chain(tag_hook, isinst, self_call("_parse_requested_tags", parse), self_call("_write_build_requests", build), self_call("_send_requests", lambda a, k: dict(results)))
        kind, res = run_function(ctx, lx.module, fn, {"self": _me(), fn.args.vararg.arg: args}, call_hook=hook, deep=False)
        if kind == "return":
            res = [tag_tuple(x) for x in res] if isinstance(res, list) else tag_tuple(res)
        key = ckey(lx.key + ".write", f"witness:{label}")
        _report(ctx, key, fn, label, (kind, res), ("return", want), "write")
        if kind == "return":
            exp_tags = [p["request_tag"] for p in parsed.values()]
            exp_vals = {i: v for i, v in enumerate(seen.get("_vals", []))}
            if seen.get("tags") != exp_tags or seen.get("rw") != "w":
                ctx.violation(key + ":parsed", fn, f"write({label}) parses {seen.get('tags')!r} with mode {seen.get('rw')!r}; expected {exp_tags!r} in mode 'w'")
        return seen

    rmw = lambda rid, ids: Obj(kind="RMW", request_id=rid, _request_ids=list(ids))  # noqa: E731
    plain = lambda rid: Obj(kind="WT", request_id=rid)  # noqa: E731
    s = run("two-argument form write('d1', 5)", ("d1", 5), {0: _parsed(0, "d1")}, [plain(0)], {0: T("d1", 5, "DINT")}, ("d1", 5, "DINT", None))
    if s.get("values") not in (None, {0: 5}):
        ctx.violation(ckey(lx.key + ".write", "witness:value attached (two-argument form)"), fn, f"the builder sees values {s.get('values')!r}, expected {{0: 5}}")
    s = run("one pair write(('d1', 5))", (("d1", 5),), {0: _parsed(0, "d1")}, [plain(0)], {0: T("d1", 5, "DINT")}, ("d1", 5, "DINT", None))
    s = run("two pairs", (("a", 1), ("b", 2)), {0: _parsed(0, "a"), 1: _parsed(1, "b")}, [plain(0), plain(1)], {0: T("a", 1, "DINT"), 1: T("b", 2, "DINT")}, [("a", 1, "DINT", None), ("b", 2, "DINT", None)])
    if s.get("values") not in (None, {0: 1, 1: 2}):
        ctx.violation(ckey(lx.key + ".write", "witness:value attached (pairs)"), fn, f"the builder sees values {s.get('values')!r}, expected {{0: 1, 1: 2}}")
    run("a pair whose value is a 2-character string is not the two-argument form", (("ab", "cd"), ("e", 1)), {0: _parsed(0, "ab"), 1: _parsed(1, "e")}, [plain(0), plain(1)],
        {0: T("ab", "cd", "STRING"), 1: T("e", 1, "DINT")}, [("ab", "cd", "DINT", None), ("e", 1, "DINT", None)])
    run("array write is typed T[n]", (("arr{3}", [1, 2, 3]),), {0: _parsed(0, "arr{3}", "arr", elements=3)}, [plain(0)], {0: T("arr", [1, 2, 3], "DINT")}, ("arr{3}", [1, 2, 3], "DINT[3]", None))
    run("bit writes merged into one read-modify-write share its result", (("d.0", True), ("x", 9), ("d.5", False)),
        {0: _parsed(0, "d.0", "d", bit=0), 1: _parsed(1, "x"), 2: _parsed(2, "d.5", "d", bit=5)}, [plain(1), rmw(-1, [0, 2])], {1: T("x", 9, "DINT"), -1: T("d", None, "DINT", None)},
        [("d.0", True, "BOOL", None), ("x", 9, "DINT", None), ("d.5", False, "BOOL", None)])
    run("two read-modify-writes keep their results apart", (("d.0", True), ("e.1", True)), {0: _parsed(0, "d.0", "d", bit=0), 1: _parsed(1, "e.1", "e", bit=1)}, [rmw(-1, [0]), rmw(-2, [1])],
        {-1: T("d", None, None, None), -2: T("e", None, None, "Privilege violation")}, [("d.0", True, "BOOL", None), ("e.1", True, "BOOL", "Privilege violation")])
    run("BOOL array slice write is typed BOOL[n]", (("flags[32]{40}", [True] * 40),), {0: _parsed(0, "flags[32]{40}", "flags[1]", bit=0, bool_elements=40, info=DWORD, elements=2)}, [plain(0)],
        {0: T("flags[1]", b"", "DWORD")}, ("flags[32]{40}", [True] * 40, "BOOL[40]", None))
    run("parse failure is reported for its own request only", (("bad", 1), ("ok", 2)), {0: _parsed(0, "bad", error="Tag doesn't exist - bad"), 1: _parsed(1, "ok")}, [plain(1)], {1: T("ok", 2, "DINT")},
        [("bad", None, None, "Tag doesn't exist - bad"), ("ok", 2, "DINT", None)])
    run("failed reply keeps the user's tag and value with the reply's error", (("d1", 5),), {0: _parsed(0, "d1")}, [plain(0)], {0: T("d1", None, None, "Privilege violation")}, ("d1", 5, "DINT", "Privilege violation"))
    # missing result -> falsy Tag, not an exception
    hook = chain(tag_hook, self_call("_parse_requested_tags", lambda a, k: {0: _parsed(0, "lost")}), self_call("_write_build_requests", lambda a, k: []), self_call("_send_requests", lambda a, k: {}))
    kind, res = run_function(ctx, lx.module, fn, {"self": _me(), fn.args.vararg.arg: (("lost", 1),)}, call_hook=hook, deep=False)
    key = ckey(lx.key + ".write", "witness:missing result")
    if kind == "unknown":
        ctx.undecided(key, fn, f"write not foldable on a missing result: {res}")
    else:
        t = tag_tuple(res) if kind == "return" else None
        ctx.check(kind == "return" and isinstance(t, tuple) and t[0] == "lost" and t[1] is None and isinstance(t[3], str) and t[3].startswith("Invalid tag request"), key, fn,
                  "a missing result becomes a falsy Tag for the user's tag", f"write with no result for the request gives {kind} {t if t is not None else res!r}")


# ---------------------------------------------------------------------------------------------------------------- builders
def packet_markers(log, sizes=None, refuse=()):
    """Hook: packet constructors / from_request / set_bit / build_message become markers.  `sizes`: plc tag -> message length;
    `refuse`: plc tags whose WriteTag constructor raises RequestError; set_bit refuses bits >= 32."""
    sizes = sizes or {}

    def hook(call, env, it):
        n = call_name(call) or ""
        f = call.func
        if n in PACKETS and isinstance(f, ast.Name):
            a = [it.ev(x, env) for x in call.args]
            if n == "MultiServiceRequestPacket":
                o = Obj(kind="Multi", seq=a[0], requests=list(a[1]), type_="multi")
            elif n == "ReadModifyWriteRequestPacket":
                o = Obj(kind="RMW", seq=a[0], tag=a[1], tag_info=a[2], request_id=a[3], use_instance=a[4] if len(a) > 4 else "<default>", bits=[], _request_ids=[], type_="write", message=b"", error=None)
                if a[1] in refuse:
                    raise _Raise("RequestError")
            else:
                o = Obj(kind={"ReadTagRequestPacket": "RT", "ReadTagFragmentedRequestPacket": "RTF", "WriteTagRequestPacket": "WT", "WriteTagFragmentedRequestPacket": "WTF"}[n], seq=a[0], tag=a[1], elements=a[2], tag_info=a[3], request_id=a[4],
                        use_instance=a[5] if len(a) > 5 else "<default>", value=a[6] if len(a) > 6 else None, message=b"", built=False, error=None, type_="read" if n.startswith("Read") else "write")
                if n.startswith("Write") and a[1] in refuse:
                    raise _Raise("RequestError")
            log.append(("new", o.kind, getattr(o, "tag", None)))
            return o
        if isinstance(f, ast.Attribute) and f.attr == "from_request" and ast.unparse(f.value) in PACKETS:
            a = [it.ev(x, env) for x in call.args]
            src_ = a[1]
            o = Obj(kind="RTF" if ast.unparse(f.value).startswith("Read") else "WTF", seq=a[0], tag=src_.tag, elements=src_.elements, tag_info=src_.tag_info, request_id=src_.request_id, origin=src_, extra=tuple(a[2:]), message=src_.message, error=None,
                    type_=src_.type_, value=getattr(src_, "value", None))
            log.append(("from_request", o.kind, src_.tag))
            return o
        if isinstance(f, ast.Attribute) and f.attr == "tag_only_message" and isinstance(f.value, ast.Name) and isinstance(env.get(f.value.id), Obj) and "kind" in env[f.value.id].__dict__:
            # the message without its 2-byte sequence count
            return bytes(max(sizes.get(env[f.value.id].tag, 20) - 2, 0))
        if isinstance(f, ast.Attribute) and f.attr in ("set_bit", "build_message") and isinstance(f.value, ast.Name) and isinstance(env.get(f.value.id), Obj) and "kind" in env[f.value.id].__dict__:
            o = env[f.value.id]
            if f.attr == "build_message":
                o.built = True
                o.message = bytes(sizes.get(o.tag, 20))
                return o.message
            a = [it.ev(x, env) for x in call.args]
            if not (isinstance(a[0], int) and 0 <= a[0] < 32):
                raise _Raise("RequestError")
            o.bits.append((a[0], a[1]))
            o._request_ids.append(a[2])
            return None
        return UNKNOWN

    return hook


def describe(o):
    if isinstance(o, Obj):
        d = o.__dict__
        k = d.get("kind")
        if k == "Multi":
            return ("Multi", d["seq"], [describe(r) for r in d["requests"]])
        if k == "RMW":
            return ("RMW", d["seq"], d["tag"], d["request_id"], d["use_instance"], list(d["bits"]), list(d["_request_ids"]))
        if k in ("RTF", "WTF") and "origin" in d:
            return (k, "from", describe(d["origin"]), d["seq"], d["extra"])
        if k in ("RT", "WT", "RTF", "WTF"):
            return (k, d["seq"], d["tag"], d["elements"], d["request_id"], d["use_instance"], d["value"], d["built"])
    if isinstance(o, list):
        return [describe(x) for x in o]
    return o


def _sent_canon(desc):
    """What a described request list sends, whatever the packets' order and however the members are shared out between Multiple Service
    packets (which the property does not fix): (sorted members of all multi-service packets, sorted other requests)."""
    if not isinstance(desc, list):
        return desc
    members, others = [], []
    for d in desc:
        if isinstance(d, tuple) and d and d[0] == "Multi" and isinstance(d[2], list) and d[2]:
            members.extend(repr(m) for m in d[2])
        else:
            others.append(repr(d))
    return (sorted(members), sorted(others))


def _driver(**kw):
    base = dict(_sequence="SEQ", _cfg={"use_instance_ids": "UID"}, connection_size=500, _micro800=False)
    base.update(kw)
    return _me(**base)


def _wparsed(i, user_tag, plc_tag=None, value=1, **kw):
    p = _parsed(i, user_tag, plc_tag, **kw)
    if "error" not in p:
        p["value"] = value
    return p


@rule("C02", "D2.12", "T-WITNESS", floor=8)
def d2_12(ctx):
    """The write-request builders folded on witness requests (packet classes and the value encoder are markers): a bit of an
    integer becomes a read-modify-write carrying exactly that bit, value and request id (several bits of one tag share one
    packet, different tags get different negative ids that collide with no request id); everything else is encoded once and
    becomes a Write Tag with the tag's plc name, element count, tag info, request id and instance-id setting; what does not fit
    the connection is converted to the fragmented service; a request that cannot be built is marked with its error and
    produces no packet; one request / Micro800 use the single-request path, several requests the multi-service path."""
    lx = _lx(ctx)
    enc = lambda call, env, it: (b"<" + it.ev(call.args[0], env)["plc_tag"].encode() + b">" if it.ev(call.args[0], env)["plc_tag"] != "unencodable" else (_ for _ in ()).throw(_Raise("ValueError"))) if (call_name(call) or "") == "encode_value" else UNKNOWN  # noqa: E731

    # --- single-request path
    fn = lx.methods["_write_build_single_request"]
    cases = [
        ("plain value", _wparsed(4, "d1", value=5), ("WT", "SEQ", "d1", 1, 4, "UID", b"<d1>", True), None),
        ("array value", _wparsed(4, "arr{3}", "arr", value=[1, 2, 3], elements=3), ("WT", "SEQ", "arr", 3, 4, "UID", b"<arr>", True), None),
        ("bit of an integer", _wparsed(4, "d1.3", "d1", value=True, bit=3), ("RMW", "SEQ", "d1", -1, "UID", [(3, True)], [4]), None),
        ("bit 0 cleared", _wparsed(2, "d1.0", "d1", value=False, bit=0), ("RMW", "SEQ", "d1", -1, "UID", [(0, False)], [2]), None),
        ("BOOL array slice is an ordinary write", _wparsed(4, "f[32]{40}", "f[1]", value=[True] * 40, bit=0, bool_elements=40, info=DWORD, elements=2), ("WT", "SEQ", "f[1]", 2, 4, "UID", b"<f[1]>", True), None),
        ("value too large for the connection", _wparsed(4, "big{400}", "big", value=[0] * 400, elements=400), ("WTF", "from", ("WT", "SEQ", "big", 400, 4, "UID", b"<big>", True), "SEQ", ()), None),
        ("message + value exactly the connection size", _wparsed(4, "fit", value=1), ("WT", "SEQ", "fit", 1, 4, "UID", b"<fit>", True), None),
        ("message one byte over the connection size", _wparsed(4, "over", value=1), ("WTF", "from", ("WT", "SEQ", "over", 1, 4, "UID", b"<over>", True), "SEQ", ()), None),
        ("message two bytes over the connection size", _wparsed(4, "ovr2", value=1), ("WTF", "from", ("WT", "SEQ", "ovr2", 1, 4, "UID", b"<ovr2>", True), "SEQ", ()), None),
        ("message fits, message + value would not (either form is within the connection size)", _wparsed(4, "zone", value=1), "either", None),
        ("request that failed to parse", _wparsed(4, "bad", error="Tag doesn't exist - bad"), None, "Tag doesn't exist - bad"),
        ("bit outside the type", _wparsed(4, "d1.40", "d1", value=True, bit=40), None, "Invalid Tag Request"),
        ("type the Write Tag service refuses", _wparsed(4, "odd", value=1), None, "Invalid Tag Request"),
    ]
    for label, parsed, want, err in cases:
        log = []
        p = dict(parsed)
        kind, res = run_function(ctx, lx.module, fn, {"self": _driver(), fn.args.args[1].arg: p}, call_hook=chain(enc, packet_markers(log, sizes={"big": 600, "fit": 495, "over": 501, "ovr2": 502, "zone": 498}, refuse=("odd",))), deep=False)
        key = ckey(lx.key + "._write_build_single_request", f"witness:{label}")
        if kind == "unknown":
            ctx.undecided(key, fn, f"_write_build_single_request not foldable on {label}: {res}")
            continue
        got = describe(res) if kind == "return" else res
        if want == "either":
            plain = ("WT", "SEQ", "zone", 1, 4, "UID", b"<zone>", True)
            want = got if got in (plain, ("WTF", "from", plain, "SEQ", ())) else plain
        ok = kind == "return" and got == want and (err is None and not p.get("error") or err is not None and str(p.get("error", "")).startswith(err))
        ctx.check(ok, key, fn, f"{label}: {want!r}" + (f", error {err!r}" if err else ""), f"single-request builder on {label} gives {kind} {got!r} with error {p.get('error')!r}; expected {want!r}" + (f" and an error starting {err!r}" if err else " and no error"), witness=label)

    # --- multi-service path
    fn = lx.methods["_write_build_multi_requests"]
    parsed = {
        0: _wparsed(0, "d1", value=5), 1: _wparsed(1, "d2.0", "d2", value=True, bit=0), 2: _wparsed(2, "x", value=7), 3: _wparsed(3, "d2.5", "d2", value=False, bit=5), 4: _wparsed(4, "d3.1", "d3", value=True, bit=1),
        5: _wparsed(5, "big{400}", "big", value=[0] * 400, elements=400), 6: _wparsed(6, "bad", error="Tag doesn't exist - bad"), 7: _wparsed(7, "unencodable", value=object), 8: _wparsed(8, "odd", value=1),
        9: _wparsed(9, "d4.40", "d4", value=True, bit=40), 10: _wparsed(10, "f[32]{40}", "f[1]", value=[True] * 40, bit=0, bool_elements=40, info=DWORD, elements=2),
    }
    log = []
    kind, res = run_function(ctx, lx.module, fn, {"self": _driver(), fn.args.args[1].arg: parsed}, call_hook=chain(enc, packet_markers(log, sizes={"big": 600}, refuse=("odd",))), deep=False)
    key = ckey(lx.key + "._write_build_multi_requests", "witness:mixed requests")
    if kind == "unknown":
        ctx.undecided(key, fn, f"_write_build_multi_requests not foldable: {res}")
    else:
        wt = lambda tag, n, rid: ("WT", "SEQ", tag, n, rid, "UID", b"<" + tag.encode() + b">", True)  # noqa: E731
        want = [("Multi", "SEQ", [wt("d1", 1, 0), wt("x", 1, 2), wt("f[1]", 2, 10)]), ("WTF", "from", wt("big", 400, 5), "SEQ", ()),
                ("RMW", "SEQ", "d2", -1, "UID", [(0, True), (5, False)], [1, 3]), ("RMW", "SEQ", "d3", -2, "UID", [(1, True)], [4])]
        got = describe(res) if kind == "return" else res
        errs = {i: str(p.get("error", ""))[:19] for i, p in parsed.items() if p.get("error")}
        want_errs = {6: "Tag doesn't exist -", 7: "Error encoding valu", 8: "Invalid Tag Request", 9: "Invalid Tag Request"}
        ctx.check(kind == "return" and _sent_canon(got) == _sent_canon(want) and errs == want_errs, key, fn, "plain writes sent as members of multi-service packets, the oversized one fragmented, bits of d2 merged (id -1), d3 separate (id -2), four requests refused with their own error",
                  f"multi-request builder gives {kind} {got!r} with errors {errs!r}; expected {want!r} with errors {want_errs!r}")
    # grouping by connection size
    parsed = {i: _wparsed(i, f"t{i}", value=i) for i in range(4)}
    log = []
    kind, res = run_function(ctx, lx.module, fn, {"self": _driver(connection_size=500), fn.args.args[1].arg: parsed}, call_hook=chain(enc, packet_markers(log, sizes={f"t{i}": 200 for i in range(4)})), deep=False)
    key = ckey(lx.key + "._write_build_multi_requests", "witness:grouping")
    if kind == "unknown":
        ctx.undecided(key, fn, f"_write_build_multi_requests not foldable on the grouping witness: {res}")
    else:
        groups = [[r.tag for r in m.requests] for m in res] if kind == "return" and all(isinstance(m, Obj) and m.__dict__.get("kind") == "Multi" for m in res) else res
        flat = [t for g in groups for t in g] if isinstance(groups, list) and all(isinstance(g, list) for g in groups) else None
        ctx.check(flat == ["t0", "t1", "t2", "t3"] and all(0 < len(g) <= 2 for g in groups), key, fn, "four 200-byte requests on a 500-byte connection: every request sent once, in order, at most two per packet",
                  f"grouping of four 200-byte requests on a 500-byte connection gives {groups!r}")

    # How the requests are shared out between packets is the builder's business (it may pack them better one day); what is decided is
    # that every request is sent exactly once and that every packet fits by the wire layout: sequence 2 + service 1 + path size 1 +
    # path 4 + count 2, and per member an offset (2) and its message without the sequence count.  Request sizes are swept over the
    # range in which one, two or three of them fill a 500-byte packet.
    for label, sizes_ in [(f"four {m}-byte requests", [m] * 4) for m in range(118, 262, 3)] + [("requests of 100, 395 and 100 bytes", [100, 395, 100]), ("requests of 245, 245, 5 bytes", [245, 245, 5]), ("requests of 480, 5, 5 bytes", [480, 5, 5])]:
        parsed = {i: _wparsed(i, f"t{i}", value=i) for i in range(len(sizes_))}
        kind, res = run_function(ctx, lx.module, fn, {"self": _driver(connection_size=500), fn.args.args[1].arg: parsed}, call_hook=chain(enc, packet_markers([], sizes={f"t{i}": n for i, n in enumerate(sizes_)})), deep=False)
        key = ckey(lx.key + "._write_build_multi_requests", f"witness:grouping:{label}")
        if kind == "unknown":
            ctx.undecided(key, fn, f"_write_build_multi_requests not foldable on {label}: {res}")
            continue
        ok_shape = kind == "return" and isinstance(res, list) and all(isinstance(m, Obj) and m.__dict__.get("kind") in ("Multi", "WTF") for m in res)
        groups = [[r.request_id for r in m.requests] if m.kind == "Multi" else ("fragmented", m.request_id) for m in res] if ok_shape else res
        sent = sorted([x for g in groups if isinstance(g, list) for x in g] + [g[1] for g in groups if isinstance(g, tuple)]) if ok_shape else None
        over = [(g, 10 + sum(sizes_[x] for x in g)) for g in groups if isinstance(g, list) and (not g or 10 + sum(sizes_[x] for x in g) > 500)] if ok_shape else []
        ctx.check(ok_shape and sent == list(range(len(sizes_))) and not over, key, fn, f"{label}: {groups!r} - every request once, every packet within 500 bytes",
                  f"{label}: sent as {groups!r}; " + (f"packet {over[0][0]} is {over[0][1]} bytes on a 500-byte connection (or empty)" if over else "not every request is sent exactly once"))
    # --- dispatch
    fn = lx.methods["_write_build_requests"]
    for label, micro, n, want in (("one request", False, 1, "single"), ("several requests", False, 3, "multi"), ("several requests on a Micro800", True, 3, "single"), ("one request on a Micro800", True, 1, "single")):
        parsed = {i: _wparsed(i, f"t{i}") for i in range(n)}
        if n == 3:
            parsed[1] = _wparsed(1, "bad", error="x")
        calls = []
        hook = chain(self_call("_write_build_multi_requests", lambda a, k: calls.append(("multi", sorted(a[0]))) or ["M"]),
                     self_call("_write_build_single_request", lambda a, k: calls.append(("single", a[0]["request_id"])) or (None if a[0].get("error") else f"S{a[0]['request_id']}")))
        kind, res = run_function(ctx, lx.module, fn, {"self": _driver(_micro800=micro), fn.args.args[1].arg: parsed}, call_hook=hook, deep=False)
        key = ckey(lx.key + "._write_build_requests", f"witness:{label}")
        if kind == "unknown":
            ctx.undecided(key, fn, f"_write_build_requests not foldable on {label}: {res}")
            continue
        exp = ["M"] if want == "multi" else [f"S{i}" for i in range(n) if not parsed[i].get("error")]
        exp_calls = [("multi", list(range(n)))] if want == "multi" else [("single", i) for i in range(n)]
        ctx.check(kind == "return" and list(res) == exp and calls == exp_calls, key, fn, f"{label}: {want}-request path, unbuildable requests dropped", f"{label}: gives {kind} {res!r} via {calls!r}; expected {exp!r} via {exp_calls!r}")


@rule("C01", "D1.15", "T-WITNESS", floor=6)
def d1_15(ctx):
    """The read-request builders folded on witness requests: a Read Tag per parsed request with its plc tag, element count, tag
    info, request id and instance-id setting; a reply that would not fit the connection is requested with the fragmented
    service; failed requests produce no packet; one request / Micro800 use single requests, several the multi-service path
    (grouped so that the estimated replies fit the connection)."""
    lx = _lx(ctx)
    size_hook = lambda call, env, it: ({"small": 10, "big": 600}.get(it.ev(call.args[0], env)["plc_tag"], 10)) if (call_name(call) or "") == "_tag_return_size" else UNKNOWN  # noqa: E731
    fn = lx.methods["_read_build_single_request"]
    for label, parsed, want in (
        ("small tag", _parsed(3, "small{2}", "small", elements=2), ("RT", "SEQ", "small", 2, 3, "UID", None, True)),
        ("reply larger than the connection", _parsed(3, "big"), ("RTF", "from", ("RT", "SEQ", "big", 1, 3, "UID", None, True), "SEQ", ())),
        ("request that failed to parse", _parsed(3, "bad", error="nope"), None),
    ):
        kind, res = run_function(ctx, lx.module, fn, {"self": _driver(), fn.args.args[1].arg: dict(parsed)}, call_hook=chain(size_hook, packet_markers([])), deep=False)
        key = ckey(lx.key + "._read_build_single_request", f"witness:{label}")
        _report(ctx, key, fn, label, (kind, describe(res) if kind == "return" else res), ("return", want), "_read_build_single_request")
    fn = lx.methods["_read_build_multi_requests"]
    parsed = {0: _parsed(0, "small"), 1: _parsed(1, "bad", error="nope"), 2: _parsed(2, "big"), 3: _parsed(3, "s3{4}", "s3", elements=4)}
    kind, res = run_function(ctx, lx.module, fn, {"self": _driver(), fn.args.args[1].arg: parsed}, call_hook=chain(size_hook, packet_markers([])), deep=False)
    rt = lambda tag, n, rid: ("RT", "SEQ", tag, n, rid, "UID", None, True)  # noqa: E731
    _report(ctx, ckey(lx.key + "._read_build_multi_requests", "witness:mixed requests"), fn, "mixed requests", (kind, _sent_canon(describe(res)) if kind == "return" else res),
            ("return", _sent_canon([("Multi", "SEQ", [rt("small", 1, 0), rt("s3", 4, 3)]), ("RTF", "from", rt("big", 1, 2), "SEQ", ())])), "_read_build_multi_requests")
    parsed = {i: _parsed(i, f"t{i}") for i in range(5)}
    big_hook = lambda call, env, it: 150 if (call_name(call) or "") == "_tag_return_size" else UNKNOWN  # noqa: E731
    kind, res = run_function(ctx, lx.module, fn, {"self": _driver(connection_size=500), fn.args.args[1].arg: parsed}, call_hook=chain(big_hook, packet_markers([])), deep=False)
    key = ckey(lx.key + "._read_build_multi_requests", "witness:grouping")
    if kind == "unknown":
        ctx.undecided(key, fn, f"_read_build_multi_requests not foldable on the grouping witness: {res}")
    else:
        groups = [[r.tag for r in m.requests] for m in res] if kind == "return" and all(isinstance(m, Obj) and m.__dict__.get("kind") == "Multi" for m in res) else res
        flat = [t for g in groups for t in g] if isinstance(groups, list) and all(isinstance(g, list) for g in groups) else None
        ctx.check(flat == [f"t{i}" for i in range(5)] and all(0 < len(g) <= 2 for g in groups), key, fn, "five requests with ~170-byte estimated replies on a 500-byte connection: each requested once, in order, at most two per packet",
                  f"grouping of five requests with ~170-byte replies on a 500-byte connection gives {groups!r}")
    # How the requests are shared out between packets is the builder's business; decided is that every request is sent exactly once and
    # that the reply a packet solicits fits by the wire layout: sequence 2 + reply header 4 + count 2, and per member an offset (2), a
    # reply header (4), the type (2, or 4 for a structure: the worse case is taken) and the data.  Data sizes are swept over the range in
    # which one, two or three replies fill a 500-byte packet; request messages are the shortest possible (10 bytes).
    for label, sizes_ in [(f"five reads of {d} data bytes", [d] * 5) for d in range(140, 250, 3)] + [(f"five reads of {d} data bytes", [d] * 5) for d in (236, 237, 238, 239)] \
            + [("reads of 78, 373 and 78 data bytes", [78, 373, 78]), ("reads of 217, 217, 217, 217, 0 data bytes", [217, 217, 217, 217, 0]), ("reads of 470, 4, 4 data bytes", [470, 4, 4])]:
        parsed = {i: _parsed(i, f"t{i}") for i in range(len(sizes_))}
        szh = lambda call, env, it, sizes_=sizes_: sizes_[it.ev(call.args[0], env)["request_id"]] if (call_name(call) or "") == "_tag_return_size" else UNKNOWN  # noqa: E731
        fnm_ = lx.methods["_read_build_multi_requests"]
        kind, res = run_function(ctx, lx.module, fnm_, {"self": _driver(connection_size=500), fnm_.args.args[1].arg: parsed}, call_hook=chain(szh, packet_markers([], sizes={f"t{i}": 10 for i in range(len(sizes_))})), deep=False)
        key = ckey(lx.key + "._read_build_multi_requests", f"witness:grouping:{label}")
        if kind == "unknown":
            ctx.undecided(key, fnm_, f"_read_build_multi_requests not foldable on {label}: {res}")
            continue
        ok_shape = kind == "return" and isinstance(res, list) and all(isinstance(m, Obj) and m.__dict__.get("kind") in ("Multi", "RTF") for m in res)
        groups = [[r.request_id for r in m.requests] if m.kind == "Multi" else ("fragmented", m.request_id) for m in res] if ok_shape else res
        sent = sorted([x for g in groups if isinstance(g, list) for x in g] + [g[1] for g in groups if isinstance(g, tuple)]) if ok_shape else None
        over = [(g, 8 + sum(10 + sizes_[x] for x in g)) for g in groups if isinstance(g, list) and (not g or 8 + sum(10 + sizes_[x] for x in g) > 500)] if ok_shape else []
        ctx.check(ok_shape and sent == list(range(len(sizes_))) and not over, key, fnm_, f"{label}: {groups!r} - every request once, every solicited reply within 500 bytes",
                  f"{label}: requested as {groups!r}; " + (f"packet {over[0][0]} solicits a reply of {over[0][1]} bytes on a 500-byte connection (or is empty)" if over else "not every request is sent exactly once"))
    # fragmentation boundary of a single read: estimated reply (element bytes + message) equal to the connection size fits
    fns_ = lx.methods["_read_build_single_request"]
    for label, size_, frag in (("estimated reply exactly the connection size", 480, False), ("estimated reply one byte over", 481, True)):
        szh = lambda call, env, it, size_=size_: size_ if (call_name(call) or "") == "_tag_return_size" else UNKNOWN  # noqa: E731
        kind, res = run_function(ctx, lx.module, fns_, {"self": _driver(connection_size=500), fns_.args.args[1].arg: dict(_parsed(3, "edge"))}, call_hook=chain(szh, packet_markers([])), deep=False)
        key = ckey(lx.key + "._read_build_single_request", f"witness:{label}")
        if kind == "unknown":
            ctx.undecided(key, fns_, f"_read_build_single_request not foldable on {label}: {res}")
        else:
            got = describe(res) if kind == "return" else res
            ctx.check(kind == "return" and isinstance(got, tuple) and got[0] == ("RTF" if frag else "RT"), key, fns_, f"{label}: {'fragmented' if frag else 'plain'} read", f"{label}: {kind} {got!r}")
    # the first request alone overflows the reply budget of a packet (without needing fragments): it gets its own packet, no
    # empty packet is built and the requests after it are still sent
    over = ctx.folder.module_value(lx.module.name, "MULTISERVICE_READ_OVERHEAD")
    if isinstance(over, int) and over > 0:
        fnm = lx.methods["_read_build_multi_requests"]
        edge = 500 - 22 - (over - 1) // 2  # estimated reply = size + 20-byte message + 2 fits 500, but not next to the overhead
        parsed = {0: _parsed(0, "edge"), 1: _parsed(1, "s1"), 2: _parsed(2, "s2")}
        edge_hook = lambda call, env, it: (edge if it.ev(call.args[0], env)["plc_tag"] == "edge" else 10) if (call_name(call) or "") == "_tag_return_size" else UNKNOWN  # noqa: E731
        kind, res = run_function(ctx, lx.module, fnm, {"self": _driver(connection_size=500), fnm.args.args[1].arg: parsed}, call_hook=chain(edge_hook, packet_markers([])), deep=False)
        key = ckey(lx.key + "._read_build_multi_requests", "witness:first request fills a packet")
        if kind == "unknown":
            ctx.undecided(key, fnm, f"_read_build_multi_requests not foldable when the first request fills a packet: {res}")
        else:
            groups = [[r.tag for r in m.requests] if isinstance(m, Obj) and m.__dict__.get("kind") == "Multi" else (m.__dict__.get("kind"), m.__dict__.get("tag")) if isinstance(m, Obj) else m for m in res] if kind == "return" and isinstance(res, list) else res
            # alone in a packet that fits or read by fragments; the others share packets in any way; nothing empty, nothing twice (the
            # exact bounds are D4.12's)
            ok_ = isinstance(groups, list) and all((isinstance(g, list) and g) or (isinstance(g, tuple) and g[0] == "RTF") for g in groups)
            sent_ = sorted([t for g in groups if isinstance(g, list) for t in g] + [g[1] for g in groups if isinstance(g, tuple)]) if ok_ else None
            sz_ = {"edge": edge, "s1": 10, "s2": 10}
            fits_ = ok_ and all(8 + sum(10 + sz_.get(t, 0) for t in g) <= 500 for g in groups if isinstance(g, list))
            ctx.check(ok_ and sent_ == ["edge", "s1", "s2"] and fits_, key, fnm, "a first request that fills a packet goes alone (or by fragments), the following ones are still sent, no empty packet",
                      f"with a first request whose estimated reply ({edge} + 22 bytes) fills a 500-byte packet the builder gives {groups!r}; expected every request once, no empty packet, every solicited reply within 500 bytes")
        parsed = {0: _parsed(0, "big"), 1: _parsed(1, "big")}
        kind, res = run_function(ctx, lx.module, fnm, {"self": _driver(connection_size=500), fnm.args.args[1].arg: parsed}, call_hook=chain(size_hook, packet_markers([])), deep=False)
        key = ckey(lx.key + "._read_build_multi_requests", "witness:only fragmented requests")
        if kind != "unknown":
            got = describe(res) if kind == "return" else res
            ctx.check(kind == "return" and isinstance(got, list) and [g[0] for g in got] == ["RTF", "RTF"], key, fnm, "only fragmented requests: two fragmented packets, no empty multi-service packet", f"two requests that both need fragments give {kind} {got!r}")
    fn = lx.methods["_read_build_requests"]
    for label, micro, n, want in (("one request", False, 1, "single"), ("several requests", False, 3, "multi"), ("several requests on a Micro800", True, 3, "single"), ("one request on a Micro800", True, 1, "single")):
        parsed = {i: _parsed(i, f"t{i}") for i in range(n)}
        if n == 3:
            parsed[1] = _parsed(1, "bad", error="x")
        calls = []
        hook = chain(self_call("_read_build_multi_requests", lambda a, k: calls.append(("multi", sorted(a[0]))) or ["M"]),
                     self_call("_read_build_single_request", lambda a, k: calls.append(("single", a[0]["request_id"])) or (None if a[0].get("error") else f"S{a[0]['request_id']}")))
        kind, res = run_function(ctx, lx.module, fn, {"self": _driver(_micro800=micro), fn.args.args[1].arg: parsed}, call_hook=hook, deep=False)
        key = ckey(lx.key + "._read_build_requests", f"witness:{label}")
        if kind == "unknown":
            ctx.undecided(key, fn, f"_read_build_requests not foldable on {label}: {res}")
            continue
        exp = ["M"] if want == "multi" else [f"S{i}" for i in range(n) if not parsed[i].get("error")]
        exp_calls = [("multi", list(range(n)))] if want == "multi" else [("single", i) for i in range(n)]
        ctx.check(kind == "return" and list(res) == exp and calls == exp_calls, key, fn, f"{label}: {want}-request path, unbuildable requests dropped", f"{label}: gives {kind} {res!r} via {calls!r}; expected {exp!r} via {exp_calls!r}")


# ---------------------------------------------------------------------------------------------------------------- sending
def _resp(valid, **kw):
    return Obj(kind="response", _truth=valid, **kw)


@rule("C01", "D1.16", "T-WITNESS", floor=6)
def d1_16(ctx):
    """_send_requests folded on witness requests and replies: each reply is filed under its request id; a read takes value and
    type from the reply, a write from the request; a failed reply gives a Tag with no value and the reply's error (the
    request's own error first for members of a multi-service packet); members of a multi-service reply are filed one by one
    under their own request ids; a RequestError / ResponseError from sending fails only that request."""
    lx = _lx(ctx)
    fn = lx.methods["_send_requests"]

    def run(label, requests, replies, want):
        def send(a, k):
            r = replies[id(a[0])]
            if isinstance(r, str):
                raise _Raise(r)
            return r

        kind, res = run_function(ctx, lx.module, fn, {"self": _me(), fn.args.args[1].arg: requests}, call_hook=chain(tag_hook, self_call("send", send)), deep=False)
        if kind == "return" and isinstance(res, dict):
            res = {k: tag_tuple(v) for k, v in res.items()}
        _report(ctx, ckey(lx.key + "._send_requests", f"witness:{label}"), fn, label, (kind, res), ("return", want), "_send_requests")

    rd = Obj(kind="RT", type_="read", request_id=4, tag="d1", error=None)
    wr = Obj(kind="WT", type_="write", request_id=7, tag="d2", value=5, data_type="DINT", error=None)
    run("read, valid reply", [rd], {id(rd): _resp(True, value=77, data_type="DINT", error=None)}, {4: ("d1", 77, "DINT", None)})
    run("read, failed reply", [rd], {id(rd): _resp(False, value=None, data_type=None, error="Path destination unknown")}, {4: ("d1", None, None, "Path destination unknown")})
    run("write, valid reply (value and type come from the request)", [wr], {id(wr): _resp(True, value=None, data_type=None, error=None)}, {7: ("d2", 5, "DINT", None)})
    run("write, failed reply", [wr], {id(wr): _resp(False, value=5, data_type="DINT", error="Privilege violation")}, {7: ("d2", None, None, "Privilege violation")})
    run("read and write, results kept apart", [rd, wr], {id(rd): _resp(True, value=1, data_type="DINT", error=None), id(wr): _resp(False, error="Privilege violation", value=None, data_type=None)},
        {4: ("d1", 1, "DINT", None), 7: ("d2", None, None, "Privilege violation")})
    for exc in ("RequestError", "ResponseError"):
        kind, res = run_function(ctx, lx.module, fn, {"self": _me(), fn.args.args[1].arg: [rd, wr]},
                                 call_hook=chain(tag_hook, self_call("send", lambda a, k: (_ for _ in ()).throw(_Raise(exc)) if a[0] is rd else _resp(True, value=None, data_type=None, error=None))), deep=False)
        key = ckey(lx.key + "._send_requests", f"witness:{exc} while sending one request")
        if kind == "unknown":
            ctx.undecided(key, fn, f"_send_requests not foldable when send raises {exc}: {res}")
        else:
            r = {k: tag_tuple(v) for k, v in res.items()} if kind == "return" and isinstance(res, dict) else res
            ok = kind == "return" and isinstance(r, dict) and set(r) == {4, 7} and r[4][0] == "d1" and r[4][1] is None and isinstance(r[4][3], str) and r[7] == ("d2", 5, "DINT", None)
            ctx.check(ok, key, fn, f"{exc} from sending d1 fails only d1", f"when sending d1 raises {exc}: {kind} {r!r}")
    m1 = Obj(kind="RT", type_="read", request_id=0, tag="a", error=None)
    m2 = Obj(kind="WT", type_="write", request_id=1, tag="b", value=2, data_type="DINT", error=None)
    m3 = Obj(kind="WT", type_="write", request_id=2, tag="c", value=3, data_type="DINT", error="Failed to build request path for tag")
    multi = Obj(kind="Multi", type_="multi", requests=[m1, m2, m3])
    members = [_resp(True, request=m1, tag="a", value=10, data_type="DINT", error=None), _resp(False, request=m2, tag="b", value=2, data_type="DINT", error="Privilege violation"),
               _resp(False, request=m3, tag="c", value=3, data_type="DINT", error="Path segment error")]
    run("multi-service reply with one failed member and one unbuildable member", [multi], {id(multi): _resp(False, responses=members, error="Embedded service error")},
        {0: ("a", 10, "DINT", None), 1: ("b", None, None, "Privilege violation"), 2: ("c", None, None, "Failed to build request path for tag")})
    run("multi-service reply that is valid as a whole although one member failed", [multi], {id(multi): _resp(True, responses=members[:2], error=None)}, {0: ("a", 10, "DINT", None), 1: ("b", None, None, "Privilege violation")})
    run("multi-service reply, all members valid (a write member reports the written value)", [multi],
        {id(multi): _resp(True, responses=[members[0], _resp(True, request=m2, tag="b", value=2, data_type="DINT", error=None)], error=None)}, {0: ("a", 10, "DINT", None), 1: ("b", 2, "DINT", None)})


@rule("C04", "D4.10", "T-WITNESS", floor=6)
def d4_10(ctx):
    """The fragmented senders folded on witness replies: reading continues at offset += bytes received while the reply status
    is 0x06 and stops at the first other status; all fragments valid -> the last reply carries the concatenated bytes and is
    parsed; any fragment failed or the request unbuildable -> a failed reply with that error.  Writing cuts the value into
    segments of connection size minus the request's own overhead, sends each at its byte offset in order, and succeeds only
    if every segment did."""
    lx = _lx(ctx)
    INS = ctx.folder.module_value(lx.module.name, "INSUFFICIENT_PACKETS")
    fn = lx.methods["_send_read_fragmented"]

    def super_send(replies, sent):
        def hook(call, env, it):
            f = call.func
            if isinstance(f, ast.Attribute) and f.attr == "send" and isinstance(f.value, ast.Call) and getattr(f.value.func, "id", "") == "super":
                req = it.ev(call.args[0], env)
                sent.append(req)
                return replies[len(sent) - 1]
            return UNKNOWN

        return hook

    def frag_ctor(call, env, it):
        n = call_name(call) or ""
        if n in ("ReadTagFragmentedResponsePacket", "WriteTagFragmentedResponsePacket") and isinstance(call.func, ast.Name):
            a = [it.ev(x, env) for x in call.args]
            return Obj(kind="failed-response", request=a[0], raw=a[1], _truth=False, _error=None)
        return UNKNOWN

    def reply(status, chunk, valid, error=None, prefix=b"\xc4\x00"):
        # (the reply's raw data is the type prefix followed by the value bytes; only the value bytes count towards the offset)
        o = _resp(valid, service_status=status, value_bytes=chunk, data=prefix + chunk, error=error, parsed=False)
        return o

    def parse_value(call, env, it):
        f = call.func
        if isinstance(f, ast.Attribute) and f.attr == "parse_value":
            o = it.ev(f.value, env)
            if isinstance(o, Obj):
                o.parsed = True
                return None
        return UNKNOWN

    r0 = Obj(kind="RTF", tag="big", elements=400, request_id=3, error=None, seq="S0", tag_info=DINT, message=b"", type_="read")
    for label, replies, want_offsets, want in (
        ("three fragments", [reply(INS, b"aaaa", True), reply(INS, b"bbb", True), reply(0, b"cc", True)], [4, 7], ("ok", b"aaaabbbcc")),
        ("single fragment", [reply(0, b"zz", True)], [], ("ok", b"zz")),
        ("structure data (4-byte type prefix)", [reply(INS, b"aaaa", True, prefix=b"\xa0\x02\xcd\xab"), reply(INS, b"bbbbb", True, prefix=b"\xa0\x02\xcd\xab"), reply(0, b"c", True, prefix=b"\xa0\x02\xcd\xab")], [4, 9], ("ok", b"aaaabbbbbc")),
        ("second fragment fails", [reply(INS, b"aaaa", True), reply(4, b"", False, "Path segment error")], [4], ("failed", "One or more fragment responses failed")),
    ):
        sent, log = [], []
        kind, res = run_function(ctx, lx.module, fn, {"self": _driver(), fn.args.args[1].arg: r0}, call_hook=chain(super_send(replies, sent), frag_ctor, parse_value, packet_markers(log)), deep=False)
        key = ckey(lx.key + "._send_read_fragmented", f"witness:{label}")
        if kind == "unknown":
            ctx.undecided(key, fn, f"_send_read_fragmented not foldable on {label}: {res}")
            continue
        offsets = [s.extra[0] if s.__dict__.get("extra") else None for s in sent[1:]] if all(isinstance(s, Obj) for s in sent) else sent
        chained = all(s.__dict__.get("origin") is sent[i] for i, s in enumerate(sent[1:])) if all(isinstance(s, Obj) for s in sent) else False
        if want[0] == "ok":
            ok = kind == "return" and res is replies[len(replies) - 1] and res.value_bytes == want[1] and res.parsed and offsets == want_offsets and chained and len(sent) == len(replies)
        else:
            ok = kind == "return" and isinstance(res, Obj) and res.__dict__.get("kind") == "failed-response" and res.raw is None and res._error == want[1] and offsets == want_offsets
        ctx.check(ok, key, fn, f"{label}: continuation offsets {want_offsets}, outcome {want}", f"fragmented read on {label}: {kind} {res!r}; continuation offsets {offsets!r} (expected {want_offsets!r}), {len(sent)} request(s) sent")
    bad = Obj(kind="RTF", tag="big", elements=400, request_id=3, error="Failed to build request path for tag", seq="S0", tag_info=DINT, message=b"", type_="read")
    sent = []
    kind, res = run_function(ctx, lx.module, fn, {"self": _driver(), fn.args.args[1].arg: bad}, call_hook=chain(super_send([], sent), frag_ctor, parse_value, packet_markers([])), deep=False)
    key = ckey(lx.key + "._send_read_fragmented", "witness:unbuildable request")
    if kind == "unknown":
        ctx.undecided(key, fn, f"_send_read_fragmented not foldable on an unbuildable request: {res}")
    else:
        ctx.check(kind == "return" and isinstance(res, Obj) and res.__dict__.get("kind") == "failed-response" and res._error == bad.error and not sent, key, fn, "an unbuildable request is not sent and fails with its own error",
                  f"fragmented read of an unbuildable request: {kind} {res!r}, {len(sent)} request(s) sent")

    fn = lx.methods["_send_write_fragmented"]
    value = bytes(range(250)) * 4  # 1000 bytes
    BIGUDT = {"data_type_name": "Big", "tag_type": "struct", "data_type": {"name": "Big", "template": {"structure_size": 600, "structure_handle": 1}}}
    for label, conn, overhead, fail_at in (("several segments", 500, 60, None), ("elements larger than a segment", 501, 60, None), ("segments of exactly half the value", 560, 60, None), ("second segment fails", 500, 60, 1), ("one segment", 1100, 60, None),
                                           ("last segment of one byte", 393, 60, None), ("value exactly one segment", 1060, 60, None)):
        w0 = Obj(kind="WTF", tag="big", elements=250, request_id=3, error=None, value=value, message=bytes(overhead) + value, built=False, type_="write", tag_info=BIGUDT if conn == 501 else DINT, seq="S0")
        seg = conn - overhead
        sent, replies, log = [], [], []

        def bm(call, env, it, w0=w0):
            f = call.func
            if isinstance(f, ast.Attribute) and f.attr == "build_message" and isinstance(f.value, ast.Name) and env.get(f.value.id) is w0:
                w0.built = True
                return w0.message
            return UNKNOWN

        def send_seg(call, env, it, sent=sent, replies=replies, fail_at=fail_at):
            f = call.func
            if isinstance(f, ast.Attribute) and f.attr == "send" and isinstance(f.value, ast.Call) and getattr(f.value.func, "id", "") == "super":
                sent.append(it.ev(call.args[0], env))
                ok_ = fail_at is None or len(sent) - 1 != fail_at
                replies.append(_resp(ok_, error=None if ok_ else "Privilege violation", idx=len(sent) - 1))
                if len(sent) > 64:
                    raise _Raise("RuntimeError")
                return replies[-1]
            return UNKNOWN

        kind, res = run_function(ctx, lx.module, fn, {"self": _driver(connection_size=conn), fn.args.args[1].arg: w0}, call_hook=chain(bm, send_seg, frag_ctor, packet_markers(log)), deep=False)
        key = ckey(lx.key + "._send_write_fragmented", f"witness:{label}")
        if kind == "unknown":
            ctx.undecided(key, fn, f"_send_write_fragmented not foldable on {label}: {res}")
            continue
        segs = [(s.extra[0], s.extra[1]) for s in sent] if all(isinstance(s, Obj) and len(s.__dict__.get("extra", ())) == 2 and isinstance(s.extra[1], bytes) for s in sent) else None
        diffs = []
        if segs is None:
            diffs.append(f"requests sent are not fragment requests built from the original: {sent!r}"[:200])
        else:
            pos = 0
            for off, chunk in segs:
                if off != pos or not chunk or len(chunk) > seg:
                    diffs.append(f"segment at offset {off} with {len(chunk)} byte(s) after {pos} byte(s) sent (segment limit {seg})")
                    break
                pos += len(chunk)
            if not diffs and b"".join(c for _, c in segs) != value:
                diffs.append(f"segments cover {pos} of {len(value)} byte(s)")
            if any(s.__dict__.get("origin") is not w0 for s in sent):
                diffs.append("a segment is not built from the original request")
        if fail_at is None:
            if not (kind == "return" and replies and res is replies[-1]):
                diffs.append(f"returns {kind} {res!r} instead of the last segment's reply")
        elif not (kind == "return" and isinstance(res, Obj) and res.__dict__.get("kind") == "failed-response" and res._error == "One or more fragment responses failed"):
            diffs.append(f"returns {kind} {res!r} instead of a failed reply")
        ctx.check(not diffs, key, fn, f"{label}: contiguous segments of at most {seg} bytes covering the value, {'last reply returned' if fail_at is None else 'failed reply returned'}", f"fragmented write on {label}: {diffs[:2]}")


# ---------------------------------------------------------------------------------------------------------------- tag list
@rule("C05", "D5.15", "T-WITNESS", floor=4)
def d5_15(ctx):
    """get_tag_list folded on witness scopes (the per-scope upload is a marker that needs the name caches and the
    program / task / module registers the symbol classifier reads): '*' uploads the controller scope and then every program
    registered by it, None only the controller scope, a name only that program (keeping the registers); the result is every
    tag once, in upload order; it replaces `tags` only when caching is asked for; the upload caches are dropped afterwards."""
    lx = _lx(ctx)
    fn = lx.methods["get_tag_list"]
    iso = lx.methods["_isolate_user_tags"]
    # the classifier and the private helpers it calls on self (transitively)
    reach, todo = [], [iso]
    while todo:
        m_ = todo.pop()
        if m_ in reach:
            continue
        reach.append(m_)
        for c_ in ast.walk(m_):
            if isinstance(c_, ast.Call) and isinstance(c_.func, ast.Attribute) and isinstance(c_.func.value, ast.Name) and c_.func.value.id == "self" and c_.func.attr in lx.methods and c_.func.attr not in ("_create_tag",):
                todo.append(lx.methods[c_.func.attr])
    need_info = sorted({n.slice.value for m_ in reach for n in ast.walk(m_) if isinstance(n, ast.Subscript) and isinstance(n.slice, ast.Constant) and attr_path(n.value) == "self._info" and isinstance(n.slice.value, str)})
    need_cache = sorted({n.slice.value for m in ("_isolate_user_tags", "_get_data_type", "_get_structure_makeup") for n in ast.walk(lx.methods[m])
                         if isinstance(n, ast.Subscript) and isinstance(n.slice, ast.Constant) and attr_path(n.value) == "self._cache" and isinstance(n.slice.value, str)})
    if len(need_info) < 3 or len(need_cache) < 3:
        ctx.undecided(ckey(lx.key + ".get_tag_list", "registers"), fn, f"the symbol classifier reads only {need_info} / {need_cache}")
        return
    for label, program, cache, want_calls, want_tags in (
        ("all scopes", "*", True, [None, "P1", "P2"], ["A", "B", "Program:P1.x", "Program:P2.y"]),
        ("controller scope only", None, True, [None], ["A", "B"]),
        ("one program", "P1", True, ["P1"], ["Program:P1.x"]),
        ("all scopes, not cached", "*", False, [None, "P1", "P2"], ["A", "B", "Program:P1.x", "Program:P2.y"]),
    ):
        me = _me(_info={"name": "plc", "programs": {"OLD": {}}, "tasks": {"OLDT": {}}, "modules": {"OLDM": {}}}, _cache=None, _tags={"stale": {"tag_name": "stale"}})
        calls, problems = [], []

        def upload(a, k, me=me, calls=calls, problems=problems):
            prog = a[0] if a else k.get("program")
            calls.append(prog)
            for key_ in need_info:
                if not isinstance(me._info, dict) or key_ not in me._info:
                    problems.append(f"_info[{key_!r}] missing when the {prog or 'controller'} scope is uploaded")
            for key_ in need_cache:
                if not isinstance(me._cache, dict) or key_ not in me._cache:
                    problems.append(f"_cache[{key_!r}] missing when the {prog or 'controller'} scope is uploaded")
            if prog is None:
                if me._info.get("programs") or me._info.get("tasks") or me._info.get("modules"):
                    problems.append("program / task / module registers not reset before a controller-scope upload")
                if isinstance(me._info.get("programs"), dict):
                    me._info["programs"].update({"P1": {}, "P2": {}})
                return [{"tag_name": "A"}, {"tag_name": "B"}]
            return [{"tag_name": f"Program:{prog}.{'x' if prog == 'P1' else 'y'}"}]

        params = [a.arg for a in fn.args.args]
        kind, res = run_function(ctx, lx.module, fn, {"self": me, params[1]: program, params[2]: cache}, call_hook=self_call("_get_tag_list", upload), deep=False)
        key = ckey(lx.key + ".get_tag_list", f"witness:{label}")
        if kind == "unknown":
            ctx.undecided(key, fn, f"get_tag_list not foldable on {label}: {res}")
            continue
        names = [t.get("tag_name") for t in res] if kind == "return" and isinstance(res, list) else res
        diffs = list(problems[:2])
        if kind != "return" or names != want_tags:
            diffs.append(f"returns {kind} {names!r} (expected {want_tags!r})")
        if calls != want_calls:
            diffs.append(f"uploads scopes {calls!r} (expected {want_calls!r})")
        tags_now = sorted(me._tags) if isinstance(me._tags, dict) else me._tags
        if cache and tags_now != sorted(want_tags):
            diffs.append(f"`tags` holds {tags_now!r} afterwards (expected the uploaded tags)")
        if not cache and tags_now != ["stale"]:
            diffs.append(f"`tags` was replaced although cache=False: {tags_now!r}")
        if cache and isinstance(me._tags, dict) and any(me._tags[n].get("tag_name") != n for n in me._tags):
            diffs.append("`tags` is not keyed by tag name")
        if program == "P1" and "OLD" not in me._info.get("programs", {}):
            diffs.append("a single-program upload discards the program register")
        if me._cache is not None:
            diffs.append("the upload caches are kept after the upload")
        ctx.check(not diffs, key, fn, f"{label}: scopes {want_calls}, tags {want_tags}", f"get_tag_list({program!r}, cache={cache}): {diffs[:3]}", witness=label)


@rule("C05", "D5.16", "T-WITNESS", floor=6)
def d5_16(ctx):
    """The symbol-list request loop and reply parser folded on witnesses: each request addresses the symbol class starting at
    the instance after the last one received (0 first), inside `Program:<name>` for a program scope (prefix added once), asks
    for the attributes the parser decodes (external access only from the firmware that has it); a failed reply raises; the
    parser appends one record per symbol with every attribute at its position and continues (status 0x06) from the last
    instance + 1 or stops (status 0)."""
    import struct as _st

    lx = _lx(ctx)
    fn = lx.methods["_get_instance_attribute_list_service"]
    minver = ctx.folder.module_value(lx.module.name, "MIN_VER_EXTERNAL_ACCESS")
    sym = ctx.folder.eval(ast.parse("ClassCode.symbol_object", mode="eval").body, lx.module)
    svc = ctx.folder.eval(ast.parse("Services.get_instance_attribute_list", mode="eval").body, lx.module)
    if not isinstance(minver, int):
        ctx.undecided(ckey(lx.key + "._get_instance_attribute_list_service", "witness"), fn, "MIN_VER_EXTERNAL_ACCESS is not a constant")
        return

    def seg_hook(call, env, it):
        n = call_name(call) or ""
        if n == "LogicalSegment":
            return ("L",) + tuple(it.ev(x, env) for x in call.args)
        if n == "DataSegment":
            return ("D", it.ev(call.args[0], env))
        if (attr_path(call.func) or "") == "PADDED_EPATH.encode":
            kw = {k.arg: it.ev(k.value, env) for k in call.keywords}
            return ("EPATH", tuple(it.ev(call.args[0], env)), kw.get("length", False))
        return UNKNOWN

    for label, program, rev, replies, want_paths, want_attrs in (
        ("controller scope, two rounds", None, minver, [(True, 42), (True, -1)], [(("L", sym, "class_id"), ("L", 0, "instance_id")), (("L", sym, "class_id"), ("L", 42, "instance_id"))], 7),
        ("program scope by bare name", "MainProgram", minver, [(True, -1)], [(("D", "Program:MainProgram"), ("L", sym, "class_id"), ("L", 0, "instance_id"))], 7),
        ("program scope by full name", "Program:Aux", minver - 1, [(True, 7), (True, -1)], [(("D", "Program:Aux"), ("L", sym, "class_id"), ("L", 0, "instance_id")), (("D", "Program:Aux"), ("L", sym, "class_id"), ("L", 7, "instance_id"))], 6),
        ("failed reply", None, minver, [(False, -1)], None, 7),
    ):
        sent, parsed = [], []

        def new_request(call, env, it, sent=sent):
            if (call_name(call) or "") == "SendUnitDataRequestPacket" and isinstance(call.func, ast.Name):
                return Obj(kind="request", seq=it.ev(call.args[0], env), added=[])
            f = call.func
            if isinstance(f, ast.Attribute) and f.attr == "add" and isinstance(f.value, ast.Name) and isinstance(env.get(f.value.id), Obj) and env[f.value.id].__dict__.get("kind") == "request":
                args = []
                for a in call.args:
                    if isinstance(a, ast.Starred):
                        args.extend(it.ev(a.value, env))
                    else:
                        args.append(it.ev(a, env))
                env[f.value.id].added.extend(args)
                return env[f.value.id]
            return UNKNOWN

        def send(a, k, sent=sent, replies=replies):
            sent.append(a[0])
            valid, _ = replies[len(sent) - 1]
            return _resp(valid, error=None if valid else "Privilege violation", idx=len(sent) - 1)

        def parse(a, k, parsed=parsed, replies=replies):
            parsed.append(a[0].idx)
            a[1].append(("symbol", a[0].idx))
            return replies[a[0].idx][1]

        me = _me(_sequence="SEQ", revision_major=rev)
        kind, res = run_function(ctx, lx.module, fn, {"self": me, fn.args.args[1].arg: program}, call_hook=chain(seg_hook, new_request, self_call("send", send), self_call("_parse_instance_attribute_list", parse)), deep=False)
        key = ckey(lx.key + "._get_instance_attribute_list_service", f"witness:{label}")
        if kind == "unknown":
            ctx.undecided(key, fn, f"_get_instance_attribute_list_service not foldable on {label}: {res}")
            continue
        if want_paths is None:
            ctx.check(kind == "raise" and res == "ResponseError" and not parsed, key, fn, "a failed reply raises ResponseError and is not parsed", f"failed reply: {kind} {res!r}, parsed replies {parsed!r}")
            continue
        diffs = []
        if kind != "return" or res != [("symbol", i) for i in range(len(replies))]:
            diffs.append(f"returns {kind} {res!r}")
        frames = [s.added for s in sent if isinstance(s, Obj)]
        for i, (fr, wp) in enumerate(zip(frames, want_paths)):
            attrs = fr[3:]
            if len(fr) < 3 or fr[0] != svc or fr[1] != ("EPATH", wp, True):
                diffs.append(f"request {i} is {fr[:2]!r} (expected service {svc!r} and the padded path of {wp!r})")
            elif fr[2] != _st.pack("<H", want_attrs) or len(attrs) != want_attrs or len(set(attrs)) != want_attrs or (b"\x0a\x00" in attrs) != (rev >= minver):
                diffs.append(f"request {i} asks for {len(attrs)} attribute(s) {attrs!r} with count field {fr[2]!r} (expected {want_attrs}, external access {'included' if rev >= minver else 'left out'})")
        if len(frames) != len(want_paths):
            diffs.append(f"{len(frames)} request(s) sent (expected {len(want_paths)})")
        ctx.check(not diffs, key, fn, f"{label}: {len(want_paths)} request(s), attributes {want_attrs}", f"symbol-list upload ({label}): {diffs[:3]}", witness=label)

    fn = lx.methods["_parse_instance_attribute_list"]
    ea = ctx.folder.module_value(lx.module.name, "EXTERNAL_ACCESS")

    def record(inst, name, st, addr, oaddr, sc, dims, access):
        b_ = _st.pack("<I", inst) + _st.pack("<H", len(name)) + name.encode() + _st.pack("<H", st) + _st.pack("<IIIIII", addr, oaddr, sc, *dims)
        return b_ + (bytes([access]) if access is not None else b"")

    SUCCESS = ctx.folder.module_value(lx.module.name, "SUCCESS")
    INS = ctx.folder.module_value(lx.module.name, "INSUFFICIENT_PACKETS")
    for label, rev, status, recs, want_next in (
        ("two symbols, more to come", minver, INS, [(5, "Counter", 0x00C4, 1, 2, 3, (0, 0, 0), 0), (9, "Arr", 0x20C4, 4, 5, 6, (10, 0, 0), 2)], 10),
        ("last reply", minver, SUCCESS, [(12, "Flags", 0x00C1, 7, 8, 9, (0, 0, 0), 0)], -1),
        ("firmware without external access", minver - 1, SUCCESS, [(3, "Old", 0x00C3, 1, 1, 1, (2, 3, 4), None)], -1),
        ("shortest records (one-character names), old firmware, the short one last", minver - 1, SUCCESS, [(3, "Old", 0x00C3, 1, 1, 1, (0, 0, 0), None), (4, "N", 0x00C4, 1, 1, 1, (0, 0, 0), None)], -1),
        ("a single one-character name, old firmware, more to come", minver - 1, INS, [(7, "X", 0x00C4, 1, 1, 1, (0, 0, 0), None)], 8),
        ("one-character name last, current firmware", minver, SUCCESS, [(3, "Pump", 0x00C3, 1, 1, 1, (0, 0, 0), 1), (4, "N", 0x00C4, 1, 1, 1, (0, 0, 0), 0)], -1),
    ):
        data = b"".join(record(*r) for r in recs)
        out = []
        me = _me(revision_major=rev)
        kind, res = run_function(ctx, lx.module, fn, {"self": me, fn.args.args[1].arg: _resp(True, data=data, service_status=status), fn.args.args[2].arg: out}, deep=False)
        key = ckey(lx.key + "._parse_instance_attribute_list", f"witness:{label}")
        if kind == "unknown":
            ctx.undecided(key, fn, f"_parse_instance_attribute_list not foldable on {label}: {res}")
            continue
        want = [{"instance_id": r[0], "tag_name": r[1], "symbol_type": r[2], "symbol_address": r[3], "symbol_object_address": r[4], "software_control": r[5], "dimensions": list(r[6]),
                 "external_access": (ea.get(r[7], "Unknown") if isinstance(ea, dict) else None)} for r in recs]
        ctx.check(kind == "return" and res == want_next and out == want, key, fn, f"{label}: {len(recs)} record(s), continue at {want_next}", f"symbol-list reply ({label}): {kind} {res!r} (expected {want_next}); records {out!r} (expected {want!r})"[:900], witness=label)
    # an empty / cut reply
    kind, res = run_function(ctx, lx.module, fn, {"self": _me(revision_major=minver), fn.args.args[1].arg: _resp(True, data=record(5, "Counter", 0xC4, 1, 2, 3, (0, 0, 0), 0)[:-6], service_status=SUCCESS), fn.args.args[2].arg: []}, deep=False)
    key = ckey(lx.key + "._parse_instance_attribute_list", "witness:cut reply")
    if kind == "unknown":
        ctx.undecided(key, fn, f"_parse_instance_attribute_list not foldable on a cut reply: {res}")
    else:
        ctx.check(kind == "raise" and res == "ResponseError", key, fn, "a reply cut inside a record raises ResponseError", f"cut symbol-list reply: {kind} {res!r}")


# ---------------------------------------------------------------------------------------------------------------- tag info
@rule("C01", "D1.17", "T-WITNESS", floor=8)
def d1_17(ctx):
    """Tag-definition lookup and request parsing folded on witnesses: a base tag gives its own definition, a member path walks
    the nested structure definitions by member name (array indices ignored), an unknown base or member is RequestError; every
    requested tag gets a numbered request record merged with what the tag parser found, or its error - one bad tag never
    disturbs the others."""
    lx = _lx(ctx)
    fn = lx.methods["_get_tag_info"]
    leaf = {"tag_type": "atomic", "data_type_name": "DINT"}
    inner = {"tag_type": "struct", "data_type_name": "Inner", "data_type": {"internal_tags": {"leaf": leaf, "arr": {"tag_type": "atomic", "data_type_name": "INT", "array": 4}}}}
    udt = {"tag_name": "udt", "tag_type": "struct", "data_type_name": "Outer", "data_type": {"internal_tags": {"inner": inner, "m": leaf}}}
    tags = {"dint": {"tag_name": "dint", "tag_type": "atomic", "data_type_name": "DINT"}, "udt": udt, "Program:P.x": {"tag_name": "Program:P.x", "tag_type": "atomic", "data_type_name": "REAL"}}
    strip = lambda call, env, it: it.ev(call.args[0], env).split("[")[0] if (attr_path(call.func) or "") in ("util.strip_array", "strip_array") else UNKNOWN  # noqa: E731
    for label, base, attrs, want in (
        ("base tag", "dint", [], ("return", tags["dint"])), ("base tag with index", "dint[3]", [], ("return", tags["dint"])), ("member", "udt", ["m"], ("return", leaf)),
        ("nested member", "udt", ["inner", "leaf"], ("return", leaf)), ("nested member through indices", "udt[1]", ["inner[2]", "arr[3]"], ("return", inner["data_type"]["internal_tags"]["arr"])),
        ("program-scoped tag", "Program:P.x", [], ("return", tags["Program:P.x"])), ("unknown base tag", "nope", [], ("raise", "RequestError")), ("unknown member", "udt", ["zzz"], ("raise", "RequestError")),
        ("unknown nested member", "udt", ["inner", "zzz"], ("raise", "RequestError")),
    ):
        kind, res = run_function(ctx, lx.module, fn, {"self": _me(_tags=tags), fn.args.args[1].arg: base, fn.args.args[2].arg: list(attrs)}, call_hook=strip, deep=False)
        _report(ctx, ckey(lx.key + "._get_tag_info", f"witness:{label}"), fn, label, (kind, res), want, "_get_tag_info")
    fn = lx.methods["_parse_requested_tags"]

    def parse(a, k):
        if a[0] == "bad":
            raise _Raise("RequestError")
        if a[0] == "none":
            return None
        return {"plc_tag": a[0].upper(), "rw": a[1] if len(a) > 1 else k.get("rw")}

    str_hook = lambda call, env, it: "<error text>" if (call_name(call) or "") == "str" and len(call.args) == 1 and isinstance(call.args[0], ast.Name) and call.args[0].id == "err" else UNKNOWN  # noqa: E731
    for label, tgs, rw in (("three tags, the middle one bad", ["a", "bad", "b"], "r"), ("write mode", ["x"], "w"), ("generator of tags", ["p", "q"], "w"), ("the same tag requested twice", ["a", "b", "a", "bad", "bad"], "r")):
        kind, res = run_function(ctx, lx.module, fn, {"self": _me(), fn.args.args[1].arg: list(tgs), fn.args.args[2].arg: rw}, call_hook=chain(str_hook, self_call("_parse_tag_request", parse)), deep=False)
        want = {i: ({"request_id": i, "request_tag": t, "plc_tag": t.upper(), "rw": rw} if t != "bad" else {"request_id": i, "request_tag": t, "error": "<error text>"}) for i, t in enumerate(tgs)}
        _report(ctx, ckey(lx.key + "._parse_requested_tags", f"witness:{label}"), fn, label, (kind, res), ("return", want), "_parse_requested_tags")


@rule("C14", "D14.9", "T-WITNESS", floor=3)
def d14_9(ctx):
    """get_plc_name / set_plc_time folded on witness replies (generic_message is a marker): the name request is Get Attributes
    All on the program-name object, instance 1, decoded as STRING, and the name is returned and kept only for a valid reply (a
    failed one raises ResponseError); the clock is set with Set Attribute List on the wall-clock object: one attribute, number
    6, the given microseconds as ULINT."""
    lx = _lx(ctx)
    ev = lambda s: ctx.folder.eval(ast.parse(s, mode="eval").body, lx.module)  # noqa: E731
    fn = lx.methods["get_plc_name"]
    for label, valid in (("valid reply", True), ("failed reply", False)):
        seen = {}
        me = _me(_info={})
        gm = self_call("generic_message", lambda a, k: seen.update(k) or _resp(valid, value="MainPLC" if valid else None, error=None if valid else "Service not supported"))
        kind, res = run_function(ctx, lx.module, fn, {"self": me}, call_hook=gm, deep=False)
        key = ckey(lx.key + ".get_plc_name", f"witness:{label}")
        if kind == "unknown":
            ctx.undecided(key, fn, f"get_plc_name not foldable on a {label}: {res}")
            continue
        req_ok = seen.get("service") == ev("Services.get_attributes_all") and seen.get("class_code") == ev("ClassCode.program_name") and seen.get("instance") in (1, b"\x01") and getattr(getattr(seen.get("data_type"), "ci", None), "name", None) == "STRING"
        if valid:
            ctx.check(kind == "return" and res == "MainPLC" and me._info.get("name") == "MainPLC" and req_ok, key, fn, "valid reply: the name is returned and kept in info",
                      f"get_plc_name with a valid reply: {kind} {res!r}, info {me._info!r}, request {dict((k, v) for k, v in seen.items() if k != 'data_type')!r}")
        else:
            ctx.check(kind == "raise" and res == "ResponseError" and "name" not in me._info, key, fn, "failed reply: ResponseError, no name kept", f"get_plc_name with a failed reply: {kind} {res!r}, info {me._info!r}")
    fn = lx.methods["set_plc_time"]
    seen = {}

    def struct_hook(call, env, it):
        n = call_name(call) or ""
        if n == "Struct" and isinstance(call.func, ast.Name):
            return Obj(kind="struct", members=tuple(getattr(getattr(it.ev(a, env), "ci", None), "name", "?") for a in call.args))
        f = call.func
        if isinstance(f, ast.Attribute) and f.attr == "encode" and isinstance(f.value, ast.Name) and isinstance(env.get(f.value.id), Obj) and env[f.value.id].__dict__.get("kind") == "struct":
            return ("encoded", env[f.value.id].members, tuple(it.ev(call.args[0], env)))
        return UNKNOWN

    kind, res = run_function(ctx, lx.module, fn, {"self": _me(), fn.args.args[1].arg: 1_600_000_000_123_456}, call_hook=chain(struct_hook, self_call("generic_message", lambda a, k: seen.update(k) or "REPLY")), deep=False)
    key = ckey(lx.key + ".set_plc_time", "witness:explicit time")
    if kind == "unknown":
        ctx.undecided(key, fn, f"set_plc_time not foldable: {res}")
    else:
        ok = kind == "return" and res == "REPLY" and seen.get("service") == ev("Services.set_attribute_list") and seen.get("class_code") == ev("ClassCode.wall_clock_time") and seen.get("instance") in (1, b"\x01") \
            and seen.get("request_data") == ("encoded", ("UINT", "UINT", "ULINT"), (1, 6, 1_600_000_000_123_456))
        ctx.check(ok, key, fn, "Set Attribute List, wall-clock object instance 1, data = UINT 1, UINT 6, ULINT microseconds", f"set_plc_time(1600000000123456): {kind} {res!r} with request {seen!r}")


@rule("C16", "D16.8", "T-WITNESS", floor=3)
def d16_8(ctx):
    """get_plc_info folded on witness replies: Get Attributes All on the identity object instance 1, unconnected (wrapped in an
    Unconnected Send unless the target is a Micro800), decoded as the module identity; a valid reply's identity is returned
    with the key-switch position looked up from its two status bytes; a failed reply raises ResponseError."""
    lx = _lx(ctx)
    ev = lambda s: ctx.folder.eval(ast.parse(s, mode="eval").body, lx.module)  # noqa: E731
    fn = lx.methods["get_plc_info"]
    ks = ctx.folder.module_value(lx.module.name, "KEYSWITCH")
    if not isinstance(ks, dict) or not ks:
        ctx.undecided(ckey(lx.key + ".get_plc_info", "witness"), fn, "KEYSWITCH is not a constant table")
        return
    b0 = sorted(ks)[0]
    b1 = sorted(ks[b0])[0]
    for label, valid, micro, status in (("valid reply", True, False, bytes([b0, b1])), ("valid reply, unknown key-switch bytes", True, True, b"\xfe\xfd"), ("failed reply", False, False, None)):
        seen = {}
        gm = self_call("generic_message", lambda a, k: seen.update(k) or _resp(valid, value={"vendor": "Rockwell", "status": status} if valid else None, error=None if valid else "Service not supported"))
        kind, res = run_function(ctx, lx.module, fn, {"self": _me(_micro800=micro, _info={"vendor": "an earlier device", "keyswitch": "EARLIER", "status": b"\x00\x00", "name": "plc"})}, call_hook=gm, deep=False)
        key = ckey(lx.key + ".get_plc_info", f"witness:{label}")
        if kind == "unknown":
            ctx.undecided(key, fn, f"get_plc_info not foldable on a {label}: {res}")
            continue
        if not valid:
            ctx.check(kind == "raise" and res == "ResponseError", key, fn, "failed reply: ResponseError", f"get_plc_info with a failed reply: {kind} {res!r}")
            continue
        req_ok = seen.get("service") == ev("Services.get_attributes_all") and seen.get("class_code") == ev("ClassCode.identity_object") and seen.get("instance") in (1, b"\x01") and seen.get("connected") is False \
            and seen.get("unconnected_send") is (not micro) and getattr(getattr(seen.get("data_type"), "ci", None), "name", None) == "ModuleIdentityObject"
        want_ks = ks.get(status[0], {}).get(status[1], "UNKNOWN")
        ctx.check(kind == "return" and isinstance(res, dict) and res.get("vendor") == "Rockwell" and res.get("keyswitch") == want_ks and req_ok, key, fn, f"{label}: identity returned with keyswitch {want_ks!r}",
                  f"get_plc_info ({label}): {kind} {res!r}; request {dict((k, v) for k, v in seen.items() if k != 'data_type')!r}")


@rule("C04", "D4.12", "T-WITNESS", floor=300)
def d4_12(ctx):
    """Every size in the windows below the connection size (both sizes a connection can have): the multi-request builders are
    folded on one request of that size next to a small one, in both orders.  Whatever they build must fit: a Multiple Service
    request is sequence 2 + service 1 + path size 1 + path 4 + count 2 + per member (offset 2 + its message without the sequence
    count) bytes; the reply it solicits is sequence 2 + reply header 4 + count 2 + per member (offset 2 + header 4 + type 4 - a
    structure's, the worse case - + data) bytes; both <= the connection size.  Every request is sent exactly once - as a member of a packet or by the fragmented
    service.  The oracle is the wire layout (spec), not the builder's own estimate."""
    lx = _lx(ctx)
    enc = lambda call, env, it: b"<v>" if (call_name(call) or "") == "encode_value" else UNKNOWN  # noqa: E731
    fr, fw = lx.methods.get("_read_build_multi_requests"), lx.methods.get("_write_build_multi_requests")
    if fr is None or fw is None:
        ctx.undecided(ckey(lx.key, "multi-request builders"), lx.node, "anchor vanished")
        return
    MSG = 10  # the shortest Read Tag message: sequence 2 + service 1 + path size 1 + one 4-byte segment + count 2

    def groups_of(res):
        out = []
        for m in res:
            d = m.__dict__ if isinstance(m, Obj) else {}
            if d.get("kind") == "Multi":
                out.append(("Multi", [r.tag for r in d["requests"]]))
            elif d.get("kind") in ("RTF", "WTF"):
                out.append((d["kind"], [d.get("tag")]))
            else:
                out.append(("?", [describe(m)]))
        return out

    for conn in (500, 4000):
        for order in ("first", "second"):
            names = ("edge", "small") if order == "first" else ("small", "edge")
            # reads: data bytes of the large request
            for data in range(conn - 40, conn + 1):
                sizes = {"edge": data, "small": 4}
                parsed = {i: _parsed(i, t) for i, t in enumerate(names)}
                hook = lambda call, env, it, sizes=sizes: sizes[it.ev(call.args[0], env)["plc_tag"]] if (call_name(call) or "") == "_tag_return_size" else UNKNOWN  # noqa: E731
                kind, res = run_function(ctx, lx.module, fr, {"self": _driver(connection_size=conn), fr.args.args[1].arg: parsed}, call_hook=chain(hook, packet_markers([], sizes={"edge": MSG, "small": MSG})), deep=False)
                key = ckey(lx.key + "._read_build_multi_requests", f"window:{conn}:{order}:{data}")
                if kind != "return" or not isinstance(res, list):
                    if kind == "unknown":
                        ctx.undecided(key, fr, f"_read_build_multi_requests not foldable on a {data}-byte read next to a small one: {res}")
                    else:
                        ctx.violation(key, fr, f"reading {data} data bytes next to a small tag on a {conn}-byte connection: the builder ends with {kind} {res!r}")
                    continue
                gs = groups_of(res)
                sent = sorted(t for _, g in gs for t in g)
                over = [(g, 8 + sum(10 + sizes[t] for t in g)) for k, g in gs if k == "Multi" and 8 + sum(10 + sizes.get(t, 0) for t in g) > conn]  # (structure replies: 4-byte type)
                ctx.check(sent == ["edge", "small"] and not over and all(k in ("Multi", "RTF") for k, _ in gs), key, fr, f"{data} data bytes next to a small tag, {conn}-byte connection: {gs!r} fits",
                          f"read of {data} data bytes ({order}) next to a small tag on a {conn}-byte connection is sent as {gs!r}: " + (f"the Multiple Service packet {over[0][0]} solicits a reply of {over[0][1]} bytes, larger than the connection" if over else "not every request is sent exactly once"))
            # writes: message bytes (with the sequence count) of the large request
            for msg in range(conn - 40, conn + 3):
                sizes = {"edge": msg, "small": 20}
                parsed = {i: _wparsed(i, t, value=1) for i, t in enumerate(names)}
                kind, res = run_function(ctx, lx.module, fw, {"self": _driver(connection_size=conn), fw.args.args[1].arg: parsed}, call_hook=chain(enc, packet_markers([], sizes=sizes)), deep=False)
                key = ckey(lx.key + "._write_build_multi_requests", f"window:{conn}:{order}:{msg}")
                if kind != "return" or not isinstance(res, list):
                    if kind == "unknown":
                        ctx.undecided(key, fw, f"_write_build_multi_requests not foldable on a {msg}-byte write next to a small one: {res}")
                    else:
                        ctx.violation(key, fw, f"writing a {msg}-byte request next to a small one on a {conn}-byte connection: the builder ends with {kind} {res!r}")
                    continue
                gs = groups_of(res)
                sent = sorted(t for _, g in gs for t in g)
                over = [(g, 10 + sum(sizes[t] for t in g)) for k, g in gs if k == "Multi" and 10 + sum(sizes.get(t, 0) for t in g) > conn]
                ctx.check(sent == ["edge", "small"] and not over and all(k in ("Multi", "WTF") for k, _ in gs), key, fw, f"{msg}-byte write request next to a small one, {conn}-byte connection: {gs!r} fits",
                          f"write request of {msg} bytes ({order}) next to a small one on a {conn}-byte connection is sent as {gs!r}: " + (f"the Multiple Service packet {over[0][0]} is {over[0][1]} bytes, larger than the connection" if over else "not every request is sent exactly once"))


# the same obligations under the other properties they carry (a request id collision breaks isolation, C03; an oversized
# request breaks fragmentation, C04; the error a failed member reports is C13)
rule("C03", "D3.12", "T-WITNESS", floor=8)(d2_12)
rule("C04", "D4.11", "T-WITNESS", floor=8)(d2_12)
rule("C03", "D3.13", "T-WITNESS", floor=6)(d1_16)
rule("C13", "D13.10", "T-WITNESS", floor=6)(d1_16)
rule("C03", "D3.14", "T-WITNESS", floor=6)(d4_10)
rule("C02", "D2.13", "T-WITNESS", floor=8)(d3_11)


# ---------------------------------------------------------------------------------------------------------------- StructTag
def _structtag_witness(ctx):
    """StructTag's factory prelude and class attributes evaluated on a witness layout; returns (class info, cls witness) or a
    reason string."""
    from ..miniinterp import Interp, _Unknown

    CT = "pycomm3.custom_types"
    tag = ctx.model.cls(f"{CT}:StructTag.StructTag")
    fac = tag.enclosing
    mk = lambda name, size: Obj(kind="member", name=name, size=size)  # noqa: E731
    A, B, H, C = mk("a", 1), mk("b", 4), mk("host", 1), mk("c", 2)
    env = {fac.args.vararg.arg: ((A, 0), (B, 4), (H, 8), (C, 10))}
    given = {"bit_members": {"x": (8, 0), "y": (8, 3), "z": (0, 1)}, "private_members": {"host"}, "struct_size": 14}
    for a in fac.args.kwonlyargs:
        if a.arg not in given:
            return tag, f"unexpected factory parameter {a.arg}"
        env[a.arg] = given[a.arg]

    def hook(call, env_, it):
        if (call_name(call) or "") == "Struct" and isinstance(call.func, ast.Name):
            args = []
            for x in call.args:
                if isinstance(x, ast.Starred):
                    args.extend(it.ev(x.value, env_))
                else:
                    args.append(it.ev(x, env_))
            return Obj(kind="struct-class", members=list(args))
        return UNKNOWN

    it = Interp(ctx, tag.module, hook)
    try:
        for st in fac.body:
            if isinstance(st, ast.ClassDef):
                break
            if isinstance(st, ast.Expr) and isinstance(st.value, ast.Constant):
                continue
            it._stmt(st, env, 0)
        attrs = {name: it.ev(expr, env) for name, expr in tag.attrs.items()}
        base = it.ev(tag.node.bases[0], env)
    except _Unknown as u:
        return tag, f"factory prelude not foldable: {u.why}"
    except Exception as err:  # the prelude fails on the witness layout
        return tag, f"factory prelude raises {type(err).__name__} on the witness layout"
    if not (isinstance(base, Obj) and base.__dict__.get("kind") == "struct-class"):
        return tag, f"the generated class does not derive from the Struct of its members: {base!r}"
    attrs.setdefault("members", base.members)
    return tag, (Obj(kind="structtag", **attrs), (A, B, H, C))


def _receiver(call, env, it):
    """The witness a method call is made on, when its receiver is a plain name / attribute / subscript expression."""
    f = call.func
    if not isinstance(f, ast.Attribute) or any(isinstance(x, ast.Call) for x in ast.walk(f.value)):
        return None
    try:
        return it.ev(f.value, env)
    except Exception:
        return None


def _struct_rule(ctx):
    """The generated Struct class folded on witness members (a, b, an unnamed reserved member, c; member codecs are markers that
    write / consume one tagged byte): a dict and a sequence are encoded member by member in declaration order with the member's
    own value; decode visits every member in order on the one stream (the unnamed one too: its byte is consumed) and returns the
    named members only."""
    from ..miniinterp import Stream

    DTm = "pycomm3.cip.data_types"
    st = ctx.model.cls(f"{DTm}:Struct.Struct")
    enc, dec = st.methods["_encode"], st.methods["_decode"]
    for unnamed in ("", None):
        members = (Obj(kind="smember", name="a", tag=0xA0), Obj(kind="smember", name="b", tag=0xB0), Obj(kind="smember", name=unnamed, tag=0xE0), Obj(kind="smember", name="c", tag=0xC0))
        cls = Obj(kind="struct-class", members=members, _ci=st, _is_class=True)

        def hook(call, env, it):
            f = call.func
            if isinstance(f, ast.Attribute) and f.attr in ("encode", "decode"):
                m = _receiver(call, env, it)
                if isinstance(m, Obj) and m.__dict__.get("kind") == "smember":
                    a = it.ev(call.args[0], env)
                    if f.attr == "encode":
                        if not isinstance(a, int):
                            raise _Raise("DataError")
                        return bytes([m.tag, a])
                    got = a.read(1)
                    if not got:
                        raise _Raise("BufferEmptyError")
                    return (m.tag, got[0])
            return UNKNOWN

        lab = "unnamed member ''" if unnamed == "" else "unnamed member None"
        want = bytes([0xA0, 1, 0xB0, 2, 0xE0, 0, 0xC0, 3])
        for form, value in (("dict", {"a": 1, "c": 3, unnamed: 0, "b": 2}), ("sequence", [1, 2, 0, 3]), ("tuple", (1, 2, 0, 3))):
            kind, res = run_function(ctx, st.module, enc, {enc.args.args[0].arg: cls, enc.args.args[1].arg: value}, call_hook=hook, deep=False)
            res = bytes(res) if isinstance(res, bytearray) else res
            _report(ctx, ckey(st.key + "._encode", f"witness:{form}:{lab}"), enc, f"struct encode of a {form} ({lab})", (kind, res), ("return", want), "Struct._encode")
        s_ = Stream(bytes([7, 8, 9, 10, 0x99]))
        kind, res = run_function(ctx, st.module, dec, {dec.args.args[0].arg: cls, dec.args.args[1].arg: s_}, call_hook=hook, deep=False)
        key = ckey(st.key + "._decode", f"witness:{lab}")
        if kind == "unknown":
            ctx.undecided(key, dec, f"Struct._decode not foldable: {res}")
        else:
            wantd = {"a": (0xA0, 7), "b": (0xB0, 8), "c": (0xC0, 10)}
            ctx.check(kind == "return" and res == wantd and list(res) == ["a", "b", "c"] and s_.pos == 4, key, dec, f"members decoded in order from one stream, the unnamed one consumed and left out ({lab})",
                      f"Struct._decode on the witness gives {kind} {res!r} after {s_.pos} byte(s); expected {wantd!r} after 4")
    # a value that lacks a member is refused, not encoded short
    kind, res = run_function(ctx, st.module, enc, {enc.args.args[0].arg: cls, enc.args.args[1].arg: {"a": 1, "b": 2}}, call_hook=hook, deep=False)
    key = ckey(st.key + "._encode", "witness:missing member")
    if kind == "unknown":
        ctx.undecided(key, enc, f"Struct._encode not foldable on a dict lacking a member: {res}")
    else:
        ctx.check(kind == "raise", key, enc, "a dict lacking a member is refused", f"Struct._encode of a dict lacking a member gives {kind} {res!r} instead of raising")


rule("C06", "D6.15", "T-WITNESS", floor=8)(_struct_rule)
rule("C07", "D7.12", "T-WITNESS", floor=8)(_struct_rule)


def _structtag_rule(ctx):
    """StructTag folded on a witness layout (SINT a @0 with the BOOL alias z = its bit 1, DINT b @4, private SINT host @8 with
    BOOL aliases x = bit 0 and y = bit 3, INT c @10, two bytes of tail padding, size 14; member codecs are markers that consume /
    produce their own width): decode reads exactly `size` bytes, every member at its offset (gaps skipped), BOOL aliases from
    their host byte, private members left out; encode writes every visible member at its offset into a zeroed image of `size`
    bytes and sets / clears the alias bits (a clear alias clears its bit in a visible host member too)."""
    tag, w = _structtag_witness(ctx)
    dec, enc = tag.methods["_decode"], tag.methods["_encode"]
    if isinstance(w, str):
        if "not foldable" in w or "unexpected" in w:
            ctx.undecided(ckey(tag.key, "witness"), tag.node, w)
        else:
            ctx.violation(ckey(tag.key, "witness"), tag.node, w)
        return
    cls, (A, B, H, C) = w
    need = sorted({n.attr for m in (dec, enc) for n in ast.walk(m) if isinstance(n, ast.Attribute) and isinstance(n.value, ast.Name) and n.value.id == "cls" and isinstance(n.ctx, ast.Load)} - {"_stream_read", "members", "name"})
    missing = [a for a in need if a not in cls.__dict__]
    ctx.check(not missing, ckey(tag.key, "class-attributes"), tag.node, f"the generated class provides {need}", f"StructTag's codec reads cls.{missing} but the generated class does not define it (AttributeError -> DataError on every structure read / write)")
    if missing:
        return
    from ..miniinterp import Stream

    image = bytes([0x13, 0xEE, 0xEE, 0xEE, 0x22, 0x23, 0x24, 0x25, 0b00001000, 0xEE, 0x31, 0x32, 0xEE, 0xEE])
    outer = Stream(image + b"\x99\x99")

    def dhook(call, env, it):
        f = call.func
        if isinstance(f, ast.Attribute) and f.attr == "_stream_read" and isinstance(f.value, ast.Name) and f.value.id == "cls":
            s_, n_ = it.ev(call.args[0], env), it.ev(call.args[1], env)
            got = s_.read(n_)
            if len(got) != n_:
                raise _Raise("BufferEmptyError")
            return got
        if isinstance(f, ast.Attribute) and f.attr == "decode" and isinstance(f.value, ast.Name) and isinstance(env.get(f.value.id), Obj) and env[f.value.id].__dict__.get("kind") == "member":
            m = env[f.value.id]
            return ("val", m.name, it.ev(call.args[0], env).read(m.size))
        return UNKNOWN

    kind, res = run_function(ctx, tag.module, dec, {dec.args.args[0].arg: cls, dec.args.args[1].arg: outer}, call_hook=dhook, deep=False)
    key = ckey(tag.key + "._decode", "witness")
    if kind == "unknown":
        ctx.undecided(key, dec, f"StructTag._decode not foldable: {res}")
    else:
        want = {"a": ("val", "a", b"\x13"), "b": ("val", "b", b"\x22\x23\x24\x25"), "c": ("val", "c", b"\x31\x32"), "x": False, "y": True, "z": True}
        ctx.check(kind == "return" and res == want and outer.pos == 14, key, dec, "members at offsets 0 / 4 / 10, aliases from bytes 8 and 0, host left out, 14 bytes consumed (tail padding included)",
                  f"StructTag._decode on the witness image gives {kind} {res!r} after consuming {outer.pos} byte(s); expected {want!r} after 14")

    def ehook(call, env, it):
        f = call.func
        if isinstance(f, ast.Attribute) and f.attr == "encode" and isinstance(f.value, ast.Name) and isinstance(env.get(f.value.id), Obj) and env[f.value.id].__dict__.get("kind") == "member":
            return it.ev(call.args[0], env)
        return UNKNOWN

    given = {"a": b"\x13", "b": b"\x22\x23\x24\x25", "c": b"\x31\x32", "x": True, "y": False, "z": False}
    kind, res = run_function(ctx, tag.module, enc, {enc.args.args[0].arg: cls, enc.args.args[1].arg: dict(given)}, call_hook=ehook, deep=False)
    key = ckey(tag.key + "._encode", "witness")
    if kind == "unknown":
        ctx.undecided(key, enc, f"StructTag._encode not foldable: {res}")
    else:
        want = bytes([0x11, 0, 0, 0, 0x22, 0x23, 0x24, 0x25, 0x01, 0, 0x31, 0x32, 0, 0])
        got = bytes(res) if kind == "return" and isinstance(res, (bytes, bytearray)) else res
        ctx.check(kind == "return" and got == want, key, enc, f"image {want.hex()}", f"StructTag._encode of {given!r} gives {kind} {got.hex() if isinstance(got, bytes) else got!r}; expected {want.hex()} (hidden host byte written only through its alias bits; the clear alias z clears bit 1 of the visible member a)")
    given2 = dict(given, x=False, y=True, a=b"\x11", z=True)
    kind, res = run_function(ctx, tag.module, enc, {enc.args.args[0].arg: cls, enc.args.args[1].arg: given2}, call_hook=ehook, deep=False)
    key = ckey(tag.key + "._encode", "witness:other bits")
    if kind != "unknown":
        got = bytes(res) if kind == "return" and isinstance(res, (bytes, bytearray)) else res
        ctx.check(kind == "return" and isinstance(got, bytes) and len(got) == 14 and got[8] == 0x08 and got[0] == 0x13, key, enc, "x clear, y set -> host byte 0x08; z set -> bit 1 of a",
                  f"StructTag._encode with x=False, y=True, a=0x11, z=True gives {got.hex() if isinstance(got, bytes) else got!r}; expected host byte 0x08 at offset 8, 0x13 at offset 0 and 14 bytes")


rule("C06", "D6.10", "T-WITNESS", floor=3)(_structtag_rule)
rule("C07", "D7.8", "T-WITNESS", floor=3)(_structtag_rule)
rule("C01", "D1.18", "T-WITNESS", floor=3)(_structtag_rule)


# ---------------------------------------------------------------------------------------------------------------- codec purity
MUTATORS = {"append", "extend", "insert", "pop", "clear", "update", "remove", "sort", "reverse", "setdefault", "add", "discard", "popitem", "__setitem__"}


def shared_state_mutations(fn):
    """[(node, what)] - statements of a method that mutate an object reached through its first parameter (`cls` / `self`):
    a subscript / slice store or delete, an augmented store, a mutating method call, directly or through a local that was bound
    to `cls.<attr>`, and (classmethods) rebinding of `cls.<attr>`."""
    if not fn.args.args:
        return []
    first = fn.args.args[0].arg
    if first not in ("cls", "self"):
        return []
    alias = {}
    for n in ast.walk(fn):
        if isinstance(n, ast.Assign) and len(n.targets) == 1 and isinstance(n.targets[0], ast.Name) and isinstance(n.value, ast.Attribute) and isinstance(n.value.value, ast.Name) and n.value.value.id == first:
            alias[n.targets[0].id] = n.value.attr

    def base(e):
        if isinstance(e, ast.Attribute) and isinstance(e.value, ast.Name) and e.value.id == first:
            return f"{first}.{e.attr}"
        if isinstance(e, ast.Name) and e.id in alias:
            return f"{first}.{alias[e.id]} (through the local `{e.id}`)"
        return None

    out = []
    for n in ast.walk(fn):
        t = None
        if isinstance(n, ast.Subscript) and isinstance(n.ctx, (ast.Store, ast.Del)):
            t = base(n.value)
        elif isinstance(n, ast.Call) and isinstance(n.func, ast.Attribute) and n.func.attr in MUTATORS:
            t = base(n.func.value)
        elif isinstance(n, ast.Attribute) and isinstance(n.ctx, (ast.Store, ast.Del)) and isinstance(n.value, ast.Name) and n.value.id == first == "cls":
            t = f"cls.{n.attr} (rebound)"
        if t:
            out.append((n, t))
    return out


def _codec_purity(ctx):
    """Codec classes keep no per-call state: no method of a data-type class mutates an object reached through `cls` / `self`
    (a class-level buffer, table or list is shared by every call and every tag of that type), so what `encode` returns is a
    fresh value and two encodes never write into one another's result.  Expected count zero; a synthetic class with a shared
    buffer is the positive control on every run."""
    control = ast.parse("class K:\n    _image = bytearray(4)\n    @classmethod\n    def _encode(cls, v):\n        value = cls._image\n        value[0:1] = v\n        cls._seen.append(v)\n        return value\n").body[0].body[1]
    hits = shared_state_mutations(control)
    if len(hits) != 2:
        ctx.undecided("codec-purity#positive-control", None, f"the positive control matched {len(hits)} of 2 mutations")
        return
    ctx.ok("codec-purity#positive-control", None, "the positive control (a class-level buffer written through a local, a class-level list appended to) is detected")
    n = 0
    for key, fi in sorted(ctx.model.functions.items()):
        rel = fi.module.relpath.replace("\\", "/")
        if fi.cls is None or not rel.endswith(("cip/data_types.py", "custom_types.py", "cip/pccc.py")):
            continue
        if not any(k.name == "DataType" for k in fi.cls.mro()) and "DataType" not in {getattr(b, "id", None) for k in fi.cls.mro() for b in k.node.bases} and fi.cls.enclosing is None:
            continue
        n += 1
        probs = shared_state_mutations(fi.node)
        if probs:
            node, what = probs[0]
            ctx.violation(ckey(fi, "shared-state"), node, f"{fi.qualname} mutates {what}: the object is shared by every call on this type (and by every tag of the type), so a second encode / decode overwrites what the first one returned")
    ctx.ok("codec-purity#census", None, f"{n} codec methods, none mutates state reached through cls / self", methods=n)


def _factory_impurities(fn, module_names):
    """Statements of a class factory (outside the class it defines and outside nested functions) that return something other than
    the class just defined (or an instance of it), or that write module-level state."""
    cds = [s_ for s_ in fn.body if isinstance(s_, ast.ClassDef)]
    if len(cds) != 1:
        return None
    cname = cds[0].name
    last = fn.body[-1]
    rv = last.value if isinstance(last, ast.Return) else None
    if not ((isinstance(rv, ast.Name) and rv.id == cname) or (isinstance(rv, ast.Call) and isinstance(rv.func, ast.Name) and rv.func.id == cname)):
        return None
    out = []
    local = {a.arg for a in fn.args.args + fn.args.kwonlyargs} | ({fn.args.vararg.arg} if fn.args.vararg else set()) | ({fn.args.kwarg.arg} if fn.args.kwarg else set())

    def visit(n):
        for ch in ast.iter_child_nodes(n):
            if isinstance(ch, (ast.FunctionDef, ast.AsyncFunctionDef, ast.ClassDef, ast.Lambda)):
                continue
            if isinstance(ch, ast.Return):
                v = ch.value
                if not ((isinstance(v, ast.Name) and v.id == cname) or (isinstance(v, ast.Call) and isinstance(v.func, ast.Name) and v.func.id == cname)):
                    out.append((ch, f"returns `{ast.unparse(v) if v is not None else None}` instead of the class it defines: the result no longer depends on this call's arguments alone"))
            if isinstance(ch, (ast.Global, ast.Nonlocal)):
                out.append((ch, f"declares {', '.join(ch.names)} global"))
            if isinstance(ch, (ast.Assign, ast.AugAssign, ast.AnnAssign)):
                for t in (ch.targets if isinstance(ch, ast.Assign) else [ch.target]):
                    base = t
                    while isinstance(base, (ast.Subscript, ast.Attribute)):
                        base = base.value
                    if isinstance(t, (ast.Subscript, ast.Attribute)) and isinstance(base, ast.Name) and base.id in module_names and base.id not in local:
                        out.append((ch, f"writes module-level `{base.id}` (`{ast.unparse(t)}`): classes made for one argument set become visible to calls with another"))
                    if isinstance(t, ast.Name):
                        local.add(t.id)
            if isinstance(ch, ast.Call) and isinstance(ch.func, ast.Attribute) and isinstance(ch.func.value, ast.Name) and ch.func.value.id in module_names and ch.func.value.id not in local \
                    and ch.func.attr in ("append", "extend", "update", "setdefault", "add", "insert", "pop", "clear", "remove", "popitem"):
                out.append((ch, f"mutates module-level `{ch.func.value.id}` through .{ch.func.attr}()"))
            visit(ch)

    visit(fn)
    return out


def _factory_purity(ctx):
    """Class factories (Struct, Array, StructTag, FixedSizeString, n_bytes: a module-level function that defines one class and
    returns it) return the class they have just built from their arguments and write no module-level state - so two calls with
    different element types, members or sizes can never be handed one another's class (a cache keyed by anything coarser than the
    arguments themselves aliases distinct types).  Expected count zero; a synthetic caching factory is the positive control."""
    ctl = ast.parse("_seen = {}\ndef Make(n):\n    k = str(n)\n    if k in _seen:\n        return _seen[k]\n    class Made:\n        size = n\n    _seen[k] = Made\n    return Made\n")
    hits = _factory_impurities(ctl.body[1], {"_seen", "Make"})
    if hits is None or len(hits) != 2:
        ctx.undecided("factory-purity#positive-control", None, f"the positive control matched {None if hits is None else len(hits)} of 2 impurities")
        return
    ctx.ok("factory-purity#positive-control", None, "the positive control (a factory that returns a cached class and fills the cache) is detected")
    n = 0
    for key, fi in sorted(ctx.model.functions.items()):
        rel = fi.module.relpath.replace("\\", "/")
        if fi.cls is not None or "." in fi.qualname or not rel.endswith(("cip/data_types.py", "custom_types.py")):
            continue
        probs = _factory_impurities(fi.node, set(fi.module.symbols))
        if probs is None:
            continue
        n += 1
        if probs:
            for node, what in probs[:3]:
                ctx.violation(ckey(fi, f"factory-impure:{type(node).__name__}"), node, f"class factory {fi.qualname} {what}")
        else:
            ctx.ok(ckey(fi, "factory-pure"), fi.node, f"{fi.qualname} returns the class it defines and writes no module-level state")
    if n < 3:
        ctx.undecided("factory-purity#census", None, f"only {n} class factories found")


rule("C06", "D6.17", "T-WHO", floor=4)(_factory_purity)
rule("C07", "D7.13", "T-WHO", floor=4)(_factory_purity)
rule("C01", "D1.22", "T-WHO", floor=4)(_factory_purity)
rule("C02", "D2.14", "T-WHO", floor=2)(_codec_purity)
rule("C06", "D6.11", "T-WHO", floor=2)(_codec_purity)
rule("C07", "D7.9", "T-WHO", floor=2)(_codec_purity)
rule("C17", "D17.6", "T-WITNESS", floor=8)(d2_12)
rule("C17", "D17.7", "T-WITNESS", floor=6)(d1_15)


# ---------------------------------------------------------------------------------------------------------------- Array
def _array_rule(ctx):
    """The generated Array class folded on witness element types (one byte per element; a bit-string element of one byte =
    8 bools; element codecs are markers) for each kind of length: fixed n encodes exactly n elements (more values are cut,
    fewer are DataError) and decodes n; a length type writes / reads the element count first; None encodes all values and
    decodes to the end of the buffer; the per-call length overrides the declared one; bit-string elements take / give a flat
    list of bools in whole elements."""
    from ..consteval import ClassRef
    from ..miniinterp import Stream

    DTm = "pycomm3.cip.data_types"
    arr = ctx.model.cls(f"{DTm}:Array.Array")
    enc, dec = arr.methods["encode"], arr.methods["decode"]
    usint = ClassRef(ctx.model.cls(f"{DTm}:USINT"))
    # (numeric witnesses carry the struct format of an unsigned little-endian integer of their size, as the elementary types do)
    elem, bits, elem2, bits2 = Obj(kind="elem", size=1, _format="<B"), Obj(kind="bits", size=1), Obj(kind="elem", size=2, _format="<H"), Obj(kind="bits", size=2)

    def hook(call, env, it):
        n = call_name(call) or ""
        f = call.func
        if n in ("isinstance", "issubclass") and isinstance(f, ast.Name) and len(call.args) == 2:
            v = it.ev(call.args[0], env)
            tname = ast.unparse(call.args[1]).split(".")[-1]
            is_class = isinstance(v, ClassRef) or (isinstance(v, Obj) and v.__dict__.get("kind") in ("elem", "bits"))
            if n == "issubclass":
                if not is_class:
                    raise _Raise("TypeError")
                if tname == "BitArrayType":
                    return isinstance(v, Obj) and v.kind == "bits"
                if tname == "DataType":
                    return True
                return UNKNOWN
            if tname == "DataType":
                return False if (is_class or v is None or isinstance(v, (int, str, bytes, list))) else UNKNOWN
            if tname == "type":
                return is_class
            if tname == "int":
                return isinstance(v, int) and not isinstance(v, bool)
            if tname == "BufferEmptyError":
                return UNKNOWN
            return UNKNOWN
        if isinstance(f, ast.Attribute) and f.attr in ("encode", "decode"):
            et = _receiver(call, env, it)  # (cls.element_type, a local alias of it, a parameter of a helper: whatever names the element type)
            if not (isinstance(et, Obj) and et.__dict__.get("kind") in ("elem", "bits")):
                return UNKNOWN
            a = it.ev(call.args[0], env)
            if f.attr == "encode":
                if et.kind == "bits":
                    if not (isinstance(a, list) and len(a) == 8 * et.size and all(isinstance(x, bool) for x in a)):
                        raise _Raise("DataError")
                    return sum(1 << i for i, b_ in enumerate(a) if b_).to_bytes(et.size, "little")
                if isinstance(a, float):
                    import math as _math

                    return b"\x80" if _math.copysign(1.0, a) < 0 else b"\x00"  # (a witness real: only its sign is encoded)
                if not isinstance(a, int) or isinstance(a, bool) or not 0 <= a < 256:
                    raise _Raise("DataError")
                return bytes([a])
            got = a.read(et.size)
            if not got:
                raise _Raise("BufferEmptyError")
            if len(got) < et.size:
                raise _Raise("DataError")  # a partial element: malformed data, not the end of the array
            return [bool(int.from_bytes(got, "little") >> i & 1) for i in range(8 * et.size)] if et.kind == "bits" else int.from_bytes(got, "little")
        if n == "_as_stream" and isinstance(f, ast.Name):
            v = it.ev(call.args[0], env)
            return v if isinstance(v, Stream) else Stream(v)
        if n in ("_repr", "repr") or (isinstance(f, ast.Attribute) and f.attr == "repr"):
            return "<repr>"
        return UNKNOWN

    def cls_w(length, et):
        return Obj(kind="array-class", length=length, element_type=et, _ci=arr, _is_class=True)

    b16 = [i % 3 == 0 for i in range(16)]
    pack = lambda bl: bytes(sum(1 << i for i, b_ in enumerate(bl[j:j + 8]) if b_) for j in range(0, len(bl), 8))  # noqa: E731
    ecases = [
        ("fixed 3, exactly 3 values", cls_w(3, elem), [1, 2, 3], None, ("return", b"\x01\x02\x03")),
        ("fixed 3, 4 values (surplus cut)", cls_w(3, elem), [1, 2, 3, 4], None, ("return", b"\x01\x02\x03")),
        ("fixed 3, 2 values", cls_w(3, elem), [1, 2], None, ("raise", "DataError")),
        ("declared 8, per-call length 2", cls_w(8, elem), [1, 2, 3], 2, ("return", b"\x01\x02")),
        ("USINT-prefixed", cls_w(usint, elem), [5, 6], None, ("return", b"\x02\x05\x06")),
        ("USINT-prefixed, empty", cls_w(usint, elem), [], None, ("return", b"\x00")),
        ("unbounded", cls_w(None, elem), [7, 8, 9], None, ("return", b"\x07\x08\x09")),
        ("value outside the element type", cls_w(2, elem), [1, 300], None, ("raise", "DataError")),
        ("values that compare equal but encode differently (0.0, -0.0)", cls_w(2, elem), [0.0, -0.0], None, ("return", b"\x00\x80")),
        ("values that compare equal but encode differently (-0.0, 0.0, 0.0), unbounded", cls_w(None, elem), [-0.0, 0.0, 0.0], None, ("return", b"\x80\x00\x00")),
        ("equal values", cls_w(3, elem), [9, 9, 9], None, ("return", b"\x09\x09\x09")),
        ("not a sequence", cls_w(2, elem), None, None, ("raise", "DataError")),
        ("bit strings, fixed 2, 16 bools", cls_w(2, bits), b16, None, ("return", pack(b16))),
        ("bit strings, fixed 2, 15 bools", cls_w(2, bits), b16[:15], None, ("raise", "DataError")),
        ("bit strings, unbounded, 12 bools", cls_w(None, bits), b16[:12], None, ("raise", "DataError")),
        ("bit strings, USINT-prefixed, 8 bools", cls_w(usint, bits), b16[:8], None, ("return", b"\x01" + pack(b16[:8]))),
        ("16-bit strings, fixed 2, 32 bools", cls_w(2, bits2), b16 + b16[::-1], None, ("return", pack(b16 + b16[::-1]))),
        ("16-bit strings, fixed 2, 48 bools (surplus cut)", cls_w(2, bits2), b16 + b16[::-1] + b16, None, ("return", pack(b16 + b16[::-1]))),
        ("bit strings, fixed 2, 24 bools (surplus cut)", cls_w(2, bits), b16 + b16[:8], None, ("return", pack(b16))),
        ("16-bit strings, fixed 2, 31 bools", cls_w(2, bits2), (b16 + b16)[:31], None, ("raise", "DataError")),
        ("16-bit strings, fixed 2, 16 bools", cls_w(2, bits2), b16, None, ("raise", "DataError")),
        ("16-bit strings, unbounded, 24 bools", cls_w(None, bits2), (b16 + b16)[:24], None, ("raise", "DataError")),
        ("16-bit strings, unbounded, 32 bools", cls_w(None, bits2), b16 + b16, None, ("return", pack(b16 + b16))),
        ("16-bit strings, USINT-prefixed, 16 bools", cls_w(usint, bits2), b16, None, ("return", b"\x01" + pack(b16))),
    ]
    ep = [a.arg for a in enc.args.args]
    for label, c, vals, ln, want in ecases:
        kind, res = run_function(ctx, arr.module, enc, {ep[0]: c, ep[1]: (list(vals) if isinstance(vals, list) else vals), ep[2]: ln}, call_hook=hook, deep=False)
        res = bytes(res) if isinstance(res, bytearray) else res
        _report(ctx, ckey(arr.key + ".encode", f"witness:{label}"), enc, label, (kind, res), want, "Array.encode")
    dp = [a.arg for a in dec.args.args]
    dcases = [
        ("fixed 3 of 4 bytes", cls_w(3, elem), b"\x01\x02\x03\x04", None, ("return", [1, 2, 3]), 3),
        ("fixed 3 of 2 bytes", cls_w(3, elem), b"\x01\x02", None, ("raise", "BufferEmptyError"), None),
        ("declared 8, per-call length 2", cls_w(8, elem), b"\x01\x02\x03", 2, ("return", [1, 2]), 2),
        ("USINT-prefixed", cls_w(usint, elem), b"\x02\x05\x06\x07", None, ("return", [5, 6]), 3),
        ("USINT-prefixed, count 0 with more data behind it", cls_w(usint, elem), b"\x00\x05\x06", None, ("return", []), 1),
        ("unbounded", cls_w(None, elem), b"\x07\x08\x09", None, ("return", [7, 8, 9]), 3),
        ("unbounded, empty buffer", cls_w(None, elem), b"", None, ("return", []), 0),
        ("unbounded, two-byte elements, whole number of elements", cls_w(None, elem2), b"\x01\x00\x02\x00", None, ("return", [1, 2]), 4),
        ("unbounded, two-byte elements, buffer cut inside the third element", cls_w(None, elem2), b"\x01\x00\x02\x00\x03", None, ("raise", "DataError"), None),
        ("fixed 2, two-byte elements, buffer cut inside the second", cls_w(2, elem2), b"\x01\x00\x02", None, ("raise", "DataError"), None),
        ("bit strings, fixed 2", cls_w(2, bits), pack(b16) + b"\xff", None, ("return", b16), 2),
        ("bit strings, unbounded", cls_w(None, bits), pack(b16), None, ("return", b16), 2),
        ("16-bit strings, fixed 1", cls_w(1, bits2), pack(b16) + b"\xff", None, ("return", b16), 2),
    ]
    for label, c, data, ln, want, pos in dcases:
        st = Stream(data)
        kind, res = run_function(ctx, arr.module, dec, {dp[0]: c, dp[1]: st, dp[2]: ln}, call_hook=hook, deep=False)
        key = ckey(arr.key + ".decode", f"witness:{label}")
        if kind == "unknown":
            ctx.undecided(key, dec, f"Array.decode not foldable on {label}: {res}")
            continue
        ok = (kind, res) == want and (pos is None or st.pos == pos)
        ctx.check(ok, key, dec, f"{label}: {want[1]!r}" + (f", {pos} byte(s) consumed" if pos is not None else ""), f"Array.decode on {label} gives {kind} {res!r} after {st.pos} byte(s); expected {want[0]} {want[1]!r}" + (f" after {pos}" if pos is not None else ""), witness=label)


rule("C06", "D6.12", "T-WITNESS", floor=15)(_array_rule)
rule("C07", "D7.10", "T-WITNESS", floor=15)(_array_rule)
rule("C08", "D8.10", "T-WITNESS", floor=15)(_array_rule)


# ---------------------------------------------------------------------------------------------------------------- small helpers
@rule("C01", "D1.19", "T-WITNESS", floor=6)
def d1_19(ctx):
    """Small routing helpers folded on witnesses: `send` routes a fragmented read / write request to its fragmented sender and
    everything else to the plain transport; `_tag_return_size` is element size x element count (atomic: the type's size,
    structure: the template's structure size); `get_array_index` splits the last `[n]` off a tag and leaves other tags alone."""
    lx = _lx(ctx)
    fn = lx.methods["send"]
    for label, kind_, want in (("fragmented read request", "ReadTagFragmentedRequestPacket", "rf"), ("fragmented write request", "WriteTagFragmentedRequestPacket", "wf"), ("plain read request", "ReadTagRequestPacket", "plain"),
                               ("multi-service request", "MultiServiceRequestPacket", "plain"), ("read-modify-write request", "ReadModifyWriteRequestPacket", "plain")):
        # the request is a witness of the real packet class (isinstance is decided on the model's class hierarchy) and the three
        # senders are witness callables: however `send` spells the dispatch (if-ladder, table of classes and method names, table of
        # bound methods), the call lands in one of them
        pci = ctx.model.cls(f"pycomm3.packets.logix:{kind_}")
        req = Obj(_ci=pci, kind=kind_)
        me = _me(_send_read_fragmented=PyFunc(lambda r: ("rf", r), "_send_read_fragmented"), _send_write_fragmented=PyFunc(lambda r: ("wf", r), "_send_write_fragmented"))

        def hook(call, env, it):
            f = call.func
            if isinstance(f, ast.Attribute) and f.attr == "send" and isinstance(f.value, ast.Call) and getattr(f.value.func, "id", "") == "super":
                return ("plain", it.ev(call.args[0], env))
            return UNKNOWN

        kind, res = run_function(ctx, lx.module, fn, {"self": me, fn.args.args[1].arg: req}, call_hook=hook, deep=False)
        key = ckey(lx.key + ".send", f"witness:{label}")
        if kind == "unknown":
            ctx.undecided(key, fn, f"send not foldable on a {label}: {res}")
        else:
            ctx.check(kind == "return" and isinstance(res, tuple) and len(res) == 2 and res[0] == want and res[1] is req, key, fn, f"{label} -> {want}", f"send({label}) gives {kind} {res!r}; expected the request handed to the {want} sender")
    trs = ctx.model.func(f"{LX}:_tag_return_size")
    dint = ctx.folder.eval(ast.parse("DataTypes['DINT'].size", mode="eval").body, lx.module)
    for label, td, want in (("BOOL-array slice far into the array (126 DWORDs read for 64 BOOLs)", {"tag_info": {"tag_type": "atomic", "data_type": "DWORD", "data_type_name": "DWORD"}, "elements": 126, "bool_elements": 64, "bit": 0}, 504),
                            ("whole BOOL array of 3 DWORDs", {"tag_info": {"tag_type": "atomic", "data_type": "DWORD", "data_type_name": "DWORD"}, "elements": 3, "bool_elements": 96, "bit": None}, 12),
                            ("atomic DINT x 3", {"tag_info": {"tag_type": "atomic", "data_type": "DINT"}, "elements": 3}, (dint or 4) * 3),
                            ("atomic LREAL x 1", {"tag_info": {"tag_type": "atomic", "data_type": "LREAL"}, "elements": 1}, 8),
                            ("structure of 88 bytes x 2", {"tag_info": {"tag_type": "struct", "data_type": {"template": {"structure_size": 88}}}, "elements": 2}, 176)):
        td = dict({"bool_elements": None, "bit": None}, **td)  # (a parsed request always carries both keys)
        kind, res = run_function(ctx, trs.module, trs.node, {trs.node.args.args[0].arg: td}, deep=False)
        _report(ctx, ckey(trs, f"witness:{label}"), trs.node, label, (kind, res), ("return", want), "_tag_return_size")
    gai = ctx.model.func("pycomm3.util:get_array_index")
    for tag, want in (("tag[100]", ("tag", 100)), ("tag", ("tag", None)), ("udt_arr[2].flags[5]", ("udt_arr[2].flags", 5)), ("udt_arr[2].flags", ("udt_arr[2].flags", None)), ("a[0]", ("a", 0)), ("Program:P.t[31]", ("Program:P.t", 31))):
        kind, res = run_function(ctx, gai.module, gai.node, {gai.node.args.args[0].arg: tag}, deep=False)
        if kind == "return" and isinstance(res, list):
            res = tuple(res)
        _report(ctx, ckey(gai, f"witness:{tag}"), gai.node, tag, (kind, res), ("return", want), "get_array_index")


def _constructed(ctx, ci, *args):
    """A witness segment made by folding the class's own constructor (so a constructor that forgets a field is seen); falls back
    to None when the constructor is not foldable."""
    from ..miniinterp import fold_object

    kind, o = fold_object(ctx, ci, list(args))
    return o if kind == "return" and isinstance(o, Obj) else None


def _bytes_and_symbol_rule(ctx):
    """Two small encoders folded on witnesses: an ANSI extended symbol segment is 0x91, the character count, the characters
    and a pad byte when the count is odd; a byte-string placeholder type of n bytes encodes the first n bytes and the
    consume-all form (n = -1) encodes all of them."""
    DTm = "pycomm3.cip.data_types"
    ds = ctx.model.cls(f"{DTm}:DataSegment")
    fn = ds.methods["_encode"]
    for name, want in (("abc", b"\x91\x03abc\x00"), ("ab", b"\x91\x02ab"), ("Program:MainProgram", b"\x91\x13Program:MainProgram\x00"), ("T", b"\x91\x01T\x00")):
        cls = Obj(_ci=ds, _is_class=True)
        seg_ = _constructed(ctx, ds, name)
        if seg_ is None:
            ctx.undecided(ckey(ds.key + "._encode", f"witness:{name}"), fn, f"DataSegment({name!r}) is not constructible by folding its constructor")
            continue
        kind, res = run_function(ctx, ds.module, fn, {fn.args.args[0].arg: cls, fn.args.args[1].arg: seg_, **({fn.args.args[2].arg: False} if len(fn.args.args) > 2 else {})}, deep=False)
        res = bytes(res) if isinstance(res, bytearray) else res
        _report(ctx, ckey(ds.key + "._encode", f"witness:{name}"), fn, f"symbol {name!r}", (kind, res), ("return", want), "DataSegment._encode")
    # data that is not text: the plain data segment type (no extended-symbol bit) and the data as they are, last
    for raw in (b"\x01\x02\x03\x04", b"\x07\x08"):
        kind, res = run_function(ctx, ds.module, fn, {fn.args.args[0].arg: Obj(_ci=ds, _is_class=True), fn.args.args[1].arg: _constructed(ctx, ds, raw) or Obj(data=raw), **({fn.args.args[2].arg: False} if len(fn.args.args) > 2 else {})}, deep=False)
        res = bytes(res) if isinstance(res, bytearray) else res
        key = ckey(ds.key + "._encode", f"witness:raw:{raw.hex()}")
        if kind == "unknown":
            ctx.undecided(key, fn, f"DataSegment._encode not foldable on raw data: {res}")
        else:
            ctx.check(kind == "return" and isinstance(res, bytes) and res[:1] == b"\x80" and res.endswith(raw) and len(res) == len(raw) + 2, key, fn, f"raw data {raw.hex()}: segment 0x80, one length byte, the data unchanged",
                      f"DataSegment._encode of raw data {raw.hex()} gives {kind} {res!r}; expected 0x80, a length byte and the data unchanged")
    bt = ctx.model.cls(f"{DTm}:BytesDataType")
    fn = bt.methods["_encode"]
    for size, value, want in ((2, b"abcd", b"ab"), (4, b"abcd", b"abcd"), (-1, b"abc", b"abc"), (-1, b"", b""), (6, b"\x01\x02\x03\x04\x05\x06\x07", b"\x01\x02\x03\x04\x05\x06")):
        env = {fn.args.args[0].arg: Obj(size=size), fn.args.args[1].arg: value}
        if fn.args.vararg:
            env[fn.args.vararg.arg] = ()
        if fn.args.kwarg:
            env[fn.args.kwarg.arg] = {}
        kind, res = run_function(ctx, bt.module, fn, env, deep=False)
        _report(ctx, ckey(bt.key + "._encode", f"witness:{size}:{value.hex()}"), fn, f"n_bytes({size}).encode({value!r})", (kind, res), ("return", want), "BytesDataType._encode")


rule("C09", "D9.10", "T-WITNESS", floor=8)(_bytes_and_symbol_rule)
rule("C06", "D6.13", "T-WITNESS", floor=8)(_bytes_and_symbol_rule)


# ---------------------------------------------------------------------------------------------------------------- FixedSizeString
def _fixedstring_rule(ctx, allow_refusal=False):
    """The generated fixed-capacity string class folded on witnesses (capacity 6, UDINT / UINT length prefix; the encoding comes
    from the class family): encode = length prefix counting the characters kept, the characters cut to the capacity, zero
    padding up to the capacity - exactly prefix + capacity bytes for every input; decode reads the prefix and the whole
    capacity and returns the first `length` characters."""
    from ..consteval import ClassRef
    from ..miniinterp import Stream

    CT = "pycomm3.custom_types"
    fs = ctx.model.cls(f"{CT}:FixedSizeString.FixedSizeString")
    enc, dec = fs.methods["_encode"], fs.methods["_decode"]
    fac = fs.enclosing
    params = [a.arg for a in fac.args.args]
    udint = ClassRef(ctx.model.cls("pycomm3.cip.data_types:UDINT"))
    uint = ClassRef(ctx.model.cls("pycomm3.cip.data_types:UINT"))
    encoding = ctx.folder.class_attr(fs, "encoding")
    if not isinstance(encoding, str):
        ctx.undecided(ckey(fs.key, "witness"), fs.node, "the string family's encoding is not a constant")
        return
    from ..miniinterp import Interp, _Unknown

    def cls_w(size, lt):
        it = Interp(ctx, fs.module)
        env = {params[0]: size, params[1]: lt}
        try:
            attrs = {name: it.ev(expr, env) for name, expr in fs.attrs.items()}
        except _Unknown as u:
            return f"class attributes not foldable: {u.why}"
        return Obj(kind="fixed-string", _ci=fs, _is_class=True, encoding=encoding, **attrs)

    def hook(call, env, it):
        f = call.func
        if isinstance(f, ast.Attribute) and f.attr == "_stream_read" and isinstance(f.value, ast.Name) and f.value.id == "cls":
            s_, n_ = it.ev(call.args[0], env), it.ev(call.args[1], env)
            got = s_.read(n_)
            if not got and n_:
                raise _Raise("BufferEmptyError")
            if len(got) != n_:
                raise _Raise("DataError")
            return got
        return UNKNOWN

    need = sorted({n.attr for m in (enc, dec) for n in ast.walk(m) if isinstance(n, ast.Attribute) and isinstance(n.value, ast.Name) and n.value.id == "cls" and isinstance(n.ctx, ast.Load)} - {"_stream_read", "encoding"})
    for label, size, lt, lt_bytes in (("capacity 6, UDINT prefix", 6, udint, 4), ("capacity 6, UINT prefix", 6, uint, 2)):
        c = cls_w(size, lt)
        if isinstance(c, str):
            ctx.undecided(ckey(fs.key, f"witness:{label}"), fs.node, c)
            continue
        missing = [a for a in need if a not in c.__dict__]
        if missing:
            ctx.violation(ckey(fs.key, f"class-attributes:{label}"), fs.node, f"FixedSizeString's codec reads cls.{missing} but the generated class does not define it")
            continue
        # (the length prefix governs: NUL characters inside it are characters, also when the string fills its capacity)
        for value, kept in (("abc", "abc"), ("", ""), ("abcdef", "abcdef"), ("abcdefgh", "abcdef"), ("abcd\x00\x00", "abcd\x00\x00"), ("a\x00", "a\x00"), ("\x00" * 6, "\x00" * 6)):
            env = {enc.args.args[0].arg: c, enc.args.args[1].arg: value}
            if enc.args.vararg:
                env[enc.args.vararg.arg] = ()
            if enc.args.kwarg:
                env[enc.args.kwarg.arg] = {}
            kind, res = run_function(ctx, fs.module, enc, env, call_hook=hook, deep=False)
            want = len(kept).to_bytes(lt_bytes, "little") + kept.encode(encoding) + bytes(size - len(kept))
            res = bytes(res) if isinstance(res, bytearray) else res
            if allow_refusal and kept != value and kind == "raise":
                ctx.ok(ckey(fs.key + "._encode", f"witness:{label}:{value}"), enc, f"{label}: a value longer than the capacity is refused ({res}) - nothing beyond the capacity is written")
            else:
                _report(ctx, ckey(fs.key + "._encode", f"witness:{label}:{value}"), enc, f"{label}: encode({value!r})", (kind, res), ("return", want), "FixedSizeString._encode")
            st = Stream(want + b"\xaa\xbb")
            kind, res = run_function(ctx, fs.module, dec, {dec.args.args[0].arg: c, dec.args.args[1].arg: st}, call_hook=hook, deep=False)
            key = ckey(fs.key + "._decode", f"witness:{label}:{value}")
            if kind == "unknown":
                ctx.undecided(key, dec, f"FixedSizeString._decode not foldable: {res}")
            else:
                ctx.check(kind == "return" and res == kept and st.pos == lt_bytes + size, key, dec, f"{label}: decode -> {kept!r}, {lt_bytes + size} bytes consumed", f"FixedSizeString._decode of the encoding of {kept!r} gives {kind} {res!r} after {st.pos} byte(s); expected {kept!r} after {lt_bytes + size}")
        st = Stream((3).to_bytes(lt_bytes, "little") + b"ab")
        kind, res = run_function(ctx, fs.module, dec, {dec.args.args[0].arg: c, dec.args.args[1].arg: st}, call_hook=hook, deep=False)
        key = ckey(fs.key + "._decode", f"witness:{label}:truncated")
        if kind != "unknown":
            ctx.check(kind == "raise", key, dec, f"{label}: a truncated character block is refused", f"FixedSizeString._decode of a truncated block gives {kind} {res!r}")


def _fixedstring_bounded(ctx):
    """As D6.14, for the property that a write changes exactly the addressed data: the encoding never exceeds prefix +
    capacity bytes - an over-long value is cut to the capacity or refused."""
    _fixedstring_rule(ctx, allow_refusal=True)


rule("C02", "D2.15", "T-WITNESS", floor=8)(_fixedstring_bounded)
rule("C06", "D6.14", "T-WITNESS", floor=8)(_fixedstring_rule)
rule("C07", "D7.11", "T-WITNESS", floor=8)(_fixedstring_rule)
rule("C08", "D8.11", "T-WITNESS", floor=8)(_fixedstring_rule)


@rule("C05", "D5.17", "T-WITNESS", floor=3)
def d5_17(ctx):
    """_read_template folded on witness replies (generic_message is a marker): each request is Read Tag on the template object
    instance with the byte offset received so far (DINT) and the bytes still missing (UINT: definition size x 4 - 21 - offset);
    the loop continues while the reply status is 0x06, stops at 0, and anything else raises; the pieces are concatenated in
    order."""
    import struct as _st

    lx = _lx(ctx)
    fn = lx.methods["_read_template"]
    INS = ctx.folder.module_value(lx.module.name, "INSUFFICIENT_PACKETS")
    ev = lambda s_: ctx.folder.eval(ast.parse(s_, mode="eval").body, lx.module)  # noqa: E731
    total = 30 * 4 - 21
    for label, chunks, want in (("three pieces", [(INS, b"a" * 40), (INS, b"b" * 39), (0, b"c" * 20)], ("return", b"a" * 40 + b"b" * 39 + b"c" * 20)), ("one piece", [(0, b"z" * 99)], ("return", b"z" * 99)),
                                ("second piece refused", [(INS, b"a" * 40), (4, b"")], ("raise", "ResponseError"))):
        seen = []

        def gm(a, k, seen=seen, chunks=chunks):
            seen.append(dict(k))
            if len(seen) > len(chunks) + 2:
                raise _Raise("RuntimeError")  # the loop keeps asking after the scripted replies: stop it (reported by the request count)
            st, data = chunks[min(len(seen), len(chunks)) - 1]
            return Obj(kind="tag", value=_resp(st in (0, INS), service_status=st, data=data), error=None, _truth=True)

        kind, res = run_function(ctx, lx.module, fn, {"self": _me(), fn.args.args[1].arg: 0x123, fn.args.args[2].arg: 30}, call_hook=self_call("generic_message", gm), deep=False)
        key = ckey(lx.key + "._read_template", f"witness:{label}")
        if kind == "unknown":
            ctx.undecided(key, fn, f"_read_template not foldable on {label}: {res}")
            continue
        diffs = []
        if (kind, bytes(res) if isinstance(res, (bytes, bytearray)) else res) != want:
            diffs.append(f"gives {kind} {res!r} (expected {want[0]} {want[1]!r})")
        pos = 0
        for i, k in enumerate(seen[:len(chunks)]):
            want_data = _st.pack("<i", pos) + _st.pack("<H", total - pos)
            if k.get("request_data") != want_data or k.get("service") != ev("Services.read_tag") or k.get("class_code") != ev("ClassCode.template_object") or k.get("instance") != 0x123 or k.get("return_response_packet") is not True:
                diffs.append(f"request {i} asks {k.get('request_data')!r} of instance {k.get('instance')!r} (expected offset {pos}, {total - pos} bytes left: {want_data!r})")
                break
            pos += len(chunks[i][1])
        if len(seen) != len(chunks):
            diffs.append(f"{len(seen)} request(s) sent (expected {len(chunks)})")
        ctx.check(not diffs, key, fn, f"{label}: {len(chunks)} request(s), offsets advance by the bytes received", f"template read ({label}): {diffs[:2]}", witness=label)


@rule("C05", "D5.18", "T-WITNESS", floor=6)
def d5_18(ctx):
    """_parse_template_data_member_info folded on witness member records (8 bytes: UINT info, UINT type, UDINT offset; the
    structure lookup and the Array factory are markers): an elementary type code gives an atomic member of that type, BOOL takes
    the info field as its bit number, every other member takes it as its array length (an Array of that length when non-zero);
    a code that is no elementary type is a structure looked up by its low 12 bits, with the definition's name."""
    import struct as _st

    from ..consteval import ClassRef

    lx = _lx(ctx)
    fn = lx.methods["_parse_template_data_member_info"]
    width = ctx.folder.module_value("pycomm3.const", "TEMPLATE_MEMBER_INFO_LEN")
    ctx.check(width == 8, ckey("pycomm3.const:TEMPLATE_MEMBER_INFO_LEN"), fn, "a member record is 8 bytes", f"TEMPLATE_MEMBER_INFO_LEN is {width!r}; a template member record is UINT info + UINT type + UDINT offset = 8 bytes")
    udt = {"name": "udt7", "type_class": ("tc", "udt7")}
    cases = [
        ("DINT scalar", (0, 0xC4, 4), {"offset": 4, "tag_type": "atomic", "data_type": "DINT", "data_type_name": "DINT", "array": 0, "type_class": "DINT"}, None),
        ("BOOL, bit 3", (3, 0xC1, 8), {"offset": 8, "tag_type": "atomic", "data_type": "BOOL", "data_type_name": "BOOL", "bit": 3, "type_class": "BOOL"}, None),
        ("BOOL, bit 0", (0, 0xC1, 9), {"offset": 9, "tag_type": "atomic", "data_type": "BOOL", "data_type_name": "BOOL", "bit": 0, "type_class": "BOOL"}, None),
        ("INT[5]", (5, 0xC3, 12), {"offset": 12, "tag_type": "atomic", "data_type": "INT", "data_type_name": "INT", "array": 5, "type_class": ("Array", 5, "INT")}, None),
        ("structure", (0, 0x8123, 16), {"offset": 16, "tag_type": "struct", "data_type": udt, "data_type_name": "udt7", "array": 0, "type_class": ("tc", "udt7")}, (0x123, 0x8123)),
        ("structure[2]", (2, 0x8123, 0x10020), {"offset": 0x10020, "tag_type": "struct", "data_type": udt, "data_type_name": "udt7", "array": 2, "type_class": ("Array", 2, ("tc", "udt7"))}, (0x123, 0x8123)),
        ("LINT[1]", (1, 0xC5, 24), {"offset": 24, "tag_type": "atomic", "data_type": "LINT", "data_type_name": "LINT", "array": 1, "type_class": ("Array", 1, "LINT")}, None),
    ]

    def norm(v):
        if isinstance(v, ClassRef):
            return v.ci.name
        if isinstance(v, tuple):
            return tuple(norm(x) for x in v)
        return v

    for label, (info, typ, off), want, want_lookup in cases:
        lookups = []

        def hook(call, env, it, lookups=lookups):
            n = call_name(call) or ""
            if n == "Array" and isinstance(call.func, ast.Name):
                kw = {k.arg: it.ev(k.value, env) for k in call.keywords}
                a = [it.ev(x, env) for x in call.args]
                return ("Array", kw.get("length_", a[0] if a else None), kw.get("element_type_", a[1] if len(a) > 1 else None))
            if attr_path(call.func) == "self._get_data_type":
                lookups.append(tuple(it.ev(x, env) for x in call.args))
                return dict(udt)
            if n in ("str", "repr") and isinstance(call.func, ast.Name) and len(call.args) == 1:
                v = it.ev(call.args[0], env)
                if isinstance(v, ClassRef):
                    return v.ci.name
            return UNKNOWN

        rec = _st.pack("<HHI", info, typ, off)
        kind, res = run_function(ctx, lx.module, fn, {"self": _me(), fn.args.args[1].arg: rec}, call_hook=hook, deep=False)
        key = ckey(lx.key + "._parse_template_data_member_info", f"witness:{label}")
        if kind == "unknown":
            ctx.undecided(key, fn, f"_parse_template_data_member_info not foldable on {label}: {res}")
            continue
        got = {k: norm(v) for k, v in res.items()} if kind == "return" and isinstance(res, dict) else res
        ok = kind == "return" and got == want and lookups == ([want_lookup] if want_lookup else [])
        ctx.check(ok, key, fn, f"{label}: {want}", f"member record {rec.hex()} ({label}) gives {kind} {got!r} with structure lookups {lookups!r}; expected {want!r}" + (f" after one lookup of {want_lookup!r}" if want_lookup else " without a structure lookup"), witness=label)


@rule("C05", "D5.19", "T-WITNESS", floor=2)
def d5_19(ctx):
    """_get_structure_makeup and _get_data_type folded on witness template instances (the attribute request, the template read and
    the template parser are markers): every template instance is asked for once and kept under its own instance id; every
    instance gets the definition parsed from its own template - also when two instances report the same structure handle (the
    handle is a checksum: different structures may share it) - and the definition is registered under its name; a second request
    for the same instance uploads nothing."""
    lx = _lx(ctx)
    gsm, gdt = lx.methods["_get_structure_makeup"], lx.methods["_get_data_type"]
    templates = {0x100: {"object_definition_size": 30, "structure_size": 8, "member_count": 2, "structure_handle": 0x5EED},
                 0x200: {"object_definition_size": 40, "structure_size": 12, "member_count": 3, "structure_handle": 0x5EED},
                 0x300: {"object_definition_size": 50, "structure_size": 16, "member_count": 4, "structure_handle": 0x1111}}
    # ---- _get_structure_makeup
    asked = []

    requests = []

    def gm_hook(call, env, it):
        # (the reply type is a structure class built at import time: it is not evaluated; the reply value has its decoded shape)
        if attr_path(call.func) == "self.generic_message":
            kw = {k.arg: it.ev(k.value, env) for k in call.keywords if k.arg not in ("data_type", "name")}
            inst = kw.get("instance")
            asked.append(inst)
            requests.append(kw)
            t = templates[inst]
            value = {"count": 4, "object_definition_size": {"attr_num": 4, "status": 0, "size": t["object_definition_size"]}, "structure_size": {"attr_num": 5, "status": 0, "size": t["structure_size"]},
                     "member_count": {"attr_num": 2, "status": 0, "count": t["member_count"]}, "structure_handle": {"attr_num": 1, "status": 0, "handle": t["structure_handle"]}}
            return _resp(True, value=value, error=None)
        return UNKNOWN

    parse_attrs = lambda call, env, it: UNKNOWN  # noqa: E731  (the attribute parser is folded as it stands)
    me = _me(_cache={"id:struct": {}, "handle:id": {}, "id:udt": {}}, _data_types={})
    outs = []
    for iid in (0x100, 0x200, 0x100, 0x300):
        kind, res = run_function(ctx, lx.module, gsm, {"self": me, gsm.args.args[1].arg: iid}, call_hook=chain(parse_attrs, gm_hook), deep=False)
        outs.append((kind, res))
    key = ckey(lx.key + "._get_structure_makeup", "witness")
    if any(k == "unknown" for k, _ in outs):
        ctx.undecided(key, gsm, f"_get_structure_makeup not foldable: {[r for k, r in outs if k == 'unknown'][0]}")
    else:
        want = [("return", templates[i]) for i in (0x100, 0x200, 0x100, 0x300)]
        ctx.check(outs == want and asked == [0x100, 0x200, 0x300] and me._cache["id:struct"] == templates, key, gsm, "each instance asked once, kept under its own id, returned as parsed",
                  f"_get_structure_makeup for instances 0x100, 0x200, 0x100, 0x300 gives {outs!r} after asking {asked!r}; expected each instance's own attributes, asked once each")
        ev_ = lambda s_: ctx.folder.eval(ast.parse(s_, mode="eval").body, lx.module)  # noqa: E731
        want_ids = ctx.spec("helpers")["structure_makeup"]["attributes_requested"]
        want_data = len(want_ids).to_bytes(2, "little") + b"".join(i_.to_bytes(2, "little") for i_ in want_ids)
        r0 = requests[0] if requests else {}
        ctx.check(r0.get("request_data") == want_data and r0.get("service") == ev_("Services.get_attribute_list") and r0.get("class_code") == ev_("ClassCode.template_object") and r0.get("connected") is True,
                  ckey(lx.key + "._get_structure_makeup", "request"), gsm, f"Get Attribute List of attributes {want_ids} on the template object, connected",
                  f"the template attribute request is {dict((k_, v_) for k_, v_ in r0.items() if k_ in ('service', 'class_code', 'connected', 'request_data'))!r}; expected Get Attribute List, template object, connected, data {want_data.hex()} (count + attributes {want_ids})")
    # a refused attribute request is an error, not a definition
    kind, res = run_function(ctx, lx.module, gsm, {"self": _me(_cache={"id:struct": {}, "handle:id": {}, "id:udt": {}}, _data_types={}), gsm.args.args[1].arg: 0x100},
                             call_hook=lambda call, env, it: _resp(False, value=None, error="Service not supported") if attr_path(call.func) == "self.generic_message" else UNKNOWN, deep=False)
    if kind != "unknown":
        ctx.check(kind == "raise" and res == "ResponseError", ckey(lx.key + "._get_structure_makeup", "witness:refused"), gsm, "a refused attribute request raises ResponseError", f"_get_structure_makeup on a refused request gives {kind} {res!r}")
    # ---- _get_data_type
    reads, parses = [], []

    def hook(call, env, it):
        path = attr_path(call.func) or ""
        if path == "self._read_template":
            a = [it.ev(x, env) for x in call.args]
            reads.append(tuple(a))
            return ("raw", a[0])
        if path == "self._parse_template_data":
            a = [it.ev(x, env) for x in call.args]
            parses.append((a[0], a[1].get("structure_size"), a[2]))
            return {"name": f"T{a[0][1]:x}", "from": a[0]}
        return UNKNOWN

    me = _me(_cache={"id:struct": {}, "handle:id": {}, "id:udt": {}}, _data_types={})
    outs = []
    for iid, st in ((0x100, 0x8100), (0x200, 0x8200), (0x100, 0x8100), (0x300, 0x8300), (0x200, 0x8200)):
        # (_get_structure_makeup is folded as it stands - the two methods share the handle cache - down to the attribute request)
        kind, res = run_function(ctx, lx.module, gdt, {"self": me, gdt.args.args[1].arg: iid, gdt.args.args[2].arg: st}, call_hook=chain(hook, parse_attrs, gm_hook), deep=False)
        outs.append((kind, res))
    key = ckey(lx.key + "._get_data_type", "witness")
    if any(k == "unknown" for k, _ in outs):
        ctx.undecided(key, gdt, f"_get_data_type not foldable: {[r for k, r in outs if k == 'unknown'][0]}")
    else:
        d = lambda i: {"name": f"T{i:x}", "from": ("raw", i)}  # noqa: E731
        want = [("return", d(i)) for i in (0x100, 0x200, 0x100, 0x300, 0x200)]
        diffs = []
        if outs != want:
            diffs.append(f"definitions returned {[r.get('name') if isinstance(r, dict) else r for _, r in outs]!r} (expected T100, T200, T100, T300, T200: every instance its own, also with a shared structure handle)")
        if reads != [(0x100, 30), (0x200, 40), (0x300, 50)]:
            diffs.append(f"templates read {reads!r} (expected each instance once with its own definition size)")
        if [p_[1:] for p_ in parses] != [(8, 0x8100), (12, 0x8200), (16, 0x8300)] or [p_[0] for p_ in parses] != [("raw", 0x100), ("raw", 0x200), ("raw", 0x300)]:
            diffs.append(f"parser calls {parses!r}")
        if me._data_types != {"T100": d(0x100), "T200": d(0x200), "T300": d(0x300)}:
            diffs.append(f"registered definitions {sorted(me._data_types)!r}")
        ctx.check(not diffs, key, gdt, "five requests over three instances (two sharing a structure handle): each its own definition, uploaded once, registered by name", f"_get_data_type: {diffs[:2]}")


# ---------------------------------------------------------------------------------------------------------------- identity objects
def _ipv4_hook(call, env, it):
    """The IPv4 address class of the standard library as a witness (a pure function of its argument)."""
    import ipaddress as _ip

    path = attr_path(call.func) or ""
    if path in ("ipaddress.IPv4Address", "IPv4Address", "ipaddress.ip_address", "ip_address"):
        v = it.ev(call.args[0], env)
        try:
            a = _ip.IPv4Address(bytes(v) if isinstance(v, (bytes, bytearray)) else v)
        except (ValueError, TypeError):
            raise _Raise("ValueError")
        return Obj(kind="ipv4", exploded=a.exploded, compressed=a.compressed, packed=a.packed, _text=str(a))
    if (call_name(call) or "") == "str" and len(call.args) == 1:
        v = it.ev(call.args[0], env)
        if isinstance(v, Obj) and v.__dict__.get("kind") == "ipv4":
            return v._text
    if path in ("socket.inet_ntoa", "inet_ntoa"):
        return str(_ip.IPv4Address(bytes(it.ev(call.args[0], env))))
    if path in ("socket.inet_aton", "inet_aton"):
        return _ip.IPv4Address(it.ev(call.args[0], env)).packed
    return UNKNOWN



def _ipaddress_rule(ctx):
    """The IPAddress codec folded on witnesses: four bytes <-> dotted quad, both ways, exactly four bytes consumed; fewer bytes and
    text that is no IPv4 address are refused."""
    from ..miniinterp import Stream, fold_method

    ip = ctx.model.cls("pycomm3.custom_types:IPAddress")
    cw = Obj(_ci=ip, _is_class=True)
    for quad in ((10, 20, 30, 40), (0, 0, 0, 0), (255, 255, 255, 255), (192, 168, 1, 100), (1, 2, 3, 4)):
        text, raw = ".".join(map(str, quad)), bytes(quad)
        st = Stream(raw + b"\x99")
        kind, res = fold_method(ctx, cw, "decode", [st], {}, _ipv4_hook)
        key = ckey(ip.key, f"witness:decode:{text}")
        if kind == "unknown":
            ctx.undecided(key, ip.node, f"IPAddress.decode not foldable on {raw.hex()}: {res}")
        else:
            ctx.check(kind == "return" and res == text and st.pos == 4, key, ip.node, f"{raw.hex()} -> {text}, four bytes consumed", f"IPAddress.decode({raw.hex()}) gives {kind} {res!r} after {st.pos} byte(s); expected {text!r} after 4")
        kind, res = fold_method(ctx, cw, "encode", [text], {}, _ipv4_hook)
        key = ckey(ip.key, f"witness:encode:{text}")
        if kind == "unknown":
            ctx.undecided(key, ip.node, f"IPAddress.encode not foldable on {text}: {res}")
        else:
            res = bytes(res) if isinstance(res, bytearray) else res
            ctx.check(kind == "return" and res == raw, key, ip.node, f"{text} -> {raw.hex()}", f"IPAddress.encode({text!r}) gives {kind} {res!r}; expected {raw.hex()}")
    for label, meth, arg in (("three bytes", "decode", Stream(b"\x0a\x14\x1e")), ("an empty stream", "decode", Stream(b"")), ("text that is no address", "encode", "300.1.1.1"), ("an incomplete address", "encode", "10.0.0")):
        kind, res = fold_method(ctx, cw, meth, [arg], {}, _ipv4_hook)
        key = ckey(ip.key, f"witness:refused:{label}")
        if kind == "unknown":
            ctx.undecided(key, ip.node, f"IPAddress.{meth} not foldable on {label}: {res}")
        else:
            ctx.check(kind == "raise" and res in ("DataError", "BufferEmptyError"), key, ip.node, f"{meth} of {label} is refused", f"IPAddress.{meth} of {label} gives {kind} {res!r} instead of DataError")


rule("C16", "D16.11", "T-WITNESS", floor=10)(_ipaddress_rule)


def _identity_rule(ctx):
    """The identity structures folded end to end on witness identities (the real codecs of every member are interpreted: the
    structure classes, their named members, Revision, the status bytes, the short string; only the IPv4 address class of the
    standard library is a marker): the bytes an independent packing of the Identity object / ListIdentity item layout gives decode
    to exactly the vendor and product-type names (UNKNOWN for ids outside the tables), product code, major / minor revision 0..255,
    the two status bytes, the serial as 8 hex digits, the product name (Latin-1, length 0..n), and for ListIdentity the
    encapsulation version, IPv4 address and state; every byte of the item is consumed and nothing behind it; encoding a decoded
    identity gives the bytes back."""
    import ipaddress as _ip
    import struct as _st

    from ..miniinterp import Stream, fold_method

    CT = "pycomm3.custom_types"
    mio, lio = ctx.model.cls(f"{CT}:ModuleIdentityObject"), ctx.model.cls(f"{CT}:ListIdentityObject")
    vendors = ctx.folder.module_value("pycomm3.cip.status_info", "VENDORS")
    ptypes = ctx.folder.module_value("pycomm3.cip.status_info", "PRODUCT_TYPES")
    if not (isinstance(vendors, dict) and isinstance(ptypes, dict)):
        ctx.undecided(ckey(mio.key, "witness"), mio.node, "VENDORS / PRODUCT_TYPES are not constant tables")
        return

    unknown_v = next(i for i in range(0xFFFE, 0, -1) if i not in vendors)
    unknown_p = next(i for i in range(0xFFFE, 0, -1) if i not in ptypes)
    known_v = [i for i in sorted(k for k in vendors if isinstance(k, int)) if i > 0][:1] + [max(k for k in vendors if isinstance(k, int))]
    known_p = [i for i in sorted(k for k in ptypes if isinstance(k, int)) if i > 0][:1] + [max(k for k in ptypes if isinstance(k, int))]
    idents = [
        ("typical", known_v[0], known_p[0], 55, 20, 11, b"\x30\x60", 0x00C0FFEE, "1756-L61/B LOGIX5561"),
        ("ids outside the tables, empty name, zeros", unknown_v, unknown_p, 0, 0, 0, b"\x00\x00", 0, ""),
        ("largest values, Latin-1 name", known_v[-1], known_p[-1], 65535, 255, 255, b"\xff\xff", 0xFFFFFFFF, "Antrieb \xe9\xfc\xdf " + "x" * 40),
        ("major revision 128, serial with leading zeros", known_v[0], known_p[-1], 1, 128, 1, b"\x01\x00", 0x12, "A"),
        ("major revision 148", known_v[0], known_p[0], 300, 148, 7, b"\x00\x80", 0x80000000, "PLC"),
    ]

    def body(v, p, code, major, minor, status, serial, name):
        n = name.encode("iso-8859-1")
        return _st.pack("<HHHBB", v, p, code, major, minor) + status + _st.pack("<I", serial) + bytes([len(n)]) + n

    def want(v, p, code, major, minor, status, serial, name):
        return {"vendor": vendors.get(v, "UNKNOWN"), "product_type": ptypes.get(p, "UNKNOWN"), "product_code": code, "revision": {"major": major, "minor": minor}, "status": status, "serial": f"{serial:08x}", "product_name": name}

    for ci, is_list in ((mio, False), (lio, True)):
        for label, *f in idents:
            raw = body(*f)
            exp = want(*f)
            if is_list:
                raw = _st.pack("<HHH", 0x0C, len(raw) + 21, 1) + b"\x00\x02\xaf\x12" + bytes([10, 20, 30, 40]) + bytes(8) + raw + b"\x03"
                exp = dict({"encap_protocol_version": 1, "ip_address": "10.20.30.40"}, **exp, state=3)
            st = Stream(raw + b"\x99\x99")
            kind, res = fold_method(ctx, Obj(_ci=ci, _is_class=True), "decode", [st], {}, _ipv4_hook)
            key = ckey(ci.key, f"witness:decode:{label}")
            if kind == "unknown":
                ctx.undecided(key, ci.node, f"{ci.name}.decode not foldable on {label}: {res}")
                continue
            ok = kind == "return" and res == exp and st.pos == len(raw)
            diff = {k_: (res.get(k_), exp.get(k_)) for k_ in set(exp) | set(res)} if isinstance(res, dict) else res
            diff = {k_: v_ for k_, v_ in diff.items() if v_[0] != v_[1]} if isinstance(diff, dict) else diff
            ctx.check(ok, key, ci.node, f"{ci.name}: {label}: every field as encoded, {len(raw)} bytes consumed",
                      f"{ci.name}.decode of the identity '{label}' ({raw.hex()[:80]}...): {kind}, fields that differ (got, encoded) {diff!r}, {st.pos} of {len(raw)} bytes consumed", witness=label)
            if is_list or kind != "return" or f[0] == unknown_v:
                continue
            given = dict(exp, revision=dict(exp["revision"]))
            k2, enc = fold_method(ctx, Obj(_ci=ci, _is_class=True), "encode", [given], {}, _ipv4_hook)
            if k2 == "return" and given != exp:
                ctx.violation(ckey(ci.key, f"witness:encode-argument:{label}"), ci.node, f"{ci.name}.encode modifies the identity it is given: {given!r} (was {exp!r})")
            key = ckey(ci.key, f"witness:encode:{label}")
            if k2 == "unknown":
                ctx.undecided(key, ci.node, f"{ci.name}.encode not foldable on {label}: {enc}")
                continue
            enc = bytes(enc) if isinstance(enc, bytearray) else enc
            ctx.check(k2 == "return" and enc == raw, key, ci.node, f"{ci.name}: {label}: encode(decode(x)) == x", f"{ci.name}.encode of the decoded identity '{label}' gives {k2} {enc.hex() if isinstance(enc, bytes) else enc!r}; the identity was {raw.hex()}")


rule("C16", "D16.10", "T-WITNESS", floor=12)(_identity_rule)
rule("C06", "D6.16", "T-WITNESS", floor=12)(_identity_rule)


@rule("C05", "D5.20", "T-WITNESS", floor=6)
def d5_20(ctx):
    """LogixDriver._initialize_driver folded on witness identities (identity / info / name / tag-list requests are witness
    callables): a Micro800 (catalog prefix 2080) gets no instance addressing, no name request, and the trailing backplane segment of
    its route stripped (a route that is empty or ends in something else is left alone); any other controller keeps its route, is
    asked for its name, and uses instance addressing from major revision 21; the tag list is uploaded only when asked for, with
    every program ('*') only when program tags are asked for too."""
    lx = _lx(ctx)
    fn = lx.methods["_initialize_driver"]
    ps = ctx.model.cls("pycomm3.cip.data_types:PortSegment")
    seg = lambda: Obj(_ci=ps, port="bp", link_address=0)  # noqa: E731
    p = [a.arg for a in fn.args.args]
    cases = [
        ("ControlLogix v32, tags and program tags", "1756-L83E/B", 32, "seg", True, True, dict(micro=False, ids=True, name=1, route=1, tag_list=[{"program": "*"}])),
        ("ControlLogix v32, controller tags only", "1756-L83E/B", 32, "seg", True, False, dict(micro=False, ids=True, name=1, route=1, tag_list=[{"program": None}])),
        ("ControlLogix v32, no tag upload", "1756-L83E/B", 32, "seg", False, True, dict(micro=False, ids=True, name=1, route=1, tag_list=[])),
        ("ControlLogix v21 (first with instance ids)", "1756-L61", 21, "seg", False, False, dict(micro=False, ids=True, name=1, route=1, tag_list=[])),
        ("ControlLogix v20", "1756-L61", 20, "seg", False, False, dict(micro=False, ids=False, name=1, route=1, tag_list=[])),
        ("controller without a route", "1769-L33ER", 30, "none", False, False, dict(micro=False, ids=True, name=1, route=0, tag_list=[])),
        ("Micro800 with the auto backplane segment", "2080-LC50-48QWB", 30, "seg", True, True, dict(micro=True, ids=False, name=0, route=0, tag_list=[{"program": "*"}])),
        ("Micro800 without a route", "2080-LC20-20QBB", 30, "none", False, False, dict(micro=True, ids=False, name=0, route=0, tag_list=[])),
        ("Micro800 whose route ends in raw bytes", "2080-LC50-48QWB", 30, "bytes", False, False, dict(micro=True, ids=False, name=0, route=1, tag_list=[])),
        ("Micro800 behind two segments", "2080-LC50-48QWB", 30, "two", False, False, dict(micro=True, ids=False, name=0, route=1, tag_list=[])),
    ]
    for label, product, major, route, init_tags, init_prog, want in cases:
        names, lists = [], []
        path = {"seg": [seg()], "none": [], "bytes": [b"\x01\x00"], "two": [seg(), seg()]}[route]
        me = _me(_cfg={"cip_path": path}, _info={}, _micro800=None,
                 _list_identity=PyFunc(lambda: {"product_name": product, "vendor": "Rockwell"}, "_list_identity"),
                 get_plc_info=PyFunc(lambda: {"revision": {"major": major, "minor": 1}, "product_name": product}, "get_plc_info"),
                 get_plc_name=PyFunc(lambda: names.append(1) or "PLC", "get_plc_name"),
                 get_tag_list=PyFunc(lambda *a, **k: lists.append(dict(k, **({"program": a[0]} if a else {}))) or [], "get_tag_list"))
        kind, res = run_function(ctx, lx.module, fn, {"self": me, p[1]: init_tags, p[2]: init_prog}, deep=False)
        key = ckey(lx.key + "._initialize_driver", f"witness:{label}")
        if kind == "unknown":
            ctx.undecided(key, fn, f"_initialize_driver not foldable on {label}: {res}")
            continue
        got = dict(micro=bool(me._micro800), ids=me._cfg.get("use_instance_ids"), name=len(names), route=len(me._cfg["cip_path"]), tag_list=[{"program": l_.get("program")} for l_ in lists])
        ctx.check(kind == "return" and got == want, key, fn, f"{label}: {want}", f"_initialize_driver on {label} gives {kind} {res!r} with {got!r}; expected {want!r} (micro = Micro800 detected, ids = instance addressing, name = name requests, route = segments left, tag_list = uploads)", witness=label)


rule("C15", "D15.13", "T-WITNESS", floor=6)(d5_20)


# ---------------------------------------------------------------------------------------------------------------- socket framing
def _socket_rule(ctx):
    """Socket.receive and Socket.send folded on witness TCP segmentations (the OS socket is a marker that hands out what is left of
    the current segment, at most the size asked for, and b"" once the peer has closed): whatever the segmentation, `receive`
    returns exactly the 24-byte header plus the number of bytes its length field announces - never less, and it does not wait for
    more once the frame is complete; a peer that closes before that is CommError, and so is a socket error; `send` hands the
    remainder to the OS until every byte is accepted, and a send that accepts nothing is CommError."""
    so = ctx.model.cls("pycomm3.socket_:Socket")
    rcv, snd = so.methods["receive"], so.methods["send"]
    hdr = lambda n: b"\x6f\x00" + n.to_bytes(2, "little") + bytes(range(20))  # noqa: E731

    def run_receive(segments, fail_at=None, fail_with="socket.timeout"):
        segs = [bytes(x) for x in segments]
        calls = []

        def os_recv(n, *flags):
            calls.append(n)
            if fail_at is not None and len(calls) > fail_at:
                raise _Raise(fail_with)
            if len(calls) > 200:
                raise _Raise("RuntimeError")  # (a loop that never completes: reported through the outcome)
            if not isinstance(n, int) or isinstance(n, bool) or n <= 0:
                raise _Raise("ValueError")
            while segs and not segs[0]:
                segs.pop(0)
            if not segs:
                return b""
            out, segs[0] = segs[0][:n], segs[0][n:]
            return out

        hook = None
        # (the OS socket is a witness object whose methods are witness callables: wherever the code calls them - in `receive`, in a
        # helper method, in a module-level helper handed the socket - the call lands here)
        me = Obj(_ci=so, sock=Obj(kind="os-socket", recv=PyFunc(os_recv, "recv"), settimeout=PyFunc(lambda *a: None, "settimeout"), setsockopt=PyFunc(lambda *a: None, "setsockopt")))
        env = {"self": me}
        for a_, d_ in zip([x.arg for x in rcv.args.args][-len(rcv.args.defaults):] if rcv.args.defaults else [], rcv.args.defaults):
            env[a_] = ctx.folder.eval(d_, so.module)
        kind, res = run_function(ctx, so.module, rcv, env, call_hook=hook, deep=False)
        left = b"".join(segs)
        return kind, (bytes(res) if isinstance(res, (bytes, bytearray)) else res), left, calls

    def split(data, sizes):
        out, i = [], 0
        for n in sizes:
            out.append(data[i:i + n])
            i += n
        out.append(data[i:])
        return [x for x in out if x]

    frames = [("no data", hdr(0)), ("1 byte of data", hdr(1) + b"\xaa"), ("20 bytes of data", hdr(20) + bytes(range(100, 120))), ("232 bytes of data (frame = one 256-byte read)", hdr(232) + bytes(232)),
              ("233 bytes of data", hdr(233) + bytes(233)), ("600 bytes of data", hdr(600) + bytes(i % 251 for i in range(600))), ("a length whose high byte counts (0x0102)", hdr(0x0102) + bytes(0x0102)),
              ("a length with the top bit set (0x8001)", hdr(0x8001) + bytes(i % 253 for i in range(0x8001)))]
    for flabel, frame in frames:
        n = len(frame)
        seglists = [("one segment", [frame]), ("byte by byte up to the header, rest at once", split(frame, [1] * 24)), ("header split 2 + 1 + 21", split(frame, [2, 1, 21])), ("header split 3 + 21", split(frame, [3, 21])),
                    ("23 + 1", split(frame, [23, 1])), ("24 + rest", split(frame, [24])), ("25 + rest", split(frame, [25])), ("all but the last byte, then the last", split(frame, [n - 1])),
                    ("small segments of 7", split(frame, [7] * (n // 7)))]
        if n > 4096:
            seglists = [seglists[0], seglists[5], seglists[7]]
        for slabel, segs in seglists:
            kind, res, left, calls = run_receive(segs)
            key = ckey(so.key + ".receive", f"witness:{flabel}:{slabel}")
            if kind == "unknown":
                ctx.undecided(key, rcv, f"receive not foldable ({flabel}, {slabel}): {res}")
                continue
            ctx.check(kind == "return" and res == frame and not left, key, rcv, f"{flabel}, {slabel}: the whole frame ({n} bytes) is returned",
                      f"receive on a frame with {flabel} arriving as {slabel} ({[len(x) for x in segs][:8]}...) gives {kind} {(str(len(res)) + ' bytes') if isinstance(res, bytes) else res!r} with {len(left)} byte(s) left unread; "
                      f"expected the complete {n}-byte frame (24-byte header + the {n - 24} bytes its length field announces)", witness=f"{flabel}/{slabel}")
        # a frame followed immediately by the next one in its own segment: nothing of the second is needed to finish the first
        kind, res, left, calls = run_receive([frame, hdr(0)])
        key = ckey(so.key + ".receive", f"witness:{flabel}:followed by another frame")
        if kind != "unknown":
            ctx.check(kind == "return" and isinstance(res, bytes) and res[:n] == frame and len(res) >= n, key, rcv, f"{flabel}: complete when its last byte has arrived", f"receive on {flabel} followed by another frame gives {kind} {res!r}"[:300])
    # the peer closes early / the socket fails
    cut = hdr(20) + bytes(20)
    for label, segs, fail_at, fail_with in (("peer closes inside the header", [cut[:10]], None, None), ("peer closes right after the header", [cut[:24]], None, None), ("peer closes inside the data", [cut[:30]], None, None),
                                            ("peer closes before the first byte", [], None, None), ("the socket times out after the header", [cut[:24]], 1, "socket.timeout"), ("the socket times out at once", [cut], 0, "socket.timeout"),
                                            ("the connection is reset inside the header", [cut[:10]], 1, "ConnectionResetError"), ("an OS error inside the data", [cut[:30]], 1, "OSError")):
        kind, res, left, calls = run_receive(segs, fail_at, fail_with or "socket.timeout")
        key = ckey(so.key + ".receive", f"witness:{label}")
        if kind == "unknown":
            ctx.undecided(key, rcv, f"receive not foldable ({label}): {res}")
            continue
        ctx.check((kind, res) == ("raise", "CommError") and len(calls) < 100, key, rcv, f"{label}: CommError", f"receive when {label} gives {kind} {res!r} after {len(calls)} recv call(s); expected CommError (a partial frame must never be returned, and the loop must not spin)")
    # ---- send
    msg = bytes(range(200)) * 3
    for label, accepts, want in (("everything at once", [600], ("return", 600)), ("in three parts", [100, 250, 250], ("return", 600)), ("one byte at a time at first", [1, 1, 598], ("return", 600)), ("all but the last byte, then the last", [599, 1], ("return", 600)),
                                 ("the OS accepts nothing", [100, 0], ("raise", "CommError")), ("the socket fails", [100, "fail"], ("raise", "CommError")), ("the socket fails at once", ["fail"], ("raise", "CommError")), ("the OS accepts nothing at once", [0], ("raise", "CommError"))):
        sent, script = [], list(accepts)

        def os_send(data, *flags, sent=sent, script=script):
            if len(sent) > 50:
                raise _Raise("RuntimeError")
            k_ = script.pop(0) if script else len(data)
            if k_ == "fail":
                raise _Raise("ConnectionResetError")
            k_ = min(k_, len(data))
            sent.append(bytes(data[:k_]))
            return k_

        hook = None
        env = {"self": Obj(_ci=so, sock=Obj(kind="os-socket", send=PyFunc(os_send, "send"), settimeout=PyFunc(lambda *a: None, "settimeout"))), snd.args.args[1].arg: msg}
        for a_, d_ in zip([x.arg for x in snd.args.args][-len(snd.args.defaults):] if snd.args.defaults else [], snd.args.defaults):
            env.setdefault(a_, ctx.folder.eval(d_, so.module))
        kind, res = run_function(ctx, so.module, snd, env, call_hook=hook, deep=False)
        key = ckey(so.key + ".send", f"witness:{label}")
        if kind == "unknown":
            ctx.undecided(key, snd, f"send not foldable ({label}): {res}")
            continue
        ok = (kind, res) == want and (want[0] == "raise" or b"".join(sent) == msg)
        ctx.check(ok, key, snd, f"send, {label}: {want[0]} {want[1]!r}" + (", every byte handed over once, in order" if want[0] == "return" else ""),
                  f"send when {label}: {kind} {res!r}, bytes handed to the OS {len(b''.join(sent))} of {len(msg)}" + ("" if b"".join(sent) == msg[:len(b"".join(sent))] else " (not a prefix of the message: bytes repeated or skipped)"))


rule("C12", "D12.7", "T-WITNESS", floor=60)(_socket_rule)
rule("C11", "D11.12", "T-WITNESS", floor=60)(_socket_rule)


# ---------------------------------------------------------------------------------------------------------------- path segments
def _segment_rule(ctx):
    """Logical and port segments and the EPATH assembler folded on witnesses, against the bytes CIP Vol.1 appendix C prescribes:
    a logical segment is 0x20 | type | format (8 / 16 / 32-bit chosen by the value, a pad byte after the segment byte in the
    padded form when the value is wider than one byte) followed by the little-endian value, values above 32 bits and unknown
    types are refused; a port segment is the port number (1..14) with the extended-link bit and a length byte when the link
    is longer than one byte, numeric links range-checked as one byte, text links validated as IP addresses, the whole padded
    to even length; an EPATH concatenates its segments in order (bytes pass through), asks each for the padded / packed form
    of its class, and prefixes the word count (plus a reserved byte when asked)."""
    import ipaddress as _ip

    DTm = "pycomm3.cip.data_types"
    ls = ctx.model.cls(f"{DTm}:LogicalSegment")
    fn = ls.methods["_encode"]
    pnames = [a.arg for a in fn.args.args]
    lcases = [
        ((5, "class_id"), False, b"\x20\x05"), ((0x6B, "class_id"), True, b"\x20\x6b"), ((5, "instance_id"), True, b"\x24\x05"), ((0, "instance_id"), True, b"\x24\x00"), ((255, "instance_id"), True, b"\x24\xff"),
        ((256, "instance_id"), True, b"\x25\x00\x00\x01"), ((256, "instance_id"), False, b"\x25\x00\x01"), ((300, "class_id"), True, b"\x21\x00\x2c\x01"), ((65535, "instance_id"), True, b"\x25\x00\xff\xff"),
        ((65536, "instance_id"), True, b"\x26\x00\x00\x00\x01\x00"), ((65536, "instance_id"), False, b"\x26\x00\x00\x01\x00"), ((0xFFFFFFFF, "instance_id"), True, b"\x26\x00\xff\xff\xff\xff"),
        ((2, "member_id"), True, b"\x28\x02"), ((300, "member_id"), True, b"\x29\x00\x2c\x01"), ((1, "connection_point"), True, b"\x2c\x01"), ((7, "attribute_id"), True, b"\x30\x07"), ((0x4C, "service_id"), True, b"\x38\x4c"),
        ((b"\x01", "class_id"), True, b"\x20\x01"), ((b"\x2c\x01", "instance_id"), True, b"\x25\x00\x2c\x01"), ((b"\x2c\x01", "instance_id"), False, b"\x25\x2c\x01"),
    ]
    for (val, typ), padded, want in lcases:
        kind, res = run_function(ctx, ls.module, fn, {pnames[0]: Obj(_ci=ls, _is_class=True), pnames[1]: _constructed(ctx, ls, val, typ) or Obj(logical_value=val, logical_type=typ), pnames[2]: padded}, deep=False)
        res = bytes(res) if isinstance(res, bytearray) else res
        _report(ctx, ckey(ls.key + "._encode", f"witness:{val!r}:{typ}:{'padded' if padded else 'packed'}"), fn, f"logical segment {typ} {val!r} ({'padded' if padded else 'packed'})", (kind, res), ("return", want), "LogicalSegment._encode")
    for (val, typ), label in (((0x1_0000_0000, "instance_id"), "a value above 32 bits"), ((5, "no_such_type"), "an unknown logical type"), ((b"\x01\x02\x03", "instance_id"), "a 3-byte value")):
        kind, res = run_function(ctx, ls.module, fn, {pnames[0]: Obj(_ci=ls, _is_class=True), pnames[1]: Obj(logical_value=val, logical_type=typ), pnames[2]: True}, deep=False)
        key = ckey(ls.key + "._encode", f"refused:{label}")
        if kind == "unknown":
            ctx.undecided(key, fn, f"LogicalSegment._encode not foldable on {label}: {res}")
        else:
            ctx.check(kind == "raise", key, fn, f"{label} is refused", f"LogicalSegment._encode of {label} gives {kind} {res!r} instead of raising")

    ps = ctx.model.cls(f"{DTm}:PortSegment")
    fn = ps.methods["_encode"]
    pnames = [a.arg for a in fn.args.args]

    def ip_hook(call, env, it):
        # address validators of the standard library are applied to the witness text as they are (pure functions of the text)
        path = attr_path(call.func) or ""
        if path in ("ipaddress.ip_address", "ip_address", "ipaddress.IPv4Address", "ipaddress.IPv6Address"):
            v = it.ev(call.args[0], env)
            try:
                return str({"ipaddress.IPv4Address": _ip.IPv4Address, "ipaddress.IPv6Address": _ip.IPv6Address}.get(path, _ip.ip_address)(v))
            except ValueError:
                raise _Raise("ValueError")
        if path in ("socket.inet_aton", "inet_aton", "socket.inet_pton", "inet_pton"):
            import socket as _so

            a = [it.ev(x, env) for x in call.args]
            try:
                return _so.inet_aton(a[0]) if path.endswith("inet_aton") else _so.inet_pton({"AF_INET": _so.AF_INET, "AF_INET6": _so.AF_INET6}.get(ast.unparse(call.args[0]).split(".")[-1], _so.AF_INET), a[1])
            except (OSError, TypeError, ValueError):
                raise _Raise("OSError")
        return UNKNOWN

    pcases = [
        (("bp", 0), b"\x01\x00"), (("backplane", 1), b"\x01\x01"), ((2, 5), b"\x02\x05"), (("bp", "3"), b"\x01\x03"), (("enet", "10.11.12.13"), b"\x12\x0b10.11.12.13\x00"), (("enet", "1.2.3.4"), b"\x12\x071.2.3.4\x00"),
        (("enet", "1.2.3.44"), b"\x12\x081.2.3.44"), (("dhrio-b", 255), b"\x03\xff"), (("dhrio-a", 1), b"\x02\x01"), (("dh485-b", 1), b"\x03\x01"), (("dnet", 2), b"\x02\x02"), ((14, 1), b"\x0e\x01"), ((1, b"\x01\x02"), b"\x11\x02\x01\x02"), (("cnet", "9"), b"\x02\x09"),
    ]
    for (port, link), want in pcases:
        kind, res = run_function(ctx, ps.module, fn, {pnames[0]: Obj(_ci=ps, _is_class=True), pnames[1]: _constructed(ctx, ps, port, link) or Obj(port=port, link_address=link), pnames[2]: False}, call_hook=ip_hook, deep=False)
        res = bytes(res) if isinstance(res, bytearray) else res
        _report(ctx, ckey(ps.key + "._encode", f"witness:{port!r}:{link!r}"), fn, f"port segment {port!r} / {link!r}", (kind, res), ("return", want), "PortSegment._encode")
    for (port, link), label in (((15, 1), "port 15"), ((0, 1), "port 0"), ((16, 1), "port 16"), ((17, 1), "port 17 (would set the extended-link bit)"), ((31, 1), "port 31"), ((-1, 1), "port -1"), ((255, 1), "port 255"), (("bp", 300), "link 300"), (("bp", "300"), "link '300'"), (("enet", "not-an-address"), "a text link that is no IP address"), (("nonsense", 1), "an unknown port name"), (("enet-b", 1), "a channel suffix on a single-channel port"), (("bp-a", 1), "a channel suffix on the backplane"), (("dhrio", 1), "a two-channel module without its channel"),
                                (("enet", "1.2.3"), "an incomplete IP address")):
        kind, res = run_function(ctx, ps.module, fn, {pnames[0]: Obj(_ci=ps, _is_class=True), pnames[1]: Obj(port=port, link_address=link), pnames[2]: False}, call_hook=ip_hook, deep=False)
        key = ckey(ps.key + "._encode", f"refused:{label}")
        if kind == "unknown":
            ctx.undecided(key, fn, f"PortSegment._encode not foldable on {label}: {res}")
        else:
            ctx.check(kind == "raise", key, fn, f"{label} is refused", f"PortSegment._encode of {label} gives {kind} {res!r} instead of raising")

    ep = ctx.model.cls(f"{DTm}:EPATH")
    fn = ep.methods["encode"]
    pnames = [a.arg for a in fn.args.args]
    for cname, padded in (("PADDED_EPATH", True), ("PACKED_EPATH", False)):
        ci = ctx.model.cls(f"{DTm}:{cname}")
        asked = []

        def seg_hook(call, env, it, asked=asked):
            f = call.func
            if isinstance(f, ast.Attribute) and f.attr == "encode" and isinstance(f.value, ast.Name) and isinstance(env.get(f.value.id), Obj) and env[f.value.id].__dict__.get("kind") == "seg":
                kw = {k.arg: it.ev(k.value, env) for k in call.keywords}
                a = [it.ev(x, env) for x in call.args]
                asked.append((a[0].__dict__.get("tag"), kw.get("padded", a[1] if len(a) > 1 else "<default>")))
                return env[f.value.id].data
            if (call_name(call) or "") == "isinstance" and len(call.args) == 2 and ast.unparse(call.args[1]) in ("bytes", "(bytes, bytearray)"):
                v = it.ev(call.args[0], env)
                return isinstance(v, (bytes, bytearray))
            return UNKNOWN

        s1, s2 = Obj(kind="seg", tag="s1", data=b"\x20\x02"), Obj(kind="seg", tag="s2", data=b"\x25\x00\x2c\x01")
        for label, kw, want in (("no length", {}, b"\x20\x02\xaa\xbb\x25\x00\x2c\x01"), ("word count", {"length": True}, b"\x04\x20\x02\xaa\xbb\x25\x00\x2c\x01"),
                                ("word count and reserved byte", {"length": True, "pad_length": True}, b"\x04\x00\x20\x02\xaa\xbb\x25\x00\x2c\x01"), ("reserved byte asked without a length", {"pad_length": True}, b"\x20\x02\xaa\xbb\x25\x00\x2c\x01")):
            del asked[:]
            env = {pnames[0]: Obj(_ci=ci, _is_class=True), pnames[1]: [s1, b"\xaa\xbb", s2], pnames[2]: kw.get("length", False), pnames[3]: kw.get("pad_length", False)}
            kind, res = run_function(ctx, ep.module, fn, env, call_hook=seg_hook, deep=False)
            res = bytes(res) if isinstance(res, bytearray) else res
            key = ckey(ci.key + ".encode", f"witness:{label}")
            if kind == "unknown":
                ctx.undecided(key, fn, f"{cname}.encode not foldable ({label}): {res}")
                continue
            ctx.check(kind == "return" and res == want and asked == [("s1", padded), ("s2", padded)], key, fn, f"{cname}, {label}: {want.hex()}, segments asked for the {'padded' if padded else 'packed'} form in order",
                      f"{cname}.encode ({label}) gives {kind} {res.hex() if isinstance(res, bytes) else res!r} asking {asked!r}; expected {want.hex()} asking [('s1', {padded}), ('s2', {padded})]")
        kind, res = run_function(ctx, ep.module, fn, {pnames[0]: Obj(_ci=ci, _is_class=True), pnames[1]: [], pnames[2]: True, pnames[3]: True}, call_hook=seg_hook, deep=False)
        if kind != "unknown":
            ctx.check(kind == "return" and res == b"\x00\x00", ckey(ci.key + ".encode", "witness:empty path with length"), fn, "empty path: word count 0 and the reserved byte", f"{cname}.encode([]) with length gives {kind} {res!r}")


def _route_rule(ctx):
    """parse_cip_route folded on witnesses (PortSegment is a marker): a text route is split at `/` and `\\` into consecutive
    (port, link) pairs from the first element, an all-digit port becomes a number, names stay names; an odd number of elements
    is RequestError, except the auto-slot shortcuts (empty route -> backplane slot 0, one element -> backplane slot <element>)
    when asked; a list is taken as already split; anything unparsable is RequestError."""
    CDm = "pycomm3.cip_driver"
    fi = ctx.model.func(f"{CDm}:parse_cip_route")
    fn = fi.node
    p = [a.arg for a in fn.args.args]
    seg_hook = lambda call, env, it: ("P",) + tuple(it.ev(a, env) for a in call.args) if (call_name(call) or "") == "PortSegment" and isinstance(call.func, ast.Name) else UNKNOWN  # noqa: E731
    cases = [
        ("bp/0", False, ("return", [("P", "bp", "0")])), ("backplane/1/enet/10.0.0.2", False, ("return", [("P", "backplane", "1"), ("P", "enet", "10.0.0.2")])), ("1/0", False, ("return", [("P", 1, "0")])),
        ("2/10.0.0.5/1/3", False, ("return", [("P", 2, "10.0.0.5"), ("P", 1, "3")])), ("bp\\2", False, ("return", [("P", "bp", "2")])), ("bp\\1/enet\\1.2.3.4", False, ("return", [("P", "bp", "1"), ("P", "enet", "1.2.3.4")])),
        (["bp", "4"], False, ("return", [("P", "bp", "4")])), ([], False, ("return", [])), ([], True, ("return", [("P", "bp", 0)])), (["3"], True, ("return", [("P", "bp", "3")])), ("3", True, ("return", [("P", "bp", "3")])),
        ("bp/1/enet", False, ("raise", "RequestError")), ("bp/1/enet", True, ("raise", "RequestError")), ("3", False, ("raise", "RequestError")), ("bp/1", True, ("return", [("P", "bp", "1")])), (5, False, ("raise", "RequestError")),
        ("1a/0", False, ("return", [("P", "1a", "0")])),
    ]
    for path, auto, want in cases:
        kind, res = run_function(ctx, fi.module, fn, {p[0]: (list(path) if isinstance(path, list) else path), p[1]: auto}, call_hook=seg_hook, deep=False)
        if kind == "return" and isinstance(res, list):  # (a segment taken from a module-level constant comes back as a construction record)
            res = [("P",) + tuple(x.args) if type(x).__name__ == "Instance" and x.ci.name == "PortSegment" else x for x in res]
        _report(ctx, ckey(fi, f"witness:{path!r}:auto_slot={auto}"), fn, f"route {path!r} (auto_slot={auto})", (kind, res), want, "parse_cip_route")


def _conn_path_rule(ctx):
    """parse_connection_path folded on witness path strings (the route parser is a marker that records what it is handed): `\\`
    and `,` separate like `/`; the first element is the host, with an optional `:port` that must be a number in the TCP range
    (0, negative, above 65535 and text are RequestError; no port gives None); everything after the host goes to the route parser
    unchanged and in order, together with the caller's auto-slot flag; RequestError from the route parser passes through and any
    other failure becomes RequestError."""
    CDm = "pycomm3.cip_driver"
    fi = ctx.model.func(f"{CDm}:parse_connection_path")
    fn = fi.node
    p = [a.arg for a in fn.args.args]
    cases = [
        ("10.0.0.1", False, ("return", ("10.0.0.1", None, ("ROUTE", [], False)))), ("10.0.0.1", True, ("return", ("10.0.0.1", None, ("ROUTE", [], True)))),
        ("10.0.0.1/bp/1", False, ("return", ("10.0.0.1", None, ("ROUTE", ["bp", "1"], False)))), ("10.0.0.1\\bp\\1", False, ("return", ("10.0.0.1", None, ("ROUTE", ["bp", "1"], False)))),
        ("10.0.0.1,bp,1", False, ("return", ("10.0.0.1", None, ("ROUTE", ["bp", "1"], False)))), ("10.0.0.1/bp\\1,enet/10.0.0.2", False, ("return", ("10.0.0.1", None, ("ROUTE", ["bp", "1", "enet", "10.0.0.2"], False)))),
        ("plc.example.com/3", True, ("return", ("plc.example.com", None, ("ROUTE", ["3"], True)))), ("10.0.0.1:5000", False, ("return", ("10.0.0.1", 5000, ("ROUTE", [], False)))),
        ("10.0.0.1:5000/1/2", False, ("return", ("10.0.0.1", 5000, ("ROUTE", ["1", "2"], False)))), ("10.0.0.1:1", False, ("return", ("10.0.0.1", 1, ("ROUTE", [], False)))),
        ("10.0.0.1:65534/bp/0", False, ("return", ("10.0.0.1", 65534, ("ROUTE", ["bp", "0"], False)))), ("10.0.0.1:44818", True, ("return", ("10.0.0.1", 44818, ("ROUTE", [], True)))),
        ("10.0.0.1:0", False, ("raise", "RequestError")), ("10.0.0.1:-5", False, ("raise", "RequestError")), ("10.0.0.1:65536", False, ("raise", "RequestError")), ("10.0.0.1:70000/bp/1", False, ("raise", "RequestError")),
        ("10.0.0.1:abc", False, ("raise", "RequestError")), ("10.0.0.1:", False, ("raise", "RequestError")), ("10.0.0.1:1:2", False, ("raise", "RequestError")), ("10.0.0.1/<bad route>", False, ("raise", "RequestError")),
        ("10.0.0.1/<route parser fails>", False, ("raise", "RequestError")), (None, False, ("raise", "RequestError")),
    ]
    for path, auto, want in cases:
        def hook(call, env, it):
            if (call_name(call) or "") == "parse_cip_route" and isinstance(call.func, ast.Name):
                a = [it.ev(x, env) for x in call.args] + [it.ev(k.value, env) for k in call.keywords]
                route = a[0]
                if route == ["<bad route>"]:
                    raise _Raise("RequestError")
                if route == ["<route parser fails>"]:
                    raise _Raise("ValueError")
                return ("ROUTE", list(route) if isinstance(route, (list, tuple)) else route, a[1] if len(a) > 1 else "<default>")
            return UNKNOWN

        kind, res = run_function(ctx, fi.module, fn, {p[0]: path, p[1]: auto}, call_hook=hook, deep=False)
        res = tuple(res) if kind == "return" and isinstance(res, (list, tuple)) else res
        _report(ctx, ckey(fi, f"witness:{path!r}:auto_slot={auto}"), fn, f"connection path {path!r} (auto_slot={auto})", (kind, res), want, "parse_connection_path")


rule("C15", "D15.12", "T-WITNESS", floor=20)(_conn_path_rule)
rule("C09", "D9.11", "T-WITNESS", floor=30)(_segment_rule)
rule("C15", "D15.10", "T-WITNESS", floor=30)(_segment_rule)
rule("C14", "D14.12", "T-WITNESS", floor=30)(_segment_rule)
rule("C15", "D15.11", "T-WITNESS", floor=12)(_route_rule)


# ---------------------------------------------------------------------------------------------------------------- CIPDriver lifecycle
def _cd(ctx):
    return ctx.model.cls("pycomm3.cip_driver:CIPDriver")


def _close_rule(ctx):
    """CIPDriver.close folded on every combination of (connected?, session?, socket?) x (which closing step fails): the Forward
    Close is sent only when connected, the session is un-registered only when one exists, the socket is closed when there is one,
    in that order; whatever fails, the four state fields end at their constructor values (no socket, not connected, session 0,
    not opened); failures are reported afterwards as one CommError and nothing else escapes."""
    import itertools

    cd = _cd(ctx)
    fn = cd.methods["close"]
    n = 0
    for connected, session, has_sock in itertools.product((False, True), (0, 0x1234), (False, True)):
        for fail in (None, "_forward_close", "_un_register_session", "sock", "all"):
            if fail == "_forward_close" and not connected or fail == "_un_register_session" and not session or fail == "sock" and not has_sock:
                continue
            calls = []
            sock = Obj(kind="socket") if has_sock else None
            me = Obj(_ci=cd, _target_is_connected=connected, _session=session, _sock=sock, _connection_opened=connected)

            def hook(call, env, it, calls=calls, fail=fail):
                path = attr_path(call.func) or ""
                if path in ("self._forward_close", "self._un_register_session"):
                    calls.append(path[5:])
                    if fail in (path[5:], "all"):
                        raise _Raise("CommError" if path.endswith("close") else "OSError")
                    return True
                if path == "self._sock.close":
                    calls.append("sock")
                    if fail in ("sock", "all"):
                        raise _Raise("OSError")
                    return None
                return UNKNOWN

            kind, res = run_function(ctx, cd.module, fn, {"self": me}, call_hook=hook, deep=False)
            n += 1
            key = ckey(cd.key + ".close", f"witness:connected={connected},session={session:#x},socket={has_sock},fails={fail}")
            if kind == "unknown":
                ctx.undecided(key, fn, f"close not foldable: {res}")
                continue
            want_calls = (["_forward_close"] if connected else []) + (["_un_register_session"] if session and not (connected and fail in ("_forward_close", "all")) else []) + (["sock"] if has_sock else [])
            state = (me._sock, me._target_is_connected, me._session, me._connection_opened)
            failed = fail is not None and (fail != "all" or connected or session or has_sock)
            diffs = []
            if state != (None, False, 0, False):
                diffs.append(f"state afterwards (socket, connected, session, opened) = {state!r}")
            if calls != want_calls:
                diffs.append(f"closing steps {calls!r} (expected {want_calls!r})")
            if failed and (kind, res) != ("raise", "CommError"):
                diffs.append(f"ends with {kind} {res!r} although a step failed (expected CommError)")
            if not failed and kind != "return":
                diffs.append(f"ends with {kind} {res!r} although nothing failed")
            ctx.check(not diffs, key, fn, f"steps {want_calls}, state reset, {'CommError' if failed else 'normal return'}", f"close() with connected={connected}, session={session:#x}, socket={has_sock}, failing step {fail}: {diffs[:2]}")
    init = cd.methods["__init__"]
    k_, o_ = None, None
    vals = {}
    for st in ast.walk(init):
        tgt = st.targets[0] if isinstance(st, ast.Assign) and len(st.targets) == 1 else st.target if isinstance(st, ast.AnnAssign) and st.value is not None else None
        if tgt is not None and (attr_path(tgt) or "") in ("self._sock", "self._target_is_connected", "self._session", "self._connection_opened"):
            vals[attr_path(tgt)[5:]] = ctx.folder.eval(st.value, cd.module)
    want = {"_sock": None, "_target_is_connected": False, "_session": 0, "_connection_opened": False}
    ctx.check(vals == want, ckey(cd.key + ".__init__", "initial-state"), init, "the constructor starts with no socket, not connected, session 0, not opened", f"constructor state {vals!r}; close() resets to {want!r}")


def _forward_open_rule(ctx):
    """CIPDriver._forward_open folded on witnesses (generic_message, the path encoder and the constants are markers / folded): no
    request when already connected; CommError without a session; the Large Forward Open service goes with 32-bit network
    parameters (size in the low 16 bits), the standard service with 16-bit parameters (size in the low 9 bits), both O->T and
    T->O carry the same parameters; the request is unconnected, to the Connection Manager open-request instance, routed over
    the configured path + message router; a granted reply stores the target's connection id and marks the driver connected, a
    refused one leaves it disconnected and returns False."""
    import struct as _st

    cd = _cd(ctx)
    fn = cd.methods["_forward_open"]
    ev = lambda s_: ctx.folder.eval(ast.parse(s_, mode="eval").body, cd.module)  # noqa: E731
    fo, lfo = ev("ConnectionManagerServices.forward_open"), ev("ConnectionManagerServices.large_forward_open")
    prio, ticks, mult, tclass = (ctx.folder.module_value(cd.module.name, n_) for n_ in ("PRIORITY", "TIMEOUT_TICKS", "TIMEOUT_MULTIPLIER", "TRANSPORT_CLASS"))
    if not all(isinstance(x, bytes) for x in (fo, lfo, prio, ticks, mult, tclass)):
        ctx.undecided(ckey(cd.key + "._forward_open", "witness"), fn, "Forward Open constants are not foldable")
        return
    cfg0 = {"cid": b"CID!", "csn": b"SN", "vid": b"VI", "vsn": b"VSN!", "cip_path": ["<route>"]}

    def path_hook(call, env, it):
        if (attr_path(call.func) or "") == "PADDED_EPATH.encode":
            kw = {k.arg: it.ev(k.value, env) for k in call.keywords}
            return b"<" + repr((it.ev(call.args[0], env), kw.get("length"), kw.get("pad_length", False))).encode() + b">"
        return UNKNOWN

    mrp = ctx.folder.module_value(cd.module.name, "MSG_ROUTER_PATH")
    for label, ext, size, granted in (("large, granted", True, 4000, True), ("standard, granted", False, 500, True), ("large, refused", True, 4000, False), ("standard, size 511", False, 511, True), ("large, size 65535", True, 65535, True)):
        seen = {}
        me = Obj(_ci=cd, _target_is_connected=False, _session=0x1234, _cfg=dict(cfg0, cip_path=["<route>"], **{"extended forward open": ext, "connection_size": size}), connection_size=size, _target_cid=None)
        gm = self_call("generic_message", lambda a, k, seen=seen, granted=granted: seen.update(k) or _resp(granted, value=b"TCID" + b"rest" if granted else None, error=None if granted else "Connection failure"))
        kind, res = run_function(ctx, cd.module, fn, {"self": me}, call_hook=chain(path_hook, gm), deep=False)
        key = ckey(cd.key + "._forward_open", f"witness:{label}")
        if kind == "unknown":
            ctx.undecided(key, fn, f"_forward_open not foldable ({label}): {res}")
            continue
        net = _st.pack("<I", (size & 0xFFFF) | (0x4200 << 16)) if ext else _st.pack("<H", (size & 0x01FF) | 0x4200)
        want_data = prio + ticks + bytes(4) + b"CID!" + b"SN" + b"VI" + b"VSN!" + mult + bytes(3) + b"\x01\x40\x20\x00" + net + b"\x01\x40\x20\x00" + net + tclass
        diffs = []
        if seen.get("service") != (lfo if ext else fo):
            diffs.append(f"service {seen.get('service')!r} (expected {'Large ' if ext else ''}Forward Open {(lfo if ext else fo)!r})")
        if seen.get("request_data") != want_data:
            diffs.append(f"request data {seen.get('request_data')!r} (expected {want_data!r})")
        if seen.get("connected") is not False or seen.get("class_code") != ev("ClassCode.connection_manager") or seen.get("instance") != ev("ConnectionManagerInstances.open_request"):
            diffs.append(f"addressing {dict((k, v) for k, v in seen.items() if k in ('connected', 'class_code', 'instance'))!r}")
        want_route = b"<" + repr((["<route>"] + list(mrp) if isinstance(mrp, (list, tuple)) else None, True, False)).encode() + b">"
        if isinstance(mrp, (list, tuple)) and seen.get("route_path") != want_route:
            diffs.append(f"route {seen.get('route_path')!r} (expected the configured path followed by the message router, with a word count)")
        if (kind, res) != ("return", granted) or me._target_is_connected is not granted or (granted and me._target_cid != b"TCID") or (not granted and me._target_cid is not None):
            diffs.append(f"outcome {kind} {res!r}, connected={me._target_is_connected}, target cid={me._target_cid!r}")
        if me._cfg.get("cip_path") != ["<route>"]:
            diffs.append(f"the driver's stored route is {me._cfg.get('cip_path')!r} afterwards (it was ['<route>']): every later routed request carries the changed route")
        ctx.check(not diffs, key, fn, f"{label}: service, parameters and outcome as specified", f"_forward_open ({label}): {diffs[:2]}")
    for label, me, want in (("already connected", Obj(_ci=cd, _target_is_connected=True, _session=5, _cfg=dict(cfg0)), ("return", True)), ("no session", Obj(_ci=cd, _target_is_connected=False, _session=0, _cfg=dict(cfg0)), ("raise", "CommError"))):
        sent = []
        kind, res = run_function(ctx, cd.module, fn, {"self": me}, call_hook=chain(path_hook, self_call("generic_message", lambda a, k, sent=sent: sent.append(k) or _resp(True, value=b"xxxx"))), deep=False)
        key = ckey(cd.key + "._forward_open", f"witness:{label}")
        if kind == "unknown" and label == "no session" and not sent:
            ctx.undecided(key, fn, f"_forward_open not foldable ({label}): {res}")
        else:
            ctx.check((kind, res) == want and not sent, key, fn, f"{label}: {want[0]} {want[1]!r}, nothing sent", f"_forward_open ({label}): {kind} {res!r}, {len(sent)} request(s) sent")


def _session_rule(ctx):
    """Session and connection bookkeeping of CIPDriver folded on witnesses (send / generic_message / the socket are markers):
    `_register_session` sends one Register Session request with the configured protocol version and stores the handle of a valid
    reply only (an invalid reply leaves the handle 0 and returns None; a driver that has a session sends nothing);
    `_un_register_session` sends the request and clears the handle; `_forward_close` names the connection by the serial / vendor /
    originator triple of the Forward Open, routed over the configured path + message router with word count and reserved byte,
    and clears the connected flag only when the reply is valid; `open` connects the socket, draws a fresh connection id and
    originator serial, and returns True only when a session was registered."""
    cd = _cd(ctx)
    ev = lambda s_: ctx.folder.eval(ast.parse(s_, mode="eval").body, cd.module)  # noqa: E731

    def packet_hook(call, env, it):
        n = call_name(call) or ""
        if n in ("RegisterSessionRequestPacket", "UnRegisterSessionRequestPacket") and isinstance(call.func, ast.Name):
            return (n, tuple(it.ev(a, env) for a in call.args))
        return UNKNOWN

    # ---- _register_session
    fn = cd.methods["_register_session"]
    for label, have, reply, want_ret, want_session, want_sent in (
            ("a valid reply", 0, _resp(True, session=0xABCD, error=None), 0xABCD, 0xABCD, [("RegisterSessionRequestPacket", (b"\x01\x00",))]),
            ("an invalid reply", 0, _resp(False, session=0x9999, error="refused"), None, 0, [("RegisterSessionRequestPacket", (b"\x01\x00",))]),
            ("a driver that already has a session", 0x77, _resp(True, session=0xABCD, error=None), 0x77, 0x77, [])):
        sent = []
        me = Obj(_ci=cd, _session=have, _cfg={"protocol version": b"\x01\x00"})
        kind, res = run_function(ctx, cd.module, fn, {"self": me}, call_hook=chain(packet_hook, self_call("send", lambda a, k, sent=sent, reply=reply: sent.append(a[0] if a else k) or reply)), deep=False)
        key = ckey(cd.key + "._register_session", f"witness:{label}")
        if kind == "unknown":
            ctx.undecided(key, fn, f"_register_session not foldable ({label}): {res}")
            continue
        ctx.check((kind, res) == ("return", want_ret) and me._session == want_session and sent == want_sent, key, fn, f"{label}: returns {want_ret!r}, session handle {want_session:#x}, {len(want_sent)} request(s)",
                  f"_register_session with {label}: {kind} {res!r}, session handle {me._session!r}, requests sent {sent!r}; expected return {want_ret!r}, handle {want_session:#x}, requests {want_sent!r}")
    # ---- _un_register_session
    fn = cd.methods["_un_register_session"]
    sent = []
    me = Obj(_ci=cd, _session=0x77, _cfg={})
    kind, res = run_function(ctx, cd.module, fn, {"self": me}, call_hook=chain(packet_hook, self_call("send", lambda a, k, sent=sent: sent.append(a[0] if a else k) or _resp(True))), deep=False)
    key = ckey(cd.key + "._un_register_session", "witness")
    if kind == "unknown":
        ctx.undecided(key, fn, f"_un_register_session not foldable: {res}")
    else:
        ctx.check(kind == "return" and not me._session and sent == [("UnRegisterSessionRequestPacket", ())], key, fn, "one UnRegister Session request, handle cleared", f"_un_register_session: {kind} {res!r}, handle {me._session!r}, requests {sent!r}")
    # ---- _forward_close
    fn = cd.methods["_forward_close"]
    prio, ticks = (ctx.folder.module_value(cd.module.name, n_) for n_ in ("PRIORITY", "TIMEOUT_TICKS"))
    mrp = ctx.folder.module_value(cd.module.name, "MSG_ROUTER_PATH")
    cfg0 = {"cid": b"CID!", "csn": b"SN", "vid": b"VI", "vsn": b"VSN!", "cip_path": ["<route>"]}

    def path_hook(call, env, it):
        if (attr_path(call.func) or "") == "PADDED_EPATH.encode":
            kw = {k.arg: it.ev(k.value, env) for k in call.keywords}
            return ("EPATH", tuple(it.ev(call.args[0], env)), bool(kw.get("length")), bool(kw.get("pad_length", False)))
        return UNKNOWN

    if isinstance(prio, bytes) and isinstance(ticks, bytes) and isinstance(mrp, (list, tuple)):
        for label, session, granted in (("granted", 0x1234, True), ("refused", 0x1234, False), ("no session", 0, True)):
            seen = []
            me = Obj(_ci=cd, _target_is_connected=True, _session=session, _cfg=dict(cfg0, cip_path=["<route>"]), _target_cid=b"TCID")
            gm = self_call("generic_message", lambda a, k, seen=seen, granted=granted: seen.append(k) or _resp(granted, value=b"" if granted else None, error=None if granted else "refused"))
            kind, res = run_function(ctx, cd.module, fn, {"self": me}, call_hook=chain(path_hook, gm), deep=False)
            key = ckey(cd.key + "._forward_close", f"witness:{label}")
            if kind == "unknown":
                ctx.undecided(key, fn, f"_forward_close not foldable ({label}): {res}")
                continue
            if not session:
                ctx.check(kind == "raise" and res == "CommError" and not seen, key, fn, "no session: CommError, nothing sent", f"_forward_close without a session: {kind} {res!r}, {len(seen)} request(s) sent")
                continue
            k = seen[0] if len(seen) == 1 else {}
            diffs = []
            if len(seen) != 1:
                diffs.append(f"{len(seen)} requests sent")
            if k.get("service") != ev("ConnectionManagerServices.forward_close") or k.get("service") != b"\x4e":
                diffs.append(f"service {k.get('service')!r} (Forward Close is 0x4E)")
            if k.get("request_data") != prio + ticks + b"SN" + b"VI" + b"VSN!":
                diffs.append(f"request data {k.get('request_data')!r} (expected priority, ticks and the connection serial / vendor / originator serial of the Forward Open)")
            if k.get("connected") is not False or k.get("class_code") != ev("ClassCode.connection_manager") or k.get("instance") != ev("ConnectionManagerInstances.open_request"):
                diffs.append(f"addressing {dict((a, v) for a, v in k.items() if a in ('connected', 'class_code', 'instance'))!r}")
            if k.get("route_path") != ("EPATH", tuple(["<route>"] + list(mrp)), True, True):
                diffs.append(f"route {k.get('route_path')!r} (expected the configured path followed by the message router, with word count and reserved byte)")
            if (kind, res) != ("return", granted) or me._target_is_connected is not (not granted):
                diffs.append(f"outcome {kind} {res!r}, connected={me._target_is_connected}")
            if me._cfg.get("cip_path") != ["<route>"]:
                diffs.append(f"the driver's stored route is {me._cfg.get('cip_path')!r} afterwards (it was ['<route>']): a driver opened again sends every routed request over the changed route")
            ctx.check(not diffs, key, fn, f"Forward Close, {label}: request and outcome as specified", f"_forward_close ({label}): {diffs[:2]}")
    else:
        ctx.undecided(ckey(cd.key + "._forward_close", "witness"), fn, "Forward Close constants are not foldable")
    # ---- open
    fn = cd.methods["open"]
    for label, opened, session, fail, want in (("already open", True, None, None, ("return", True)), ("session registered", False, 0x55, None, ("return", True)), ("session refused", False, None, None, ("return", False)),
                                                ("the socket cannot connect", False, 0x55, "connect", ("raise", "CommError"))):
        steps = []
        me = Obj(_ci=cd, _connection_opened=opened, _sock=None, _session=0, _cfg={"socket_timeout": 5, "ip address": "10.0.0.1", "port": 44818, "cid": b"old!", "vsn": b"old!"})

        def hook(call, env, it, steps=steps, fail=fail, session=session):
            path = attr_path(call.func) or ""
            n = call_name(call) or ""
            if n == "Socket" and isinstance(call.func, ast.Name):
                steps.append("socket")
                return Obj(kind="socket")
            if path == "self._sock.connect":
                steps.append(("connect",) + tuple(it.ev(a, env) for a in call.args))
                if fail == "connect":
                    raise _Raise("OSError")
                return None
            if n == "urandom":
                steps.append("rnd")
                w_ = it.ev(call.args[0], env)
                return bytes([0xA0 + steps.count("rnd")]) * w_ if isinstance(w_, int) else UNKNOWN
            if path == "self._register_session":
                steps.append("register")
                return session
            return UNKNOWN

        kind, res = run_function(ctx, cd.module, fn, {"self": me}, call_hook=hook, deep=False)
        key = ckey(cd.key + ".open", f"witness:{label}")
        if kind == "unknown":
            ctx.undecided(key, fn, f"open not foldable ({label}): {res}")
            continue
        diffs = []
        if (kind, res) != want:
            diffs.append(f"{kind} {res!r} (expected {want[0]} {want[1]!r})")
        if opened and steps:
            diffs.append(f"an open driver does {steps!r}")
        if not opened and fail is None:
            if [s_ for s_ in steps if s_ != "rnd"] != ["socket", ("connect", "10.0.0.1", 44818), "register"]:
                diffs.append(f"steps {steps!r} (expected a socket, connect to the configured address and port, then the session)")
            cid_, vsn_ = me._cfg.get("cid"), me._cfg.get("vsn")
            if cid_ in (b"old!", None) or vsn_ in (b"old!", None) or not me._connection_opened:
                diffs.append(f"connection id / originator serial not drawn afresh or the driver not marked open: {cid_!r} {vsn_!r} {me._connection_opened}")
            elif not (isinstance(cid_, bytes) and isinstance(vsn_, bytes) and len(cid_) == 4 and len(vsn_) == 4):
                diffs.append(f"connection id {cid_!r} / originator serial {vsn_!r} are not 4 bytes each (the Forward Open fields are 4 bytes wide)")
        ctx.check(not diffs, key, fn, f"open(), {label}: {want[0]} {want[1]!r}", f"open() with {label}: {diffs[:2]}")


def _context_rule(ctx):
    """The context manager folded on witnesses (open / close are markers that see the driver's state when they are called):
    `__enter__` opens and returns the driver itself; `__exit__` calls close exactly once whatever leaves the block (nothing, any
    exception, CommError) - with the connected flag and the session handle still as the block left them, so that close can send
    the Forward Close and UnRegister Session they stand for; it returns True only for a clean block, and a CommError out of close
    is swallowed (False) rather than raised over the block's own exception."""
    cd = _cd(ctx)
    en, ex = cd.methods["__enter__"], cd.methods["__exit__"]
    opened = []
    me = Obj(_ci=cd, _target_is_connected=False, _session=0)
    kind, res = run_function(ctx, cd.module, en, {"self": me}, call_hook=self_call("open", lambda a, k: opened.append(1) or True), deep=False)
    key = ckey(cd.key + ".__enter__", "witness")
    if kind == "unknown":
        ctx.undecided(key, en, f"__enter__ not foldable: {res}")
    else:
        ctx.check(kind == "return" and res is me and opened == [1], key, en, "__enter__ opens once and returns the driver", f"__enter__ gives {kind} {res!r} after {len(opened)} open() call(s)")
    p = [a.arg for a in ex.args.args]
    for label, exc, close_fails, want in (("clean block", None, False, True), ("block left by ValueError", "ValueError", False, False), ("block left by CommError", "CommError", False, False),
                                           ("clean block, close fails", None, True, False), ("block left by CommError, close fails", "CommError", True, False)):
        seen = []
        me = Obj(_ci=cd, _target_is_connected=True, _session=0x1234, _sock=Obj(kind="socket"), _connection_opened=True)

        def close(a, k, me=me, seen=seen, close_fails=close_fails):
            seen.append((me._target_is_connected, me._session))
            if close_fails:
                raise _Raise("CommError")
            return None

        exc_t = Obj(kind="exception-class", name=exc) if exc else None
        env = {"self": me, p[1]: exc_t, p[2]: (f"<{exc}>" if exc else None), p[3]: ("<traceback>" if exc else None)}
        kind, res = run_function(ctx, cd.module, ex, env, call_hook=self_call("close", close), deep=False)
        key = ckey(cd.key + ".__exit__", f"witness:{label}")
        if kind == "unknown":
            ctx.undecided(key, ex, f"__exit__ not foldable ({label}): {res}")
            continue
        ok = kind == "return" and bool(res) is want and seen == [(True, 0x1234)]
        ctx.check(ok, key, ex, f"{label}: close() once with the state the block left, returns {want}",
                  f"__exit__ ({label}) gives {kind} {res!r}; close() was called {len(seen)} time(s) seeing (connected, session) = {seen!r}; expected one call seeing (True, 0x1234) - the flags tell close which of Forward Close / UnRegister Session to send - and {want}")


rule("C10", "D10.14", "T-WITNESS", floor=6)(_context_rule)
def _send_rule(ctx):
    """CIPDriver.send folded on witness requests (the request's frame builder, the transport and the response class are witness
    callables): the frame is built once with the connection id the target granted, the session handle, the configured sender
    context and options; that frame - and nothing else - goes to the transport; a reply is awaited unless the request expects
    none; the response object is made from the request and the reply; a request that carries an error is not sent at all."""
    cd = _cd(ctx)
    fn = cd.methods["send"]
    for label, err, no_resp in (("ordinary request", None, False), ("request that expects no reply", None, True), ("request that failed to build", "bad tag", False)):
        built, sent, received = [], [], []
        me = Obj(_ci=cd, _target_cid=b"TCID", _session=0x1234, _cfg={"context": b"CTX_CTX_", "option": 7}, _sequence="SEQ",
                 _send=PyFunc(lambda m: sent.append(m), "_send"), _receive=PyFunc(lambda: received.append(1) or b"<reply>", "_receive"))
        req = Obj(kind="request", error=err, no_response=no_resp)
        req.build_request = PyFunc(lambda *a, **k: built.append((a, dict(k))) or b"<frame>", "build_request")
        req.response_class = PyFunc(lambda r, reply: ("response", r, reply), "response_class")
        kind, res = run_function(ctx, cd.module, fn, {"self": me, fn.args.args[1].arg: req}, deep=False)
        key = ckey(cd.key + ".send", f"witness:{label}")
        if kind == "unknown":
            ctx.undecided(key, fn, f"send not foldable on an {label}: {res}")
            continue
        diffs = []
        if err:
            if built or sent or received:
                diffs.append(f"a request carrying an error was built / sent / awaited ({len(built)}, {len(sent)}, {len(received)})")
            want_reply = None
        else:
            a, k = built[0] if len(built) == 1 else ((), {})
            names = ("target_cid", "session_id", "context", "option")
            given = dict(zip(names, a))
            given.update(k)
            want = {"target_cid": b"TCID", "session_id": 0x1234, "context": b"CTX_CTX_", "option": 7}
            if len(built) != 1 or {n_: given.get(n_) for n_ in names} != want:
                diffs.append(f"frame built {len(built)} time(s) with { {n_: given.get(n_) for n_ in names} !r} (expected once with the granted connection id, the session handle, the configured context and options {want!r})")
            if sent != [b"<frame>"]:
                diffs.append(f"handed to the transport: {sent!r} (expected the built frame once)")
            if len(received) != (0 if no_resp else 1):
                diffs.append(f"{len(received)} reply / replies awaited (expected {0 if no_resp else 1})")
            want_reply = None if no_resp else b"<reply>"
        if not (kind == "return" and isinstance(res, tuple) and len(res) == 3 and res[0] == "response" and res[1] is req and res[2] == want_reply):
            diffs.append(f"result {kind} {res!r} (expected the response class applied to the request and {want_reply!r})")
        ctx.check(not diffs, key, fn, f"{label}: built, sent and answered as specified", f"CIPDriver.send on an {label}: {diffs[:2]}")
    # the transport steps themselves: `_send` hands the frame to the socket in one call, whole and unchanged, whatever its size is
    # next to the connection size (one write = one encapsulation frame); `_receive` returns what the socket assembled; a failure of
    # the socket is CommError
    fs, fr = cd.methods.get("_send"), cd.methods.get("_receive")
    if fs is None or fr is None:
        ctx.undecided(ckey(cd.key + "._send", "witness"), cd.node, "anchor vanished")
        return
    for conn in (500, 4000):
        for n in (24, 44, conn - 1, conn, conn + 1, conn + 44, 2 * conn + 3):
            frame = bytes((i * 7 + 1) % 256 for i in range(n))
            wrote = []
            sock = Obj(kind="socket", send=PyFunc(lambda m, *a, **k: wrote.append(bytes(m)) or len(m), "send"))
            me = Obj(_ci=cd, _sock=sock, connection_size=conn, _cfg={"connection_size": conn, "socket_timeout": 5})
            kind, res = run_function(ctx, cd.module, fs, {"self": me, fs.args.args[1].arg: frame}, deep=False)
            key = ckey(cd.key + "._send", f"witness:{n} bytes on a {conn}-byte connection")
            if kind == "unknown":
                ctx.undecided(key, fs, f"_send not foldable on a {n}-byte frame: {res}")
                continue
            ctx.check(kind == "return" and wrote == [frame], key, fs, f"{n}-byte frame: one write of the whole frame",
                      f"_send of a {n}-byte frame on a {conn}-byte connection ends with {kind} {res if kind != 'return' else ''!r} after {len(wrote)} write(s) of {[len(w) for w in wrote]} bytes: every write must be one whole encapsulation frame")
    for label, fnx, attr in (("_send", fs, "send"), ("_receive", fr, "receive")):
        def boom(*a, **k):
            raise _Raise("OSError")

        me = Obj(_ci=cd, _sock=Obj(kind="socket", **{attr: PyFunc(boom, attr)}), connection_size=500, _cfg={"connection_size": 500})
        env = {"self": me}
        if label == "_send":
            env[fnx.args.args[1].arg] = b"<frame>"
        kind, res = run_function(ctx, cd.module, fnx, env, deep=False)
        key = ckey(cd.key + "." + label, "witness:socket failure")
        if kind == "unknown":
            ctx.undecided(key, fnx, f"{label} not foldable when the socket fails: {res}")
        else:
            ctx.check(kind == "raise" and res == "CommError", key, fnx, f"{label}: a socket failure is CommError", f"{label} with a failing socket ends with {kind} {res!r} (expected CommError)")
    me = Obj(_ci=cd, _sock=Obj(kind="socket", receive=PyFunc(lambda *a, **k: b"<assembled reply>", "receive")), connection_size=500, _cfg={"connection_size": 500})
    kind, res = run_function(ctx, cd.module, fr, {"self": me}, deep=False)
    key = ckey(cd.key + "._receive", "witness:reply")
    if kind == "unknown":
        ctx.undecided(key, fr, f"_receive not foldable: {res}")
    else:
        ctx.check((kind, res) == ("return", b"<assembled reply>"), key, fr, "_receive returns the frame the socket assembled", f"_receive gives {kind} {res!r}; the socket assembled b'<assembled reply>'")


rule("C11", "D11.13", "T-WITNESS", floor=3)(_send_rule)
rule("C10", "D10.15", "T-WITNESS", floor=3)(_send_rule)
rule("C10", "D10.13", "T-WITNESS", floor=10)(_session_rule)
rule("C11", "D11.11", "T-WITNESS", floor=10)(_session_rule)
rule("C10", "D10.11", "T-WITNESS", floor=20)(_close_rule)
rule("C10", "D10.12", "T-WITNESS", floor=6)(_forward_open_rule)
# the parsed route is stored once and appended to the requests that are routed: the driver's own Forward Open / Forward Close must carry
# it followed by the message router and leave the stored route as parsed (C15: every request of a re-opened driver is routed by it)
rule("C15", "D15.15", "T-WITNESS", floor=6)(_forward_open_rule)
rule("C15", "D15.16", "T-WITNESS", floor=10)(_session_rule)


# ---------------------------------------------------------------------------------------------------------------- MapMeta
def _mapmeta_rule(ctx):
    """MapMeta folded on witness class bodies: the lookup table holds every public member under its name and its lower-case
    name, and (unless switched off) every value - or its `_value_key_` - under the member's lower-case name; private names and
    class / static methods are not members; `[]`, `get` and `in` fold text keys to lower case before they consult that one
    table, `[]` raises KeyError for a missing key, `get` gives the default; text results are upper-cased when the table says so."""
    mm = ctx.model.cls("pycomm3.map:MapMeta")
    new, getitem, get, contains = (mm.methods.get(n) for n in ("__new__", "__getitem__", "get", "__contains__"))
    if not all((new, getitem, get, contains)):
        ctx.undecided(ckey(mm.key, "witness"), mm.node, "MapMeta methods not found")
        return
    cm = Obj(kind="classmethod")
    vk = Obj(kind="value-key")

    def hook(call, env, it):
        n = call_name(call) or ""
        f = call.func
        if isinstance(f, ast.Attribute) and f.attr == "__new__" and isinstance(f.value, ast.Call) and getattr(f.value.func, "id", "") == "super":
            cd_ = it.ev(call.args[-1], env)
            o = Obj(kind="enumcls")
            o.__dict__["__dict__"] = cd_
            return o
        if n == "isinstance" and len(call.args) == 2 and "classmethod" in ast.unparse(call.args[1]):
            return it.ev(call.args[0], env) is cm
        if isinstance(f, ast.Name) and env.get(f.id) is vk:
            v = it.ev(call.args[0], env)
            return ("key-of", v)
        return UNKNOWN

    def build(body):
        p = [a.arg for a in new.args.args]
        kind, res = run_function(ctx, mm.module, new, {p[0]: Obj(kind="metaclass"), p[1]: "W", p[2]: (), p[3]: dict(body)}, call_hook=hook, deep=False)
        return kind, res

    def look(enumcls, meth, *args):
        p = [a.arg for a in meth.args.args]
        env = {p[0]: enumcls}
        env.update(zip(p[1:], args))
        for a_, d_ in zip(p[len(p) - len(meth.args.defaults):], meth.args.defaults):
            if a_ not in env:
                env[a_] = ctx.folder.eval(d_, mm.module)
        return run_function(ctx, mm.module, meth, env, call_hook=hook, deep=False)

    base = {"__module__": "m", "__qualname__": "W", "alpha": 1, "Beta": 2, "GAMMA": b"LM", "_private": 9, "helper": cm, "text": "some text"}  # (a bytes code made of ASCII capitals, like service 0x4C)
    variants = [("plain", base, False), ("caps only", dict(base, _return_caps_only_=True), True), ("one-directional", dict(base, _bidirectional_=False), False), ("custom value key", dict(base, _value_key_=vk), False)]
    for label, body, caps in variants:
        kind, e = build(body)
        key = ckey(mm.key + ".__new__", f"witness:{label}")
        if kind != "return" or not isinstance(e, Obj):
            (ctx.undecided if kind == "unknown" else ctx.violation)(key, new, f"MapMeta.__new__ on the {label} witness: {kind} {e!r}")
            continue
        members = e.__dict__.get("_members_")
        up = (lambda s_: s_.upper()) if caps else (lambda s_: s_)
        bidir = body.get("_bidirectional_", True)
        rk = (lambda v: ("key-of", v)) if "_value_key_" in body else (lambda v: v)
        want = {"alpha": 1, "Beta": 2, "GAMMA": b"LM", "text": "some text", "beta": 2, "gamma": b"LM"}
        if bidir:
            want.update({rk(1): "alpha", rk(2): "beta", rk(b"LM"): "gamma", rk("some text"): "text"})
        ctx.check(isinstance(members, dict) and members == want and list(e.__dict__.get("_attributes", [])) == ["alpha", "Beta", "GAMMA", "text"], key, new, f"{label}: lookup table {sorted(map(repr, want))[:4]}... and attribute list as documented",
                  f"MapMeta.__new__ ({label}) builds the table {members!r} with attributes {e.__dict__.get('_attributes')!r}; expected {want!r} and ['alpha', 'Beta', 'GAMMA', 'text']")
        if not isinstance(members, dict):
            continue
        probes = [("getitem", getitem, ("BETA",), ("return", 2)), ("getitem", getitem, ("alpha",), ("return", 1)), ("getitem", getitem, ("Gamma",), ("return", b"LM")), ("getitem", getitem, ("nope",), ("raise", "KeyError")),
                  ("getitem", getitem, (7,), ("raise", "KeyError")), ("get", get, ("BeTa",), ("return", 2)), ("get", get, ("nope",), ("return", None)), ("get", get, ("nope", 5), ("return", 5)), ("get", get, (7, "d"), ("return", up("d"))),
                  ("contains", contains, ("ALPHA",), ("return", True)), ("contains", contains, ("nope",), ("return", False)), ("contains", contains, (7,), ("return", False)), ("getitem", getitem, ("TEXT",), ("return", up("some text")))]
        if bidir and "_value_key_" not in body:
            probes += [("getitem", getitem, (1,), ("return", up("alpha"))), ("get", get, (2,), ("return", up("beta"))), ("get", get, (b"LM",), ("return", up("gamma"))), ("contains", contains, (1,), ("return", True))]
        if not bidir:
            probes += [("get", get, (1,), ("return", None)), ("contains", contains, (1,), ("return", False))]
        for op, meth, args, want_r in probes:
            kind, res = look(e, meth, *args)
            _report(ctx, ckey(f"{mm.key}.{meth.name}", f"witness:{label}:{args!r}"), meth, f"{label}: {op}{args!r}", (kind, res), want_r, f"MapMeta.{meth.name}")


rule("C19", "D19.9", "T-WITNESS", floor=40)(_mapmeta_rule)


# ---------------------------------------------------------------------------------------------------------------- generic messaging
def _generic_message_rule(ctx):
    """generic_message folded on witness requests (the packet classes, the path encoder, the route parser, the Forward Open guard and
    the transport are markers): a connected request goes through the Forward Open guard and carries the driver's sequence
    generator; an unconnected one carries the route (True: the connection's own path; a string: parsed; a segment list: encoded;
    bytes: as given; False / empty: none - every encoded route with word count and reserved byte) and the Unconnected Send flag;
    service, class, instance, attribute, data and data type reach the packet unchanged; the Tag carries the caller's name, the
    reply's value (or the reply itself when asked), the data type and the reply's error."""
    cd = _cd(ctx)
    fn = cd.methods["generic_message"]
    params = [a.arg for a in fn.args.args]
    defaults = dict(zip(params[len(params) - len(fn.args.defaults):], [ctx.folder.eval(d, cd.module) for d in fn.args.defaults]))

    def run(label, args, want_cls, want_kwargs, reply, want_tag, guard=None):
        built, guarded = {}, []

        def hook(call, env, it):
            n = call_name(call) or ""
            f = call.func
            path = attr_path(f) or ""
            if path == "PADDED_EPATH.encode":
                kw = {k.arg: it.ev(k.value, env) for k in call.keywords}
                return ("EPATH", it.ev(call.args[0], env), kw.get("length", False), kw.get("pad_length", False))
            if n == "parse_cip_route" and isinstance(f, ast.Name):
                return ("parsed", it.ev(call.args[0], env))
            if n == "with_forward_open":
                return Obj(kind="guard")
            if isinstance(f, ast.Call) and (call_name(f) or "") == "with_forward_open":
                guarded.append(it.ev(call.args[0], env) is env.get(params[0]))
                return None
            if n in ("GenericConnectedRequestPacket", "GenericUnconnectedRequestPacket") and isinstance(f, ast.Name):
                kw = {}
                for k in call.keywords:
                    if k.arg is None:
                        kw.update(it.ev(k.value, env))
                    else:
                        kw[k.arg] = it.ev(k.value, env)
                built["cls"], built["kwargs"], built["args"] = n, kw, [it.ev(a, env) for a in call.args]
                return Obj(kind="request", cls=n)
            held = env.get(f.id) if isinstance(f, ast.Name) else None
            held = getattr(getattr(held, "ci", None), "name", held)
            if isinstance(f, ast.Name) and held in ("GenericConnectedRequestPacket", "GenericUnconnectedRequestPacket"):
                env = dict(env)
                env[f.id] = held
                kw = {}
                for k in call.keywords:
                    if k.arg is None:
                        kw.update(it.ev(k.value, env))
                    else:
                        kw[k.arg] = it.ev(k.value, env)
                built["cls"], built["kwargs"], built["args"] = env[f.id], kw, [it.ev(a, env) for a in call.args]
                return Obj(kind="request", cls=env[f.id])
            if path == "self.send":
                built["sent"] = it.ev(call.args[0], env)
                return reply
            return UNKNOWN

        env = {params[0]: Obj(_ci=cd, _sequence="SEQ", _cfg={"cip_path": ["<own path>"]})}
        for p_ in params[1:]:
            if p_ in args:
                env[p_] = args[p_]
            elif p_ in defaults:
                env[p_] = defaults[p_]
        env[fn.args.kwarg.arg if fn.args.kwarg else "kwargs"] = {k: v for k, v in args.items() if k not in params}
        kind, res = run_function(ctx, cd.module, fn, env, call_hook=chain(tag_hook, hook), deep=False)
        key = ckey(cd.key + ".generic_message", f"witness:{label}")
        if kind == "unknown":
            ctx.undecided(key, fn, f"generic_message not foldable on {label}: {res}")
            return
        diffs = []
        cls_name = built.get("cls")
        if isinstance(cls_name, str) and cls_name != want_cls or cls_name is None:
            diffs.append(f"builds {cls_name!r} (expected {want_cls})")
        got_kw = built.get("kwargs", {})
        if got_kw != want_kwargs:
            diffs.append(f"packet arguments {got_kw!r} (expected {want_kwargs!r})")
        if built.get("args"):
            diffs.append("packet built with positional arguments")
        if guard is not None and guarded != ([True] if guard else []):
            diffs.append(f"Forward Open guard calls {guarded!r} (expected {'one on self' if guard else 'none'})")
        if kind != "return" or tag_tuple(res) != want_tag:
            diffs.append(f"returns {kind} {tag_tuple(res)!r} (expected {want_tag!r})")
        ctx.check(not diffs, key, fn, f"{label}: {want_cls} with the documented arguments", f"generic_message ({label}): {diffs[:2]}", witness=label)

    ok = _resp(True, value=b"\x34\x12", error=None)
    bad = _resp(False, value=None, error="Service not supported")
    base = {"service": 0x0E, "class_code": b"\x01", "instance": 1, "attribute": b"\x07", "request_data": b"\xde\xad", "data_type": "DT", "name": "my-msg"}
    core = {k: base[k] for k in ("service", "class_code", "instance", "attribute", "request_data", "data_type")}
    run("connected", dict(base), "GenericConnectedRequestPacket", dict(core, sequence="SEQ"), ok, ("my-msg", b"\x34\x12", "DT", None), guard=True)
    run("connected, failed reply", dict(base), "GenericConnectedRequestPacket", dict(core, sequence="SEQ"), bad, ("my-msg", None, "DT", "Service not supported"), guard=True)
    run("unconnected, own route", dict(base, connected=False), "GenericUnconnectedRequestPacket", dict(core, route_path=("EPATH", ["<own path>"], True, True), unconnected_send=False), ok, ("my-msg", b"\x34\x12", "DT", None), guard=False)
    run("unconnected, route string", dict(base, connected=False, route_path="bp/1", unconnected_send=True), "GenericUnconnectedRequestPacket", dict(core, route_path=("EPATH", ("parsed", "bp/1"), True, True), unconnected_send=True), ok, ("my-msg", b"\x34\x12", "DT", None), guard=False)
    run("unconnected, encoded route", dict(base, connected=False, route_path=b"\x01\x00\x01\x00"), "GenericUnconnectedRequestPacket", dict(core, route_path=b"\x01\x00\x01\x00", unconnected_send=False), ok, ("my-msg", b"\x34\x12", "DT", None), guard=False)
    run("unconnected, segment list", dict(base, connected=False, route_path=["<seg>"]), "GenericUnconnectedRequestPacket", dict(core, route_path=("EPATH", ["<seg>"], True, True), unconnected_send=False), ok, ("my-msg", b"\x34\x12", "DT", None), guard=False)
    run("unconnected, no route", dict(base, connected=False, route_path=False), "GenericUnconnectedRequestPacket", dict(core, unconnected_send=False), ok, ("my-msg", b"\x34\x12", "DT", None), guard=False)
    run("unconnected, empty route list", dict(base, connected=False, route_path=[]), "GenericUnconnectedRequestPacket", dict(core, unconnected_send=False), ok, ("my-msg", b"\x34\x12", "DT", None), guard=False)
    run("reply packet asked for", dict(base, return_response_packet=True), "GenericConnectedRequestPacket", dict(core, sequence="SEQ"), ok, ("my-msg", ok, "DT", None), guard=True)
    run("empty reply value stays empty", dict(base), "GenericConnectedRequestPacket", dict(core, sequence="SEQ"), _resp(True, value=b"", error=None), ("my-msg", b"", "DT", None), guard=True)
    run("zero reply value stays zero", dict(base), "GenericConnectedRequestPacket", dict(core, sequence="SEQ"), _resp(True, value=0, error=None), ("my-msg", 0, "DT", None), guard=True)

    # the Unconnected Send wrapper
    wu = ctx.model.func("pycomm3.packets.util:wrap_unconnected_send")
    prio, ticks = ctx.folder.module_value(wu.module.name, "PRIORITY"), ctx.folder.module_value(wu.module.name, "TIMEOUT_TICKS")
    svc = ctx.folder.eval(ast.parse("ConnectionManagerServices.unconnected_send", mode="eval").body, wu.module)
    cmgr = ctx.folder.eval(ast.parse("ClassCode.connection_manager", mode="eval").body, wu.module)

    def rp_hook(call, env, it):
        if (call_name(call) or "") == "request_path" and isinstance(call.func, ast.Name):
            a = [it.ev(x, env) for x in call.args]
            kw = {k.arg: it.ev(k.value, env) for k in call.keywords}
            cls_ = kw.get("class_code", a[0] if a else None)
            inst = kw.get("instance", a[1] if len(a) > 1 else None)
            return b"<rp:" + repr((cls_, inst, kw.get("attribute", a[2] if len(a) > 2 else b""))).encode() + b">"
        return UNKNOWN

    if all(isinstance(x, bytes) for x in (prio, ticks, svc, cmgr)):
        ctx.check((svc, prio[:1] if prio else None) == (b"\x52", prio[:1]) and svc == b"\x52", ckey(wu, "service"), wu.node, "Unconnected Send = 0x52", f"Unconnected Send service is {svc!r}")
        wp = [a.arg for a in wu.node.args.args]
        for label, msg, route in (("odd message", b"\x0e\x03\x20", b"\x01\x00\x01\x00"), ("even message", b"\x0e\x03\x20\x01", b"\x01\x00\x01\x02"), ("empty message", b"", b"\x01\x00\x01\x00")):
            kind, res = run_function(ctx, wu.module, wu.node, {wp[0]: msg, wp[1]: route}, call_hook=rp_hook, deep=False)
            rp_any = [b"<rp:" + repr((cmgr, i_, b"")).encode() + b">" for i_ in (b"\x01", 1)]
            wants = [svc + r_ + prio + ticks + len(msg).to_bytes(2, "little") + msg + (b"\x00" if len(msg) % 2 else b"") + route for r_ in rp_any]
            key = ckey(wu, f"witness:{label}")
            if kind == "unknown":
                ctx.undecided(key, wu.node, f"wrap_unconnected_send not foldable on {label}: {res}")
            else:
                ctx.check(kind == "return" and bytes(res) in wants, key, wu.node, f"{label}: 52 | connection manager instance 1 | priority | ticks | UINT length | message | pad iff odd | route",
                          f"wrap_unconnected_send ({label}) gives {kind} {res!r}; expected {wants[0]!r}")


def _module_info_rule(ctx):
    """get_module_info folded on witness replies: Get Attributes All on the identity object instance 1, unconnected, wrapped in an
    Unconnected Send, routed over the connection's path with its last hop replaced by the backplane slot asked for (word count
    and reserved byte); a valid reply is decoded as a module identity, a failed one raises ResponseError."""
    cd = _cd(ctx)
    fn = cd.methods["get_module_info"]
    ev = lambda s_: ctx.folder.eval(ast.parse(s_, mode="eval").body, cd.module)  # noqa: E731

    def hook(call, env, it):
        n = call_name(call) or ""
        path = attr_path(call.func) or ""
        if path == "PADDED_EPATH.encode":
            kw = {k.arg: it.ev(k.value, env) for k in call.keywords}
            return ("EPATH", tuple(it.ev(call.args[0], env)), kw.get("length", False), kw.get("pad_length", False))
        if n == "PortSegment" and isinstance(call.func, ast.Name):
            return ("P",) + tuple(it.ev(a, env) for a in call.args)
        if path == "ModuleIdentityObject.decode":
            return ("identity", it.ev(call.args[0], env))
        return UNKNOWN

    ps = ctx.model.cls("pycomm3.cip.data_types:PortSegment")
    hop = lambda port, link: _constructed(ctx, ps, port, link) or Obj(_ci=ps, port=port, link_address=link)  # noqa: E731
    paths = [("three hops, the last by name", [hop("bp", 1), hop("enet", "10.11.12.13"), hop("bp", 0)]), ("the last hop by number", [hop("enet", "10.0.0.9"), hop(1, "0")]),
             ("a single numeric hop", [hop(1, "2")]), ("a single named hop", [hop("backplane", 0)]), ("the last hop is a network hop", [hop("bp", 1), hop(2, "10.11.12.13")])]
    for plabel, path in paths:
        for label, valid in (("valid reply", True), ("failed reply", False)):
            seen = {}
            gm = self_call("generic_message", lambda a, k, seen=seen, valid=valid: seen.update(k) or _resp(valid, value=b"<raw identity>" if valid else None, error=None if valid else "Path destination unknown"))
            me = Obj(_ci=cd, _cfg={"cip_path": list(path)})
            kind, res = run_function(ctx, cd.module, fn, {"self": me, fn.args.args[1].arg: 3}, call_hook=chain(hook, gm), deep=False)
            key = ckey(cd.key + ".get_module_info", f"witness:{plabel}:{label}")
            if kind == "unknown":
                ctx.undecided(key, fn, f"get_module_info not foldable on a {label} ({plabel}): {res}")
                continue
            if not valid:
                ctx.check((kind, res) == ("raise", "ResponseError"), key, fn, "failed reply: ResponseError", f"get_module_info with a failed reply: {kind} {res!r}")
                continue
            rp = seen.get("route_path")
            segs = rp[1] if isinstance(rp, tuple) and len(rp) == 4 and rp[0] == "EPATH" else None
            route_ok = segs is not None and rp[2:] == (True, True) and len(segs) == len(path) and all(a_ is b_ for a_, b_ in zip(segs[:-1], path[:-1])) and segs[-1] == ("P", "bp", 3)
            req_ok = seen.get("service") == ev("Services.get_attributes_all") and seen.get("class_code") == ev("ClassCode.identity_object") and seen.get("instance") in (1, b"\x01") and seen.get("connected") is False \
                and seen.get("unconnected_send") is True and route_ok
            kept = len(me._cfg["cip_path"]) == len(path) and all(a_ is b_ for a_, b_ in zip(me._cfg["cip_path"], path))
            show = lambda x: [(getattr(s_, "port", None), getattr(s_, "link_address", None)) if isinstance(s_, Obj) else s_ for s_ in (x or [])]  # noqa: E731
            ctx.check((kind, res) == ("return", ("identity", b"<raw identity>")) and req_ok and kept, key, fn, f"{plabel}: decoded identity of slot 3 over the connection's path with the last hop replaced by backplane / 3; the driver's own path is left alone",
                      (f"get_module_info(3) over {show(path)}: {kind} {res!r}; route {show(segs)} with length / reserved byte {rp[2:] if segs is not None else rp!r} (expected {show(path[:-1])} + backplane slot 3, both flags set); request "
                       f"{dict((k, v) for k, v in seen.items() if k not in ('name', 'route_path'))!r}" if kept else
                       f"get_module_info(3) changes the driver's own connection path to {show(me._cfg['cip_path'])}: every later request routed over the connection path goes to the module"))


rule("C14", "D14.10", "T-WITNESS", floor=12)(_generic_message_rule)
rule("C14", "D14.11", "T-WITNESS", floor=2)(_module_info_rule)
rule("C16", "D16.9", "T-WITNESS", floor=2)(_module_info_rule)
rule("C09", "D9.12", "T-WITNESS", floor=6)(_module_info_rule)
rule("C15", "D15.14", "T-WITNESS", floor=6)(_module_info_rule)
