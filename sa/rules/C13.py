"""C13 -- Replies are classified by their status words; bad replies cannot pass or crash."""
from __future__ import annotations

import ast

from ..astutil import attr_path, call_name, walk, src, strip_docstring
from ..boolexpr import NotBoolean, equivalent, make_fold, parse_spec, parse_spec_atom, show, to_formula, evaluate, atoms, consistent
from ..consteval import UNKNOWN, ClassRef
from ..framework import rule
from ..model import AnalysisError
from ..wrap import WrapSpec, wrap_problems
from .common import PB, PE, PC, PL, PU, LX, ckey, is_super_call, is_self_call

P = "C13"
EXPLANATION = (
    "Static rules D13.1-D13.8 (DESIGN.md section 5, C13): truth tables of all is_valid implementations against the "
    "specification formulas (enumerating every consistent valuation of the status atoms), reply offsets of the two "
    "_parse_reply families and of the extended-status reader against the message-router reply layout, T-WRAP containment "
    "of every _parse_reply override (record mode: failures must end in self._error), the partial-transfer service set, "
    "totality of the error text, and the falsy-subresponse -> error Tag mapping of _send_requests. Decides classification "
    "logic, offsets and containment for every class in the hierarchy; does not decide status text wording."
)
ASSUMPTIONS = [
    "attribute reads on self do not raise (all read attributes are initialised in ResponsePacket.__init__ or the subclass __init__ before super().__init__)",
    "logger calls do not raise",
]


def _response_classes(ctx):
    base = ctx.model.cls(f"{PB}:ResponsePacket")
    return base, [c for c in ctx.model.classes.values() if base in c.mro()]


def _block_formula(ctx, stmts, fold, env, inline):
    """Formula of a block that returns a boolean on every path; None when the block can fall through."""
    for i, st in enumerate(stmts):
        if isinstance(st, ast.Expr) and isinstance(st.value, ast.Constant):
            continue
        if isinstance(st, ast.Assign) and len(st.targets) == 1 and isinstance(st.targets[0], ast.Name):
            env = dict(env)
            env[st.targets[0].id] = to_formula(st.value, fold, env, inline)
            continue
        if isinstance(st, ast.Return):
            if st.value is None:
                raise NotBoolean("bare return")
            return to_formula(st.value, fold, env, inline)
        if isinstance(st, ast.If):
            c = to_formula(st.test, fold, env, inline)
            rest = stmts[i + 1:]
            a = _block_formula(ctx, st.body + rest, fold, env, inline)
            b = _block_formula(ctx, st.orelse + rest, fold, env, inline)
            if a is None or b is None:
                raise NotBoolean("path without return")
            return ("or", [("and", [c, a]), ("and", [("not", c), b])])
        raise NotBoolean(f"statement {type(st).__name__}")
    return None


def method_formula(ctx, cls, name, _depth=0):
    """Formula of cls.<name> resolved through the MRO, with super().<name>() inlined."""
    if _depth > 8:
        raise NotBoolean("recursion")
    mro = cls.mro()
    for i, c in enumerate(mro):
        if name in c.methods:
            fn = c.methods[name]
            fold = make_fold(ctx.folder, c.module, cls=c)

            def inline(call, c=c, i=i):
                if is_super_call(call, name):
                    nxt = [k for k in mro[i + 1:] if name in k.methods]
                    if not nxt:
                        raise NotBoolean("super() without parent implementation")
                    return method_formula(ctx, nxt[0], name, _depth + 1)[0]
                if is_self_call(call) and call.func.attr != name:
                    return method_formula(ctx, cls, call.func.attr, _depth + 1)[0]
                return None

            f = _block_formula(ctx, list(fn.body), fold, {}, inline)
            if f is None:
                raise NotBoolean("falls through")
            return f, c, fn
    raise NotBoolean(f"no {name}")


def spec_formulas(ctx):
    sp = ctx.spec("reply_validity")
    amap = {k: parse_spec_atom(v) for k, v in sp["atoms"].items()}
    return {k: parse_spec(v, amap) for k, v in sp["formulas"].items()}


def _is_valid_by_witnesses(ctx, c, fn, spec):
    """is_valid written with locals or statements: the method is folded on a witness object for every combination of field values
    that distinguishes the atoms of the specification (present / absent error, command, session, identity; command status 0, 1,
    None; service status 0, 6, 4, None; a service inside / outside the partial-transfer set, None) and must give the specified
    truth value each time.  True when it reported (ok, violation or undecided) - False when it could not even start."""
    import itertools

    from ..miniinterp import Obj, fold_method

    mps = ctx.folder.module_value("pycomm3.cip.services", "MULTI_PACKET_SERVICES")
    if not isinstance(mps, frozenset) or not mps:
        return False
    inside = sorted(mps)[0]
    outside = next(bytes([x]) for x in range(1, 255) if bytes([x]) not in mps)
    domain = {"_error": [None, "failed"], "command": [None, b"\x70\x00"], "command_status": [0, 1, None], "service_status": [0, 6, 4, None], "service": [inside, outside, None],
              "session": [None, 5], "identity": [None, {"serial": 1}]}
    fields = sorted({a[0] for a in atoms(spec)})
    if any(f_ not in domain for f_ in fields):
        return False
    key = ckey(c.key + ".is_valid")
    bad = None
    n = 0
    for combo in itertools.product(*[domain[f_] for f_ in fields]):
        vals = dict(zip(fields, combo))
        me = Obj(_ci=c, **{f_: (v if f_ in vals else None) for f_, v in {**{k: v[0] for k, v in domain.items()}, **vals}.items()})
        kind, res = fold_method(ctx, me, "is_valid")
        if kind == "unknown":
            ctx.undecided(key, fn, f"is_valid neither reads as a formula nor folds on the witness {vals!r}: {res}")
            return True
        val = {a: (vals[a[0]] is None if a[1] == "is" else vals[a[0]] == a[2] if a[1] == "==" else vals[a[0]] in mps) for a in atoms(spec)}
        want = evaluate(spec, val)
        n += 1
        if kind != "return" or bool(res) is not want:
            bad = (vals, kind, res, want)
            break
    if bad is None:
        ctx.ok(key, fn, f"is_valid evaluated on {n} field combinations equals the specification", spec=show(spec), witnesses=n)
    else:
        ctx.violation(key, fn, f"is_valid with {bad[0]!r} gives {bad[1]} {bad[2]!r}; the classification rule says {bad[3]}", spec=show(spec))
    return True


@rule(P, "D13.1", "T-TT", floor=6)
def d13_1(ctx):
    """Every is_valid implementation equals its specification formula on all consistent valuations; __bool__ is is_valid."""
    base, classes = _response_classes(ctx)
    specs = spec_formulas(ctx)
    seen = 0
    for c in classes:
        if "is_valid" not in c.methods:
            continue
        seen += 1
        key = f"{c.name}.is_valid"
        fn = c.methods["is_valid"]
        try:
            f, _, _ = method_formula(ctx, c, "is_valid")
        except NotBoolean as err:
            if not (key in specs and _is_valid_by_witnesses(ctx, c, fn, specs[key])):
                ctx.violation(ckey(c.key + ".is_valid"), fn, f"is_valid is not a pure boolean function of the status fields ({err}); cannot equal the specified rule")
            continue
        if key in specs:
            eq, cex = equivalent(f, specs[key])
            if eq:
                ctx.ok(ckey(c.key + ".is_valid"), fn, "truth table equals the specification", formula=show(f), spec=show(specs[key]), atoms=len(atoms(f)))
            elif _is_valid_by_witnesses(ctx, c, fn, specs[key]):
                pass  # (the formula read off the body is not the method's: locals, statements - decided by evaluating the method)
            else:
                ctx.violation(ckey(c.key + ".is_valid"), fn, "truth table differs from the specified classification rule", formula=show(f), spec=show(specs[key]), counterexample=cex,
                              code_says=evaluate(f, _val(f, specs[key], cex)), spec_says=evaluate(specs[key], _val(f, specs[key], cex)))
        else:
            # an override without its own formula may only strengthen its parent's rule
            parents = [k for k in c.mro()[1:] if "is_valid" in k.methods]
            pf, _, _ = method_formula(ctx, parents[0], "is_valid")
            imp, cex = equivalent(("or", [("not", f), pf]), ("const", True))
            ctx.check(imp, ckey(c.key + ".is_valid"), fn, "override only strengthens the inherited rule",
                      "override can report success where the inherited status rule reports failure", formula=show(f), counterexample=cex)
    # __bool__
    fn = base.methods.get("__bool__")
    if fn is None:
        ctx.violation(ckey(base.key + ".__bool__"), base.node, "ResponsePacket has no __bool__: every response object is truthy")
    else:
        body = strip_docstring(fn.body)
        good = len(body) == 1 and isinstance(body[0], ast.Return) and isinstance(body[0].value, ast.Call) and is_self_call(body[0].value, "is_valid") and not body[0].value.args
        ctx.check(good, ckey(base.key + ".__bool__"), fn, "truthiness is is_valid()", "ResponsePacket.__bool__ is not `return self.is_valid()`", body=src(fn)[-80:])
    for c in classes:
        if c is not base and "__bool__" in c.methods:
            ctx.violation(ckey(c.key + ".__bool__"), c.methods["__bool__"], "subclass overrides __bool__, detaching truthiness from is_valid")
    # the membership atom must refer to the services' partial-transfer set
    sud = ctx.model.cls(f"{PE}:SendUnitDataResponsePacket")
    v = ctx.folder.module_value(sud.module.name, "MULTI_PACKET_SERVICES")
    ref = ctx.folder.module_value("pycomm3.cip.services", "MULTI_PACKET_SERVICES")
    ctx.check(v is not UNKNOWN and v == ref, ckey(sud.key + ".is_valid", "set"), sud.methods.get("is_valid") or sud.node,
              "membership test uses cip.services.MULTI_PACKET_SERVICES", "MULTI_PACKET_SERVICES in ethernetip is not the services set")


def _val(f, g, cex):
    al = atoms(f)
    for a in atoms(g):
        if a not in al:
            al.append(a)
    return {a: cex.get(f"{a[0]} {a[1]} {a[2]!r}", False) for a in al}


def _slices_of(ctx, fn_node, module, cls, target_attr):
    """(lower, upper, decoder) of the `self.raw[...]` slice assigned (possibly through calls) to self.<target_attr>."""
    out = []
    for st in walk(fn_node):
        if isinstance(st, ast.Assign) and any(attr_path(t) == f"self.{target_attr}" for t in st.targets):
            for sub in walk(st.value):
                if isinstance(sub, ast.Subscript) and attr_path(sub.value) == "self.raw" and isinstance(sub.slice, ast.Slice):
                    lo = ctx.folder.eval(sub.slice.lower, module, cls=cls) if sub.slice.lower is not None else 0
                    hi = ctx.folder.eval(sub.slice.upper, module, cls=cls) if sub.slice.upper is not None else None
                    dec = None
                    par = getattr(sub, "_parent", None)
                    if isinstance(par, ast.Call) and isinstance(par.func, ast.Attribute) and par.func.attr == "decode":
                        dec = attr_path(par.func.value)
                    out.append((lo, hi, dec, st))
    return out


def _type_size(ctx, module, name):
    v = ctx.folder.module_value(module.name, name)
    if isinstance(v, ClassRef):
        s = ctx.folder.class_attr(v.ci, "size")
        return s if isinstance(s, int) else None
    return None


@rule(P, "D13.2", "T-WITNESS", floor=10)
def d13_2(ctx):
    """Reply offsets equal the message-router reply layout (connected: service 46, general status 48, data 50; unconnected: 40, 42,
    44), the encapsulation command / status / session sit at [0:2] / [8:12] / [4:8], and the extended status is read from the
    general-status offset of the same transport.  Decided by constructing the response classes on witness replies laid out as the
    specification says and comparing every field (D13.9 and the reply groups of D1.12 / D14.8 / D10.10 / D16.7), and by folding the
    extended-status reader (D13.8); an earlier form looked for `self.raw[a:b]` slices and alarmed when the bounds became named
    slice constants."""
    from .packets import _emit

    _emit(ctx, {"read-response", "read-response-errors", "write-response", "fragment-response", "multi-response", "generic-response", "generic-response-errors", "session-response", "identity-response"})
    d13_8(ctx)


def _parse_reply_contained(ctx, cls, memo):
    """Is cls's effective _parse_reply contained (record mode)? memoised per defining class."""
    for c in cls.mro():
        if "_parse_reply" in c.methods:
            if c in memo:
                return memo[c]
            memo[c] = (True, [])  # optimistic for recursion
            probs = wrap_problems(c.methods["_parse_reply"], _record_spec(ctx, c, memo))
            memo[c] = (not probs, probs)
            return memo[c]
    return (True, [])


def _record_spec(ctx, c, memo):
    def safe(call):
        if is_super_call(call, "_parse_reply"):
            nxt = [k for k in c.mro()[1:] if "_parse_reply" in k.methods]
            return bool(nxt) and _parse_reply_contained(ctx, nxt[0], memo)[0]
        if is_self_call(call, "is_valid"):
            try:
                for k in ctx.model.subclasses(c):
                    method_formula(ctx, k, "is_valid")
                return True
            except NotBoolean:
                return False
        return False

    return WrapSpec(mode="record", allowed_raise=set(), passthrough=set(), safe_calls=safe)


@rule(P, "D13.3", "T-WRAP", floor=10)
def d13_3(ctx):
    """Every _parse_reply records parse failures in self._error instead of raising."""
    base, classes = _response_classes(ctx)
    memo = {}
    for c in classes:
        if "_parse_reply" not in c.methods:
            continue
        ok, probs = _parse_reply_contained(ctx, c, memo)
        fn = c.methods["_parse_reply"]
        if ok:
            ctx.ok(ckey(c.key + "._parse_reply"), fn, "all raising statements are inside try/except Exception -> self._error")
        else:
            node, why = probs[0]
            ctx.violation(ckey(c.key + "._parse_reply"), node, f"{why} ({len(probs)} uncontained statement(s))",
                          statements=[f"{getattr(n, 'lineno', '?')}: {src(n).splitlines()[0][:70]}" for n, _ in probs[:12]])
    # the constructor calls _parse_reply only when raw data is present, else records an error
    init = base.methods.get("__init__")
    good = False
    if init is not None:
        for n in walk(init):
            if isinstance(n, ast.If) and any(isinstance(x, ast.Call) and is_self_call(x, "_parse_reply") for s in n.body for x in walk(s)):
                sets_err = any(isinstance(x, ast.Assign) and any(attr_path(t) == "self._error" for t in x.targets) for s in n.orelse for x in walk(s))
                good = sets_err
    ctx.check(good, ckey(base.key + ".__init__", "no-data"), init or base.node, "missing reply data is recorded as an error",
              "ResponsePacket.__init__ no longer records an error when there is no reply data")


@rule(P, "D13.4", "T-SPEC", floor=3)
def d13_4(ctx):
    """Partial-transfer continuation set and reply-service decoding."""
    sp = ctx.spec("reply")
    svc = ctx.model.find_class("Services")
    members = ctx.folder.enum_members(svc)
    mps = ctx.folder.module_value("pycomm3.cip.services", "MULTI_PACKET_SERVICES")
    mod = ctx.model.module("pycomm3.cip.services")
    node = mod.symbols["MULTI_PACKET_SERVICES"].node if "MULTI_PACKET_SERVICES" in mod.symbols else mod.tree
    if mps is UNKNOWN or not isinstance(mps, frozenset):
        ctx.undecided("pycomm3.cip.services:MULTI_PACKET_SERVICES", node, "set does not fold to constants")
        return
    want = frozenset(bytes.fromhex(h) for h in sp["partial_transfer_services"]["codes"])
    ctx.check(mps == want, "pycomm3.cip.services:MULTI_PACKET_SERVICES", node, "set equals the services that legitimately continue after status 6",
              "partial-transfer (status 6) is accepted for a different set of services than the specification allows",
              extra=sorted(x.hex() for x in mps - want), missing=sorted(x.hex() for x in want - mps))
    vals = {v for v in members.values() if isinstance(v, bytes)}
    ctx.check(mps <= vals, "pycomm3.cip.services:MULTI_PACKET_SERVICES#members", node, "every element is a Services member", "set contains codes that are not Services members")
    # reply service = request service | 0x80: decided by folding Services.from_reply on the reply code of every member (D19.7) -
    # an earlier form read the constant out of the subtraction / mask inside the method body
    from .C19 import d19_7

    d19_7(ctx)


@rule(P, "D13.5", "T-ALLPATHS", floor=4)
def d13_5(ctx):
    """An invalid response always has a non-empty error text; unknown status codes format as hex."""
    base = ctx.model.cls(f"{PB}:ResponsePacket")
    fn = base.methods.get("error")
    if fn is None:
        ctx.undecided(base.key + ".error", base.node, "anchor vanished")
        return
    g = ctx.cfg(fn)
    rets = [n for n in g.nodes if n.kind == "stmt" and isinstance(n.ast, ast.Return)]
    valid_tests = [n for n in g.nodes if n.kind == "test" and isinstance(n.ast, ast.Call) and is_self_call(n.ast, "is_valid")]
    probs = []
    for r in rets:
        v = r.ast.value
        if v is None or (isinstance(v, ast.Constant) and v.value is None):
            if not any(g.branch_dominates(t, True, r) for t in valid_tests):
                probs.append((r.ast, "returns None on a path where the response is not valid"))
        elif isinstance(v, ast.Constant):
            if not (isinstance(v.value, str) and v.value):
                probs.append((r.ast, f"returns the constant {v.value!r} as error text"))
        elif attr_path(v) == "self._error":
            # must be guarded by `self._error is not None`
            guarded = False
            for t in g.nodes:
                if t.kind == "test" and isinstance(t.ast, ast.Compare) and attr_path(t.ast.left) == "self._error":
                    if isinstance(t.ast.ops[0], ast.IsNot) and g.branch_dominates(t, True, r):
                        guarded = True
                    if isinstance(t.ast.ops[0], ast.Is) and g.branch_dominates(t, False, r):
                        guarded = True
            if not guarded:
                probs.append((r.ast, "returns self._error without testing that it is set"))
    falls = any(lab != "exc" and p.kind != "stmt" or (p.kind == "stmt" and not isinstance(p.ast, (ast.Return, ast.Raise))) for p, lab in g.exit.pred)
    if falls:
        probs.append((fn, "a path falls off the end (implicit None) for an invalid response"))
    if probs:
        for node, why in probs:
            ctx.violation(ckey(base.key + ".error"), node, why)
    else:
        ctx.ok(ckey(base.key + ".error"), fn, "None only when valid; every other path returns a non-empty text", returns=len(rets))
    # get_service_status: the table's text for a known code, a text naming the code in hex for an unknown one (folded on witnesses)
    from .common import service_status_witnesses

    gss, wit = service_status_witnesses(ctx)
    for ok, role, want, got in wit:
        if ok is None:
            ctx.undecided(ckey(gss, role), gss.node, f"get_service_status not foldable: {got}")
        else:
            ctx.check(ok, ckey(gss, role), gss.node, f"{role}: {want}", f"get_service_status ({role}) gives {got}; expected {want}")
    table = ctx.folder.module_value(gss.module.name, "SERVICE_STATUS")
    if isinstance(table, dict):
        bad = {k: v for k, v in table.items() if not (isinstance(v, str) and v)}
        ctx.check(not bad and 6 in table, "pycomm3.cip.status_info:SERVICE_STATUS", gss.node, "all status texts are non-empty strings", f"status table entries not text: {bad}", entries=len(table))
    else:
        ctx.undecided("pycomm3.cip.status_info:SERVICE_STATUS", gss.node, "table does not fold")
    # every *_extended_status implementation returns a string on all paths
    _, classes = _response_classes(ctx)
    for c in classes:
        for mname in ("command_extended_status", "service_extended_status"):
            m = c.methods.get(mname)
            if m is None:
                continue
            bad = [r for r in walk(m) if isinstance(r, ast.Return) and (r.value is None or (isinstance(r.value, ast.Constant) and not (isinstance(r.value.value, str) and r.value.value)))]
            last = m.body[-1]
            ends = isinstance(last, ast.Return)
            ctx.check(not bad and ends, ckey(f"{c.key}.{mname}"), m, "returns text on every path", "extended status text can be None/empty")


@rule(P, "D13.6", "T-WITNESS", floor=4)
def d13_6(ctx):
    """_send_requests maps a failed reply - and a failed member of a multi-service reply, whatever the enclosing reply says - to a
    Tag with no value and the error text, and a valid one to its value.  Decided by folding on witness requests and replies
    (D1.16).  An earlier form looked for the Tag constructions inside `_send_requests` and fell below its floor when they were
    extracted into helper methods."""
    from .driver import d1_16

    d1_16(ctx)


@rule(P, "D13.7", "T-NULL", floor=4)
def d13_7(ctx):
    """Reply fields that start as None are never measured or joined while still None: the driver's fragment loop uses
    value_bytes whenever the reply's status says 'more data', so (a) a decoded service status implies the reply data was
    sliced out, (b) every parse path of the fragmented read reply binds value_bytes from that data unless a parse error took
    the handler, and (c) each use in the driver is dominated by a status/validity test of the same reply."""
    from ..astutil import ancestors
    from ..linexpr import atom_name

    frag = ctx.model.cls(f"{PL}:ReadTagFragmentedResponsePacket")
    init = frag.methods.get("__init__")
    none_attrs = set()
    for n in walk(init) if init else []:
        if isinstance(n, ast.Assign) and isinstance(n.value, ast.Constant) and n.value.value is None:
            for t in n.targets:
                if (attr_path(t) or "").startswith("self."):
                    none_attrs.add(t.attr)
    # keep the fields only this reply class stores (a name like `value` is shared with unrelated objects and cannot be
    # attributed to this class without types)
    for c in ctx.model.classes.values():
        if frag in c.mro():
            continue
        for m in c.methods.values():
            for n in walk(m):
                if isinstance(n, ast.Attribute) and isinstance(n.ctx, ast.Store) and n.attr in none_attrs and attr_path(n) == f"self.{n.attr}":
                    none_attrs.discard(n.attr)
    drv = ctx.model.cls(f"{LX}:LogixDriver")
    uses = []
    for m in drv.methods.values():
        for n in walk(m):
            if isinstance(n, ast.Attribute) and isinstance(n.ctx, ast.Load) and n.attr in none_attrs and not attr_path(n).startswith("self."):
                p = getattr(n, "_parent", None)
                needs = (isinstance(p, ast.Call) and call_name(p) == "len") or isinstance(p, (ast.GeneratorExp, ast.ListComp, ast.Subscript, ast.BinOp))
                if needs:
                    uses.append((m, n))
    attrs = sorted({n.attr for _, n in uses})
    if not attrs:
        ctx.undecided(ckey(frag.key, "nullable-fields"), frag.node, f"no driver use of a None-initialised reply field found ({sorted(none_attrs)})")
        return
    # (a) a decoded service status implies the reply data was sliced out, and (b) a valid fragment always carries its value bytes:
    # decided by constructing the response classes on witness replies cut at every length (D13.9 `cut-replies`: never raises; valid
    # only with its status word; status decoded => data present; valid fragment => value bytes present) - an earlier form required the
    # data slice to follow the status decode as the next statement and alarmed when the offsets became named constants / locals
    from .packets import _emit

    _emit(ctx, {"cut-replies", "fragment-response"})
    # (c) consumers
    for mth, n in uses:
        g = ctx.cfg(mth)
        st = n
        while not isinstance(st, ast.stmt):
            st = getattr(st, "_parent")
        nodes = g.nodes_of(st)
        base = attr_path(n.value)
        ok, how = False, ""
        comp = next((a_ for a_ in ancestors(n) if isinstance(a_, (ast.GeneratorExp, ast.ListComp))), None)
        for t in g.nodes:
            if t.kind != "test" or not nodes or t.ast is None:
                continue
            facts = []  # expressions known to be true at the use
            if g.branch_dominates(t, True, nodes[0]):
                facts += t.ast.values if isinstance(t.ast, ast.BoolOp) and isinstance(t.ast.op, ast.And) else [t.ast]
            if g.branch_dominates(t, False, nodes[0]):
                # the test is false here: each disjunct is false, i.e. its negation holds (`x != c` false -> `x == c`; `not r` false -> `r`)
                for d_ in (t.ast.values if isinstance(t.ast, ast.BoolOp) and isinstance(t.ast.op, ast.Or) else [t.ast]):
                    if isinstance(d_, ast.Compare) and len(d_.ops) == 1 and isinstance(d_.ops[0], ast.NotEq):
                        facts.append(ast.copy_location(ast.Compare(left=d_.left, ops=[ast.Eq()], comparators=d_.comparators), d_))
                    elif isinstance(d_, ast.UnaryOp) and isinstance(d_.op, ast.Not):
                        facts.append(d_.operand)
            for e in facts:
                if comp is None and isinstance(e, ast.Compare) and attr_path(e.left) == f"{base}.service_status" and isinstance(e.ops[0], ast.Eq) and isinstance(ctx.folder.eval(e.comparators[0], drv.module), int):
                    ok, how = True, f"under `{ast.unparse(e)}`"
                if comp is not None and isinstance(e, ast.Call) and call_name(e) == "all" and e.args and atom_name(e.args[0]) == atom_name(comp.generators[0].iter) and atom_name(comp.generators[0].target) == base:
                    ok, how = True, f"every element valid: `{ast.unparse(e)}`"
                if comp is None and (atom_name(e) == base or (isinstance(e, ast.Call) and attr_path(e.func) == f"{base}.is_valid")):
                    ok, how = True, f"under `{ast.unparse(e)}`"
        ctx.check(ok, ckey(f"{drv.key}.{mth.name}", f"nonnull:{src(n)}@{'comp' if comp is not None else 'stmt'}"), n, f"`{src(n)}` used {how}", f"`{src(n)}` is measured/joined without a dominating status or validity test of that reply: it is None for replies that failed to parse")


@rule(P, "D13.8", "T-WITNESS", floor=8)
def d13_8(ctx):
    """Status text folded on witness replies (sa/miniinterp.py with a witness stream): for every row of a sample of the
    extended-status table the text names that row; a status without extended words, an unknown extended code and an unknown
    extended-size give the documented fallbacks; the two per-class formatters prepend the general status text and read the
    status words at their class's offset."""
    from ..miniinterp import Obj, run_function

    ges = ctx.model.func(f"{PU}:get_extended_status")
    codes = ctx.folder.module_value("pycomm3.cip.status_info", "EXTEND_CODES")
    svc = ctx.folder.module_value("pycomm3.cip.status_info", "SERVICE_STATUS")
    if not isinstance(codes, dict) or not isinstance(svc, dict):
        ctx.undecided(ckey(ges, "witness"), ges.node, "status tables not foldable")
        return
    a_msg, a_start = [a.arg for a in ges.node.args.args][:2]
    samples = []
    for st, rows in sorted(codes.items()):
        ks = sorted(rows)
        for ext in {ks[0], ks[-1], ks[len(ks) // 2]}:
            samples.append((st, ext, rows[ext]))
    for st, ext, text in samples[:24]:
        for start in (42, 48):
            msg = bytes(start) + bytes([st, 1]) + ext.to_bytes(2, "little")
            kind, res = run_function(ctx, ges.module, ges.node, {a_msg: msg, a_start: start})
            key = ckey(ges, f"witness:{st:02x}/{ext:04x}@{start}")
            if kind == "unknown":
                ctx.undecided(key, ges.node, f"get_extended_status not foldable: {res}")
                continue
            ok = kind == "return" and isinstance(res, str) and text in res and f"{st:0>2x}" in res and f"{ext:0>2x}" in res
            ctx.check(ok, key, ges.node, f"status {st:#04x} ext {ext:#06x} -> '{text}...'", f"extended status {st:#04x}/{ext:#06x} at offset {start} gives {res!r} (expected the table text '{text}' with both codes)", status=st, ext=ext)
    for label, msg, want in (("no extended words", bytes(48) + b"\x08\x00", None), ("unknown extended code", bytes(48) + b"\x01\x01\xfe\xff", None), ("three extended words", bytes(48) + b"\x01\x03" + bytes(6), "[ERROR] Extended Status Size Unknown")):
        kind, res = run_function(ctx, ges.module, ges.node, {a_msg: msg, a_start: 48})
        key = ckey(ges, f"witness:{label}")
        if kind == "unknown":
            ctx.undecided(key, ges.node, f"not foldable: {res}")
            continue
        ctx.check(kind == "return" and res == want, key, ges.node, f"{label} -> {want!r}", f"{label}: {kind} {res!r} (expected {want!r})")
    # replies cut inside the status block: whatever the reader does, it does not fail with a foreign exception (an index / key /
    # type error out of `error` would crash the caller that only wanted the text)
    for label, msg in (("cut right after the status byte", bytes(48) + b"\x04"), ("cut before the status byte", bytes(48)), ("cut inside the extended word", bytes(48) + b"\x04\x01\x05")):
        kind, res = run_function(ctx, ges.module, ges.node, {a_msg: msg, a_start: 48})
        key = ckey(ges, f"witness:{label}")
        if kind == "unknown":
            ctx.undecided(key, ges.node, f"not foldable: {res}")
            continue
        ok = kind == "return" or (kind == "raise" and res in ("DataError", "BufferEmptyError"))
        ctx.check(ok, key, ges.node, f"{label}: a text, None or the codec's own DataError", f"{label}: {kind} {res!r} - a foreign exception escapes the status reader")
    # the per-class formatters
    for cname, off in (("SendUnitDataResponsePacket", 48), ("SendRRDataResponsePacket", 42)):
        c = ctx.model.cls(f"{PE}:{cname}")
        for meth, attr in (("service_extended_status", "service_status"), ("command_extended_status", "command_status")):
            fn = c.methods.get(meth)
            if fn is None:
                continue
            st, ext = samples[0][0], samples[0][1]
            raw = bytes(off) + bytes([st, 1]) + ext.to_bytes(2, "little")
            me = Obj(raw=raw, service_status=st, command_status=st)
            kind, res = run_function(ctx, c.module, fn, {"self": me}, deep=False)
            key = ckey(f"{c.key}.{meth}", "witness")
            if kind == "unknown":
                ctx.undecided(key, fn, f"not foldable: {res}")
                continue
            gen = svc.get(st, "")
            ok = kind == "return" and isinstance(res, str) and gen in res and samples[0][2] in res
            ctx.check(ok, key, fn, f"'{gen} - {samples[0][2]}...'", f"{cname}.{meth} gives {res!r} for status {st:#04x} with extended {ext:#06x} at offset {off} (expected the general text '{gen}' and the extended text)")
            me2 = Obj(raw=bytes(off) + bytes([st, 0]), service_status=st, command_status=st)
            kind, res = run_function(ctx, c.module, fn, {"self": me2}, deep=False)
            ctx.check(kind == "return" and res == gen, ckey(f"{c.key}.{meth}", "witness-no-ext"), fn, f"without extended words: '{gen}'", f"{cname}.{meth} gives {res!r} for status {st:#04x} without extended words (expected '{gen}')")


# the outcome of a fragmented transfer is classified from every fragment's reply (a failed fragment fails the transfer whichever
# position it has): the fragmented senders' witnesses are obligations of this property too
from .driver import d4_10 as _d4_10  # noqa: E402

rule(P, "D13.11", "T-WITNESS", floor=4)(_d4_10)

# the Forward Open fallback (Large -> standard) and every failed open read the refusal's error text: a foreign exception out of
# the status reader leaves the open half-done - the same witnesses are obligations of the connection lifecycle (C10)
rule("C10", "D10.16", "T-WITNESS", floor=6)(d13_8)
