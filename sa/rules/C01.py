"""C01 -- Tag reads return exactly what the controller holds."""
from __future__ import annotations

import ast

from ..astutil import attr_path, call_name, walk, src, enclosing_func, ancestors
from ..consteval import UNKNOWN, ClassRef
from ..framework import rule
from ..linexpr import Lin, atom_name, cmp_norm, lin
from .common import witness_instance, DT, LX, PE, PL, PU, ckey

P = "C01"
EXPLANATION = (
    "Static rules D1.1-D1.11 (DESIGN.md section 5, C01) on the plumbing every read depends on: both reply-splitting sites use the "
    "same structure marker (A0 02, from the specification) and header lengths 4/2 and parse_value re-prepends exactly the header "
    "it removed; multi-service demultiplexing constants (padding = offset of the service byte in the connected reply parser, "
    "count at 0, offsets from 2, UINT entries, consecutive start/end pairing, positional pairing with the requests); decoder "
    "dispatch (array classes decoded with length=elements, single-element unwrapping, visible-attribute projection of "
    "structures); agreement of the dict records between producers and consumers (every must-exist key read is written by every "
    "producer); bit extraction operators; BOOL-array word arithmetic constants (32 = DWORD bits) and the ceiling idiom for the "
    "element count; the reported type strings; hidden members never leave StructTag._decode at any nesting depth. Value equality with controller memory is a run-time fact and is not decided."
)
ASSUMPTIONS = ["the uploaded tag database describes the controller (C05)", "codec correctness is decided under C06/C07"]


@rule(P, "D1.1", "T-WITNESS", floor=4)
def d1_1(ctx):
    """Both reply-splitting sites cut the type prefix where the wire format puts it: 2 bytes, 4 when the reply starts with the
    structure marker A0 02; `parse_value` decodes the prefix it removed together with the accumulated value bytes.  Decided
    by folding `parse_read_reply` on witness replies (D1.13) and the fragment response class on witness frames (the
    fragment-response group of sa/rules/packets.py).  An earlier form compared the two sites' source shapes and alarmed on
    refactors that keep the split."""
    from .packets import _emit, d1_13

    d1_13(ctx)
    _emit(ctx, {"fragment-response"})


@rule(P, "D1.2", "T-WITNESS", floor=5)
def d1_2(ctx):
    """Multi-service demultiplexing: the reply carries a UINT count and a table of UINT offsets relative to the count field,
    member i is data[offset_i : offset_{i+1}] (the last one to the end), is parsed by the response class of request i and sees
    its service / status / data where the connected parser reads them; the request writes the same table.  Decided on
    witness frames (multi-request / multi-response groups of sa/rules/packets.py).  An earlier form matched the `tee` /
    `zip_longest` idiom and the literal padding assignment and alarmed on equivalent list-based code."""
    from .packets import _emit

    _emit(ctx, {"multi-response", "multi-request"})


@rule(P, "D1.4", "T-WITNESS", floor=3)
def d1_4(ctx):
    """parse_read_reply: arrays decoded with length = elements; the single element is unwrapped only for one non-bit element;
    structures are projected on their visible attributes (strings are not).  Decided by folding on 8 witness reply forms
    (D1.13); hidden members at any nesting depth are D1.10."""
    from .packets import d1_13

    d1_13(ctx)


KEY_CONSUMERS = ("read", "write", "_read_build_multi_requests", "_read_build_single_request", "_write_build_multi_requests", "_write_build_single_request")
REQ_NAMES = ("request_data", "parsed_tag", "tag_data")


@rule(P, "D1.5", "T-KEYS", floor=20)
def d1_5(ctx):
    """Record shape: every must-exist key read from the parsed-request record / tag-definition record is written by every producer."""
    lx = ctx.model.cls(f"{LX}:LogixDriver")
    # --- parsed-request record
    ptr = lx.methods["_parse_tag_request"]
    rets = [r for r in walk(ptr) if isinstance(r, ast.Return) and isinstance(r.value, ast.Dict)]
    produced = set()
    for r in rets:
        keys = {ctx.folder.eval(k, lx.module) for k in r.value.keys if k is not None}
        produced = keys if not produced else produced & keys
    prt = lx.methods["_parse_requested_tags"]
    for n in walk(prt):
        if isinstance(n, ast.Dict):
            ks = {ctx.folder.eval(k, lx.module) for k in n.keys if k is not None}
            if "request_id" in ks:
                produced |= ks
    # keys added later on every path before the consumers: "value" (write), "write_value" (builders)
    w = lx.methods["write"]
    if any(isinstance(n, ast.Assign) and isinstance(n.targets[0], ast.Subscript) and ctx.folder.eval(n.targets[0].slice, lx.module) == "value" for n in walk(w)):
        produced.add("value")
    late = {"write_value", "error"}
    n_reads = 0
    for mname in KEY_CONSUMERS:
        fn = lx.methods[mname]
        for n in walk(fn):
            if isinstance(n, ast.Subscript) and isinstance(n.ctx, ast.Load) and isinstance(n.slice, ast.Constant) and isinstance(n.slice.value, str):
                base = n.value
                nm = atom_name(base)
                if nm in REQ_NAMES or (isinstance(base, ast.Subscript) and atom_name(base.value) == "parsed_requests"):
                    k = n.slice.value
                    n_reads += 1
                    if k in late:
                        # must be stored earlier in the same function on the path (dominance)
                        g = ctx.cfg(fn)
                        st = n
                        while not isinstance(st, ast.stmt):
                            st = getattr(st, "_parent")
                        use = g.nodes_of(st)
                        stores = [x for x in g.nodes if x.kind == "stmt" and isinstance(x.ast, ast.Assign) and isinstance(x.ast.targets[0], ast.Subscript) and isinstance(x.ast.targets[0].slice, ast.Constant) and x.ast.targets[0].slice.value == k]
                        tests = [t for t in g.nodes if t.kind == "test" and k in src(t.ast)]
                        doms = g.dominators().get(use[0], set()) if use else set()
                        ok = any(s in doms for s in stores) or any(t in doms for t in tests) or (use and any(s is use[0] for s in stores))
                        ctx.check(bool(ok), ckey(f"{lx.key}.{mname}", f"key:{k}#{n.lineno - fn.lineno}"), n, f"'{k}' is stored/tested before it is read", f"'{k}' is read from the request record without being stored on this path")
                        continue
                    ctx.check(k in produced, ckey(f"{lx.key}.{mname}", f"key:{k}"), n, f"'{k}' is written by the request parser", f"request record key '{k}' is read here but no producer writes it (KeyError turns every such request into an error Tag)", produced=sorted(produced))
    ev = ctx.model.func(f"{LX}:encode_value")
    for n in walk(ev.node):
        if isinstance(n, ast.Subscript) and isinstance(n.ctx, ast.Load) and atom_name(n.value) == "parsed_tag" and isinstance(n.slice, ast.Constant):
            ctx.check(n.slice.value in produced, ckey(ev, f"key:{n.slice.value}"), n, f"'{n.slice.value}' is written by the request parser", f"encode_value reads request key '{n.slice.value}' that no producer writes", produced=sorted(produced))
    # --- tag-definition record: keys of _create_tag and member records
    ct = lx.methods["_create_tag"]
    tag_keys = set()
    for n in walk(ct):
        if isinstance(n, ast.Dict):
            tag_keys |= {ctx.folder.eval(k, lx.module) for k in n.keys if k is not None}
        if isinstance(n, ast.Assign) and isinstance(n.targets[0], ast.Subscript) and atom_name(n.targets[0].value) == "new_tag" and isinstance(n.targets[0].slice, ast.Constant):
            tag_keys.add(n.targets[0].slice.value)
        if isinstance(n, ast.Assign) and atom_name(n.targets[0]) == "copy_keys" and isinstance(n.value, ast.List):
            tag_keys |= {e.value for e in n.value.elts if isinstance(e, ast.Constant)}
    mi = lx.methods["_parse_template_data_member_info"]
    mem_keys = set()
    for n in walk(mi):
        if isinstance(n, ast.Dict):
            mem_keys |= {ctx.folder.eval(k, lx.module) for k in n.keys if k is not None}
        if isinstance(n, ast.Assign) and isinstance(n.targets[0], ast.Subscript) and atom_name(n.targets[0].value) == "member" and isinstance(n.targets[0].slice, ast.Constant):
            # unconditional stores only
            if getattr(n, "_parent", None) is mi:
                mem_keys.add(n.targets[0].slice.value)
    both = tag_keys & mem_keys
    consumers = [ctx.model.func(f"{PU}:parse_read_reply"), ctx.model.func(f"{LX}:_tag_return_size"), ev]
    consumers += [ctx.model.func(f"{PL}:WriteTagRequestPacket.__init__"), ctx.model.func(f"{PL}:ReadModifyWriteRequestPacket.__init__"), ctx.model.func(f"{PU}:tag_request_path")]
    for fi in consumers:
        for n in walk(fi.node):
            if isinstance(n, ast.Subscript) and isinstance(n.ctx, ast.Load) and isinstance(n.slice, ast.Constant) and isinstance(n.slice.value, str):
                nm = atom_name(n.value)
                direct = nm in ("tag_info", "data_type") and fi.qualname != "encode_value" or (isinstance(n.value, ast.Subscript) and src(n.value).replace('"', "'") in ("parsed_tag['tag_info']", "tag_data['tag_info']"))
                if direct and n.slice.value in ("data_type", "data_type_name", "type_class", "tag_type", "instance_id"):
                    k = n.slice.value
                    if k == "instance_id":
                        continue  # guarded by tag_info.get('instance_id') in tag_request_path
                    ctx.check(k in both, ckey(fi, f"tagkey:{k}"), n, f"'{k}' is defined for tags and structure members alike", f"tag definition key '{k}' is read here but is not written for both base tags and structure members", tag_keys=sorted(tag_keys), member_keys=sorted(mem_keys))
    if n_reads < 20:
        ctx.undecided(ckey(lx.key, "request-record-reads"), lx.node, f"only {n_reads} request-record reads found")


@rule(P, "D1.6", "T-WITNESS", floor=3)
def d1_6(ctx):
    """Bit extraction: integer bit = value & (1 << bit); BOOL array = slice [bit : bit + n] / index [bit]; the interpretation
    follows the tag's type.  Decided by folding `read` on witness replies (the obligations of D1.14): an earlier form of this
    rule matched the expression shapes and raised an alarm on `(value >> bit) & 1`, which behaves the same."""
    from .driver import d1_14

    d1_14(ctx)


@rule(P, "D1.7", "T-WITNESS", floor=5)
def d1_7(ctx):
    """BOOL-array word arithmetic: a BOOL-array word holds DWORD.size * 8 = 32 bits; reads address element [0] and keep the bit
    index, writes address word idx // 32; element count = ceil((bit + count) / 32); a DWORD array of n elements is BOOL[n * 32];
    bit writes reduce the index modulo 32.  The constant is checked against the specification table; the arithmetic is decided
    by folding `_parse_tag_request` (D1.11), `parse_read_reply` (D1.13), `encode_value` (D2.10) and the read-modify-write
    packet (bit-write frames) on witness requests that cross a word boundary.  An earlier form compared expression spellings
    (`idx // 32` vs `idx >> 5`) and alarmed on equivalent arithmetic."""
    from .C02 import d2_10
    from .packets import _emit, d1_13

    dw = ctx.model.cls(f"{DT}:DWORD")
    bits = ctx.folder.class_attr(dw, "size")
    bits = bits * 8 if isinstance(bits, int) else None
    want = ctx.spec("logix_symbol")["bool_array_word_bits"]
    ctx.check(bits == want, ckey(dw.key, "bits"), dw.node, f"a BOOL-array word holds {want} bits", f"DWORD holds {bits} bits")
    d1_11(ctx)
    d1_13(ctx)
    d2_10(ctx)
    _emit(ctx, {"bit-write", "bit-write-refusals"})


@rule(P, "D1.8", "T-WITNESS", floor=3)
def d1_8(ctx):
    """Type strings: `[n]` exactly when elements > 1; BOOL[n*32] for DWORD arrays; BOOL / BOOL[k] for bit and BOOL-range reads;
    results carry the user's tag name.  Decided by folding `parse_read_reply` (D1.13) and `read` (D1.14) on witnesses."""
    from .driver import d1_14
    from .packets import d1_13

    d1_13(ctx)
    d1_14(ctx)


@rule(P, "D1.9", "T-WITNESS", floor=2)
def d1_9(ctx):
    """The BOOL-array index helper splits name and index at the last bracket, and `_parse_tag_request` addresses the member
    the index belongs to.  Decided by folding `get_array_index` (D1.19) and `_parse_tag_request` (D1.11) on witnesses with an
    earlier subscript in the path (`udt_arr[2].flags[5]`)."""
    from .driver import d1_19

    d1_19(ctx)
    d1_11(ctx)


@rule(P, "D1.10", "T-FILTER", floor=2)
def d1_10(ctx):
    """Hidden members never reach a decoded structure value at any nesting depth: StructTag._decode (which nested members
    decode through) returns only names outside cls.private; the reply-level projection alone covers the outermost level only."""
    from .common import CT, structtag_visible_only

    tag = ctx.model.cls(f"{CT}:StructTag.StructTag")
    res = structtag_visible_only(ctx, tag)
    if res is None:
        ctx.undecided(ckey(tag.key, "_decode#visible-only"), tag.node, "StructTag._decode not found")
        return
    ctx.check(bool(res), ckey(tag.key, "_decode#returns"), tag.methods["_decode"], "decode returns a value", "StructTag._decode returns nothing")
    for i, (ok, how, node) in enumerate(res):
        ctx.check(ok, ckey(tag.key, f"_decode#visible-only{'' if not i else i}"), node, how,
                  "StructTag._decode returns hidden (private/host) members: a structure nested in another structure or array element shows its ZZZZZZZZZZ*/CTL host members in read values")


@rule(P, "D1.3", "T-ACC", floor=4)
def d1_3(ctx):
    """Fragment reassembly by byte offset: the next request offset is the number of value bytes received so far, the loop
    continues exactly on 'more data', the value bytes are joined in order - the same obligations as D4.5, owned here for
    'a read returns exactly what the controller holds' (a wrong offset drops or repeats bytes of the value)."""
    from .C04 import d4_5

    d4_5(ctx)


@rule(P, "D1.11", "T-WITNESS", floor=20)
def d1_11(ctx):
    """_parse_tag_request folded on one witness request per form (sa/miniinterp.py; the tag-definition look-up is a witness):
    plain tags, `{n}`, `[i]`, members, program scope, `.bit` on integers, BOOL-array elements and ranges (read and write
    direction).  The record must carry the controller tag to address, the element count to request, the bit index and the
    BOOL count that an independent reading of the request gives."""
    from ..miniinterp import Obj, run_function

    lx = ctx.model.cls(f"{LX}:LogixDriver")
    fn = lx.methods["_parse_tag_request"]
    p_tag = fn.args.args[1].arg
    p_rw = fn.args.args[2].arg if len(fn.args.args) > 2 else "rw"
    dint, dword, udt = {"data_type": "DINT", "tag_type": "atomic"}, {"data_type": "DWORD", "tag_type": "atomic"}, {"data_type": {"name": "MyUdt"}, "tag_type": "struct"}
    infos = {"d": dint, "arr": dint, "flags": dword, "udt": udt, "udtarr": udt, "Program:Main.d": dint, "Program:Main.flags": dword}

    def hook(call, env, it):
        if attr_path(call.func) == "self._get_tag_info":
            base = it.ev(call.args[0], env)
            attrs = it.ev(call.args[1], env)
            hook.seen.append((base, list(attrs)))
            from ..miniinterp import Raise

            stripped = base.split("[")[0]
            if stripped not in infos:
                raise Raise("KeyError")
            base = stripped
            if attrs:
                return {"data_type": "DWORD", "tag_type": "atomic"} if attrs[-1].startswith("bits") else dint
            return infos[base]
        return UNKNOWN

    #          request            rw   plc_tag          elements bit   bool_elements  lookup
    W = [
        ("d", "r", "d", 1, None, None, ("d", [])), ("d{5}", "r", "d", 5, None, None, ("d", [])), ("arr[3]", "r", "arr[3]", 1, None, None, ("arr[3]", [])),
        ("arr[3]{10}", "r", "arr[3]", 10, None, None, ("arr[3]", [])), ("d.5", "r", "d", 1, 5, None, ("d", [])), ("d.31", "w", "d", 1, 31, None, ("d", [])),
        ("udt.member", "r", "udt.member", 1, None, None, ("udt", ["member"])), ("udt.member.3", "r", "udt.member", 1, 3, None, ("udt", ["member"])),
        ("udtarr[2].member{4}", "r", "udtarr[2].member", 4, None, None, ("udtarr[2]", ["member"])),
        ("Program:Main.d", "r", "Program:Main.d", 1, None, None, ("Program:Main.d", [])), ("Program:Main.d.7", "r", "Program:Main.d", 1, 7, None, ("Program:Main.d", [])),
        ("flags[5]", "r", "flags[0]", 1, 5, None, ("flags[5]", [])), ("flags[37]", "r", "flags[0]", 2, 37, None, ("flags[37]", [])), ("flags[37]", "w", "flags[1]", 2, 37, None, ("flags[37]", [])),
        ("flags[0]{64}", "r", "flags[0]", 2, 0, 64, ("flags[0]", [])), ("flags[20]{20}", "r", "flags[0]", 2, 20, 20, ("flags[20]", [])), ("flags[32]{40}", "w", "flags[1]", 3, 32, 40, ("flags[32]", [])),
        ("flags[3]{1}", "r", "flags[0]", 1, 3, None, ("flags[3]", [])), ("flags{96}", "r", "flags", 3, None, 96, ("flags", [])), ("flags", "r", "flags", 1, None, None, ("flags", [])),
        ("udt.bits[40]", "r", "udt.bits[0]", 2, 40, None, ("udt", ["bits[40]"])),
        ("nosuch", "r", "RequestError", None, None, None, None), ("d{x}", "r", "RequestError", None, None, None, None),
        # malformed element counts: an unclosed or unopened brace is part of a (non-existent) tag name, never a count
        ("d{33", "r", "RequestError", None, None, None, None), ("d}", "r", "RequestError", None, None, None, None), ("d{}", "r", "RequestError", None, None, None, None),
    ]
    for req, rw, plc, n, bit, bools, look in W:
        hook.seen = []
        kind, res = run_function(ctx, lx.module, fn, {"self": witness_instance(lx), p_tag: req, p_rw: rw}, call_hook=hook, deep=False)
        key = ckey(f"{lx.key}._parse_tag_request", f"witness:{req}/{rw}")
        if kind == "unknown":
            ctx.undecided(key, fn, f"_parse_tag_request not foldable on `{req}`: {res}")
            continue
        if plc == "RequestError":
            ctx.check(kind == "raise" and res == "RequestError", key, fn, f"`{req}` is refused with RequestError", f"`{req}` gives {kind} {res!r} instead of RequestError")
            continue
        if kind != "return" or not isinstance(res, dict):
            ctx.violation(key, fn, f"`{req}` ({rw}) gives {kind} {res!r} instead of a request record")
            continue
        got = (res.get("plc_tag"), res.get("elements"), res.get("bit"), res.get("bool_elements"))
        diffs = [f"{k}={g!r} (expected {w!r})" for k, g, w in zip(("plc_tag", "elements", "bit", "bool_elements"), got, (plc, n, bit, bools)) if g != w]
        if look is not None and hook.seen and hook.seen[0] != (look[0], look[1]):
            diffs.append(f"definition looked up as {hook.seen[0]} (expected {look})")
        if res.get("user_tag") != req.split("{")[0]:
            diffs.append(f"user_tag={res.get('user_tag')!r}")
        ctx.check(not diffs, key, fn, f"`{req}` ({rw}) -> {plc} x{n}" + (f" bit {bit}" if bit is not None else "") + (f" bools {bools}" if bools else ""),
                  f"request `{req}` ({'read' if rw == 'r' else 'write'}) is parsed as {diffs}: another element / count / bit is requested than asked for", witness=req)
