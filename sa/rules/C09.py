"""C09 -- Emitted CIP paths denote the addressed object."""
from __future__ import annotations

import ast

from ..astutil import attr_path, call_name, walk, src
from ..boolexpr import NotBoolean, equivalent, make_fold, show as fshow, to_formula
from ..bytelayout import Layouter, flatten, show, strip_guards
from ..consteval import UNKNOWN, ClassRef
from ..framework import rule
from ..linexpr import atom_name, cmp_norm, lin
from .common import DT, PU, ckey

P = "C09"
EXPLANATION = (
    "Static rules D9.1-D9.8 (DESIGN.md section 5, C09): segment type / logical type / logical format bit tables against CIP "
    "Vol.1 App. C-1.4 (spec/epath.json) incl. disjointness of the bit fields; the value->width dispatch of logical segments "
    "(thresholds 2^(8w)-1 ascending, out of range raises); pad-parity rules of logical, symbolic and port segments and the word "
    "count prefix of the padded EPATH; that every literal segment kind used at a construction site exists in its table; the "
    "construction order of tag paths (symbol-instance addressing condition as a truth table, index and member segments in "
    "order) and of class/instance/attribute paths; the port segment layout with the extended-link bit and the confinement of port numbers to the 4-bit port field. The oracle is the CIP "
    "specification table, so a wrong reserved bit pattern is visible although the library never decodes paths."
)
ASSUMPTIONS = ["tag strings are well-formed (string parsing of _find_tag_index is value-level and not decided)"]


def _seg(ctx, name):
    return ctx.model.cls(f"{DT}:{name}")


@rule(P, "D9.1", "T-SPEC", floor=10)
def d9_1(ctx):
    """Segment type, logical type and logical format bits equal CIP App. C-1.4; bit fields are disjoint."""
    sp = ctx.spec("epath")
    st = sp["segment_type_bits"]
    names = {"PortSegment": "port", "LogicalSegment": "logical", "NetworkSegment": "network", "SymbolicSegment": "symbolic", "DataSegment": "data", "ConstructedDataTypeSegment": "constructed_data_type", "ElementaryDataTypeSegment": "elementary_data_type"}
    for cname, key in names.items():
        c = _seg(ctx, cname)
        v = ctx.folder.class_attr(c, "segment_type")
        ctx.check(v == st[key] and isinstance(v, int) and v & ~st["mask"] == 0, ckey(c.key, "segment_type"), c.attr_nodes.get("segment_type", c.node), f"{cname}.segment_type = {st[key]:#04x}",
                  f"{cname}.segment_type is {v!r}; CIP assigns {st[key]:#04x} (bits 7-5)", got=v)
    ls = _seg(ctx, "LogicalSegment")
    lt = ctx.folder.class_attr(ls, "logical_types")
    want = {k: v for k, v in sp["logical_type_bits"].items() if k != "mask"}
    mask = sp["logical_type_bits"]["mask"]
    if isinstance(lt, dict):
        for k in sorted(set(lt) | set(want)):
            if k in lt and k in want:
                ctx.check(lt[k] == want[k] and lt[k] & ~mask == 0, ckey(ls.key, f"logical_types[{k}]"), ls.attr_nodes.get("logical_types"), f"{k} = {want[k]:#04x}", f"logical type {k} is {lt[k]!r}; CIP assigns {want[k]:#04x} (bits 4-2)", got=lt[k])
            elif k in lt:
                ctx.ok(ckey(ls.key, f"logical_types[{k}]") + "#unpinned", ls.attr_nodes.get("logical_types"), "no specification row (not judged)")
    else:
        ctx.undecided(ckey(ls.key, "logical_types"), ls.node, "table does not fold")
    lf = ctx.folder.class_attr(ls, "logical_format")
    wantf = {int(k): v for k, v in sp["logical_format_bits"]["by_value_width"].items()}
    fmask = sp["logical_format_bits"]["mask"]
    if isinstance(lf, dict):
        for w in sorted(set(lf) | set(wantf)):
            got = lf.get(w)
            if w not in wantf:
                ctx.violation(ckey(ls.key, f"logical_format[{w}]"), ls.attr_nodes.get("logical_format"), f"logical format table has a {w}-byte entry; CIP defines 8/16/32-bit values only")
                continue
            bad_reserved = got == sp["logical_format_bits"]["reserved"]
            ctx.check(got == wantf[w], ckey(ls.key, f"logical_format[{w}]"), ls.attr_nodes.get("logical_format"), f"{8 * w}-bit format = {wantf[w]:02b}",
                      f"{8 * w}-bit logical format is {got!r} ({'the reserved pattern 11' if bad_reserved else 'wrong'}); CIP assigns {wantf[w]:02b} (bits 1-0)", got=got)
    else:
        ctx.undecided(ckey(ls.key, "logical_format"), ls.node, "table does not fold")
    ds = _seg(ctx, "DataSegment")
    es = ctx.folder.class_attr(ds, "extended_symbol")
    sty = ctx.folder.class_attr(ds, "segment_type")
    ctx.check(isinstance(es, int) and isinstance(sty, int) and (es | sty) == sp["data_segment"]["ansi_extended_symbol"], ckey(ds.key, "extended_symbol"), ds.attr_nodes.get("extended_symbol", ds.node), "ANSI extended symbol segment byte = 0x91",
              f"DataSegment type|extended_symbol = {(es | sty) if isinstance(es, int) and isinstance(sty, int) else None!r}; CIP assigns 0x91", got=es)
    ps = _seg(ctx, "PortSegment")
    el = ctx.folder.class_attr(ps, "extended_link")
    ctx.check(el == sp["port_segment"]["extended_link_bit"], ckey(ps.key, "extended_link"), ps.attr_nodes.get("extended_link", ps.node), "extended link address bit = 0x10", f"extended link bit is {el!r}; CIP assigns bit 4 (0x10)", got=el)
    c = ctx.folder.module_value("pycomm3.const", "EXTENDED_SYMBOL")
    ctx.check(c == bytes([sp["data_segment"]["ansi_extended_symbol"]]), "pycomm3.const:EXTENDED_SYMBOL", ctx.model.module("pycomm3.const").symbols["EXTENDED_SYMBOL"].node, "EXTENDED_SYMBOL = 91", f"EXTENDED_SYMBOL is {c!r}")


@rule(P, "D9.2", "T-WITNESS", floor=4)
def d9_2(ctx):
    """LogicalSegment value -> width: values up to 0xFF take one byte, up to 0xFFFF two, up to 0xFFFF_FFFF four, larger ones are
    refused; the format bits name the width chosen.  Decided by folding `_encode` on the boundary values of each width in the
    padded and packed forms (D9.11).  An earlier form located the comparison ladder inside `_encode` and alarmed when it was
    moved into a helper."""
    from .driver import _segment_rule

    _segment_rule(ctx)


@rule(P, "D9.3", "T-WITNESS", floor=5)
def d9_3(ctx):
    """Pad parity: a logical segment pads iff the value is wider than a byte (padded form); a symbolic segment's length is the
    unpadded character count and the characters are padded to even; a port segment is padded to an even total; an EPATH prefixes
    the word count.  Decided by folding the segment encoders and the EPATH assembler on witness segments (D9.10, D9.11); an
    earlier form read the shape of the `if len(..) % 2: x += b"\\x00"` statements and alarmed on conditional expressions and on
    branches taken in the other order."""
    from .driver import _bytes_and_symbol_rule, _segment_rule

    _segment_rule(ctx)
    _bytes_and_symbol_rule(ctx)


@rule(P, "D9.4", "T-SPEC", floor=12)
def d9_4(ctx):
    """Every literal logical type / port name used at a construction site exists in its table."""
    ls, ps = _seg(ctx, "LogicalSegment"), _seg(ctx, "PortSegment")
    lt = ctx.folder.class_attr(ls, "logical_types")
    pt = ctx.folder.class_attr(ps, "port_segments")
    for fi in list(ctx.model.all_functions()) + [None]:
        nodes = walk(fi.node) if fi else []
        mods = [fi.module] if fi else []
        for n in nodes:
            if isinstance(n, ast.Call) and isinstance(n.func, ast.Name):
                v = ctx.folder.eval(n.func, fi.module)
                if isinstance(v, ClassRef) and v.ci is ls and len(n.args) >= 2:
                    k = ctx.folder.eval(n.args[1], fi.module)
                    if isinstance(k, str):
                        ctx.check(isinstance(lt, dict) and k in lt, ckey(fi, f"LogicalSegment:{k}@{n.lineno - fi.node.lineno}"), n, f"logical type {k!r} exists", f"LogicalSegment(..., {k!r}): no such logical type (encode raises DataError for every path built here)")
                if isinstance(v, ClassRef) and v.ci is ps and n.args:
                    k = ctx.folder.eval(n.args[0], fi.module)
                    if isinstance(k, str):
                        ctx.check(isinstance(pt, dict) and k in pt, ckey(fi, f"PortSegment:{k}@{n.lineno - fi.node.lineno}"), n, f"port name {k!r} exists", f"PortSegment({k!r}, ...): unknown port name")
    # module-level constant MSG_ROUTER_PATH
    cm = ctx.model.module("pycomm3.const")
    for n in ast.walk(cm.tree):
        if isinstance(n, ast.Call) and isinstance(n.func, ast.Name) and n.func.id == "LogicalSegment" and len(n.args) >= 2:
            k = ctx.folder.eval(n.args[1], cm)
            ctx.check(isinstance(lt, dict) and k in lt, f"pycomm3.const:MSG_ROUTER_PATH#LogicalSegment:{k}", n, f"logical type {k!r} exists", f"LogicalSegment(..., {k!r}) in MSG_ROUTER_PATH: no such logical type")
    v = ctx.folder.module_value("pycomm3.const", "MSG_ROUTER_PATH")
    good = isinstance(v, list) and len(v) == 2 and [getattr(x, "args", None) for x in v] == [[b"\x02", "class_id"], [1, "instance_id"]]
    ctx.check(good, "pycomm3.const:MSG_ROUTER_PATH", cm.symbols["MSG_ROUTER_PATH"].node, "message router path = class 0x02, instance 1", f"MSG_ROUTER_PATH is {v!r}")


@rule(P, "D9.5", "T-WITNESS", floor=6)
def d9_5(ctx):
    """tag_request_path / request_path: addressing condition (symbol instance only when asked for, known and not
    program-scoped), segment order (base, its indexes, each member and its indexes; class, instance, optional attribute),
    word-count prefix.  Decided by folding both functions on witness tags and codes with the segment constructors and the path
    encoder as markers (D1.13); an earlier form matched the list display and the `if attribute:` statement."""
    from .packets import path_and_reply_witnesses

    path_and_reply_witnesses(ctx, ("tag-path", "request-path"))


@rule(P, "D9.6", "T-WITNESS", floor=3)
def d9_6(ctx):
    """Port segment: port byte with the extended-link bit iff the link is longer than one byte, then the optional length byte and
    the link bytes, padded to even length; numeric links are one range-checked byte, text links are validated IP addresses, port
    numbers outside 1..14 and unknown port names are refused.  Decided by folding `_encode` on witness (port, link) pairs against
    the bytes of CIP Vol.1 C-1.4.1 (D9.11)."""
    from .driver import _segment_rule

    _segment_rule(ctx)


@rule(P, "D9.7", "T-WITNESS", floor=1)
def d9_7(ctx):
    """Port numbers are confined to the 4-bit port field (1..14) before they are OR-ed into the port byte: ports 0, 15, 16, 17 (which
    would set the extended-link bit), 31, 255 and -1 are refused, 1..14 and every port name encode to their number.  Decided by
    folding `PortSegment._encode` on witness segments (D9.11); an earlier form traced the tests dominating `USINT.encode(port)` and
    alarmed when the validation moved into a helper."""
    from .driver import _segment_rule

    _segment_rule(ctx)


@rule(P, "D9.8", "T-WITNESS", floor=6)
def d9_8(ctx):
    """The helper that splits `name[i,j,k]` is folded on witness tags with 0..3 subscripts (sa/miniinterp.py; a module-level
    regular expression with a constant pattern is applied by Python's own regex engine, like any other constant folding):
    it must return the bare name and every subscript, in order."""
    from ..miniinterp import run_function

    fi = ctx.model.func(f"{PU}:_find_tag_index")
    p = fi.node.args.args[0].arg
    witnesses = {"T": ("T", []), "Tag_1": ("Tag_1", []), "T[7]": ("T", [7]), "Arr[1,2]": ("Arr", [1, 2]), "T[1,2,3]": ("T", [1, 2, 3]), "Grid[10,200,70000]": ("Grid", [10, 200, 70000]), "a[0,0,0]": ("a", [0, 0, 0]), "b[5,6,5]": ("b", [5, 6, 5])}
    for w, (name, idx) in witnesses.items():
        kind, res = run_function(ctx, fi.module, fi.node, {p: w})
        key = ckey(fi, f"witness:{w}")
        if kind == "unknown":
            ctx.undecided(key, fi.node, f"_find_tag_index is not foldable on `{w}`: {res}")
            continue
        ok = kind == "return" and isinstance(res, (tuple, list)) and len(res) == 2 and res[0] == name
        got_idx = None
        if ok:
            try:
                got_idx = [int(x) for x in res[1]]
            except (TypeError, ValueError):
                got_idx = None
            ok = got_idx == idx
        ctx.check(ok, key, fi.node, f"`{w}` -> ({name!r}, {idx})", f"`{w}` splits into {res!r} (expected name {name!r} and subscripts {idx}): the emitted path addresses another element", witness=w)
