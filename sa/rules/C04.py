"""C04 -- Connected requests fit the connection; large data is tiled by fragments."""
from __future__ import annotations

import ast

from ..astutil import attr_path, call_name, walk, src, enclosing_func, decorators
from ..consteval import UNKNOWN, ClassRef
from ..framework import rule
from ..guards import branch_outcome
from ..linexpr import Lin, atom_name, cmp_norm, lin
from .common import CD, LX, PL, ckey

P = "C04"
BUILDERS = ("_read_build_multi_requests", "_read_build_single_request", "_write_build_multi_requests", "_write_build_single_request")
EXPLANATION = (
    "Static rules D4.1-D4.8 (DESIGN.md section 5, C04): in all four request builders a comparison of a size expression with "
    "self.connection_size dominates every insertion of a plain read/write request into a send list and its true branch replaces "
    "the request by the fragmented form; the measured message is built before it is measured (def-use typestate of "
    "RequestPacket.message); both grouping loops test `acc + size > connection_size` before appending, reset to the overhead "
    "constant and add the tested size; the overhead constant covers the statically computed fixed part of a multi-service "
    "request; write fragments: segment size = connection size - (message - value) of a packet of the fragment class; read "
    "fragments: next offset = bytes received so far, loop continues exactly on status 6, value bytes joined in order; the "
    "negotiated size has only the constructor and the fallback as writers and fits the network-parameter masks; the reply-size "
    "estimate is width x count; a lowered connection size is followed by a Forward Open on every path to the decorated call. Linear forms over run-time lengths are extracted and compared, no inequality over unknown "
    "lengths is claimed."
)
ASSUMPTIONS = ["the controller enforces the negotiated connection size", "reply overhead (sequence, 4-byte reply header, type field) is at most the length of the request message"]


def _conn_test(ctx, g, module):
    """Test nodes comparing something against self.connection_size: [(node, Lin, strict)] with the TRUE branch meaning 'too large'."""
    out = []
    for t in g.nodes:
        if t.kind != "test":
            continue
        c = cmp_norm(t.ast)
        if c is None or c[0] != "<=0":
            continue
        L = c[1]
        if L.terms.get("self.connection_size") == 1 and L.const in (0, 1) and len(L.terms) > 1 and all(v < 0 for k, v in L.terms.items() if k != "self.connection_size"):
            out.append((t, L))
    return out


@rule(P, "D4.1", "T-WITNESS", floor=4)
def d4_1(ctx):
    """Every plain read / write request is measured against the connection size before it is queued, and what does not fit is
    converted to the fragmented service - exactly at the boundary (a request of the connection size fits, one byte more does
    not).  Decided by folding the four request builders on witness requests around the boundary (D1.15, D2.12)."""
    from .driver import d1_15, d2_12

    d1_15(ctx)
    d2_12(ctx)


_DOM_CACHE = {}


def _doms(g, node):
    d = _DOM_CACHE.get(id(g))
    if d is None:
        d = g.dominators()
        _DOM_CACHE.clear()
        _DOM_CACHE[id(g)] = d
    return d.get(node, set())


@rule(P, "D4.7", "T-DEFUSE", floor=4)
def d4_7(ctx):
    """The measured message is built before it is measured; the reply-size estimate is element width x element count plus the request length."""
    for b in BUILDERS:
        fn = ctx.model.func(f"{LX}:LogixDriver.{b}")
        g = ctx.cfg(fn.node)
        reads = [n for n in g.nodes if n.ast is not None and (n.kind == "stmt" or (n.kind == "test" and n.label in ("if", "while"))) and not isinstance(n.ast, (ast.For, ast.FunctionDef)) and any(isinstance(x, ast.Attribute) and x.attr == "message" and isinstance(x.value, ast.Name) and x.value.id in ("request", "req") and isinstance(x.ctx, ast.Load) for x in walk(n.ast))]
        for k_, r in enumerate(sorted(reads, key=lambda n: n.lineno)):
            recv = [x.value.id for x in walk(r.ast) if isinstance(x, ast.Attribute) and x.attr == "message" and isinstance(x.value, ast.Name)][0]
            if recv == "req":
                ctx.ok(ckey(fn, f"message-built:{recv}#{k_}"), r.ast, "measures requests taken from the list of already built requests")
                continue
            builds = {n for n in g.nodes if n.kind == "stmt" and n.ast is not None and any(isinstance(c, ast.Call) and attr_path(c.func) == f"{recv}.build_message" for c in walk(n.ast))}
            dom = _doms(g, r)
            ok = any(bn in dom for bn in builds)
            ctx.check(ok, ckey(fn, f"message-built:{recv}#{k_}"), r.ast, f"{recv}.build_message() precedes the measurement of {recv}.message",
                      f"`{src(r.ast).splitlines()[0][:80]}` measures {recv}.message before {recv}.build_message(): an unbuilt message is b'' (length 0), so the size compared with the connection size omits the request/reply overhead and data within a few bytes of the limit is not fragmented")
    # reply data size = (type size | structure size) x elements: decided by folding `_tag_return_size` on witness records
    # (D1.19) - an earlier form compared the source text of the two width expressions and alarmed on a conditional expression
    from .driver import d1_19

    d1_19(ctx)
    # the builders add the request length (and the multi-service entry) to the estimate
    for b, extra in (("_read_build_multi_requests", 2), ("_read_build_single_request", 0)):
        fn = ctx.model.func(f"{LX}:LogixDriver.{b}")
        asg = [n for n in walk(fn.node) if isinstance(n, ast.Assign) and atom_name(n.targets[0]) == "return_size"]
        L = lin(asg[0].value) if asg else None
        ok = L is not None and any(k.startswith("_tag_return_size(") and v == 1 for k, v in L.terms.items()) and L.terms.get("len(request.message)") == 1 and L.const >= extra and len(L.terms) == 2
        ctx.check(ok, ckey(fn, "estimate"), asg[0] if asg else fn.node, f"return size = data size + len(request message) + {extra}", f"reply-size estimate is `{L}`; expected _tag_return_size(..) + len(request.message) + >= {extra}", form=repr(L))


def _acc_loop(ctx, fn, listname):
    f = fn.node
    lp = [n for n in f.body if isinstance(n, ast.For) and atom_name(n.iter) == listname]
    return lp[0] if len(lp) == 1 else None


@rule(P, "D4.2", "T-WITNESS", floor=2)
def d4_2(ctx):
    """Grouping into multi-service packets: the estimate of a packet starts at the fixed overhead, a request is added only if the
    packet still fits the connection with it, otherwise a new packet is started with that request counted; every request is
    sent once, in order.  Decided by folding the multi-request builders on witness request lists (D1.15, D2.12: equal-sized
    requests that fit two per packet, a first request that fills a packet, mixed requests)."""
    from .driver import d1_15, d2_12

    d1_15(ctx)
    d2_12(ctx)


@rule(P, "D4.3", "T-LAYOUT", floor=1)
def d4_3(ctx):
    """The overhead constant covers the fixed part of a multi-service request (sequence, service, path, count)."""
    ov = ctx.folder.module_value(LX, "MULTISERVICE_READ_OVERHEAD")
    ms = ctx.model.cls(f"{PL}:MultiServiceRequestPacket")
    init = ms.methods["__init__"]
    rp = [c for c in walk(init) if isinstance(c, ast.Call) and call_name(c) == "request_path"]
    path_len = None
    if len(rp) == 1:
        cls_v = ctx.folder.eval(rp[0].args[0], ms.module)
        inst_v = ctx.folder.eval(rp[0].args[1], ms.module)
        def w(v):
            if isinstance(v, bytes):
                return len(v)
            if isinstance(v, int):
                return 1 if v <= 0xFF else 2 if v <= 0xFFFF else 4
            return None
        ws = [w(cls_v), w(inst_v)]
        if None not in ws and len(rp[0].args) == 2:
            path_len = 1 + sum(1 + x + ((1 + x) % 2) for x in ws)
    svc = ctx.folder.eval(ast.Attribute(value=ast.Name(id="Services", ctx=ast.Load()), attr="multiple_service_request", ctx=ast.Load()), ms.module)
    fixed = None
    if path_len is not None and isinstance(svc, bytes):
        fixed = 2 + len(svc) + path_len + 2
    ctx.check(fixed is not None and isinstance(ov, int) and ov >= fixed, ckey(ms.key, "fixed-part"), init, f"sequence 2 + service {len(svc) if isinstance(svc, bytes) else '?'} + path {path_len} + count 2 = {fixed} <= overhead {ov}",
              f"MULTISERVICE_READ_OVERHEAD = {ov!r} does not cover the fixed part of a multi-service request ({fixed} bytes): grouped packets can exceed the connection size", fixed=fixed, overhead=ov)
    # per-request cost used by the grouping loops: len(req.message) = 2-byte sequence + embedded message, and the Multiple Service
    # frame spends the embedded message + one 2-byte offset entry on each request: decided on the witness frames
    from .packets import _emit

    _emit(ctx, {"multi-request", "read-request", "write-request"})


@rule(P, "D4.4", "T-WITNESS", floor=2)
def d4_4(ctx):
    """Write fragments fit: every segment sent is at most connection size minus the request's own overhead (message length
    without the value), measured on the built message; segments are contiguous and cover the value.  Decided by folding
    `_send_write_fragmented` on witness values, overheads and connection sizes (D4.10)."""
    from .driver import d4_10

    d4_10(ctx)


@rule(P, "D4.5", "T-WITNESS", floor=4)
def d4_5(ctx):
    """Read fragments: the first request is at offset 0, each continuation at the number of value bytes received so far (the type
    prefix of a reply does not count), the loop continues exactly while the reply status is 0x06, the value bytes are joined in
    arrival order and parsed once.  Decided by folding `_send_read_fragmented` on witness reply sequences (D4.10: three fragments,
    one fragment, structure data with its 4-byte prefix, a failing fragment, an unbuildable request)."""
    from .driver import d4_10

    d4_10(ctx)


@rule(P, "D4.6", "T-WHO", floor=3)
def d4_6(ctx):
    """The negotiated size: constructor value and fallback value fit their network-parameter masks; no other writer."""
    sp = ctx.spec("connmgr")["network_params"]
    drv = ctx.model.cls(f"{CD}:CIPDriver")
    writers = []
    for fi in ctx.model.all_functions():
        for n in walk(fi.node):
            if isinstance(n, (ast.Assign, ast.AugAssign)) and enclosing_func(n) is fi.node:
                tgts = n.targets if isinstance(n, ast.Assign) else [n.target]
                for t in tgts:
                    if isinstance(t, ast.Subscript) and (attr_path(t.value) or "").endswith("._cfg") and ctx.folder.eval(t.slice, fi.module) == "connection_size":
                        writers.append((fi, n, ctx.folder.eval(n.value, fi.module)))
    from .common import initial_cfg

    cfg0, why = initial_cfg(ctx)  # (what the constructor leaves in _cfg, however it assembles it)
    if cfg0 is None:
        ctx.undecided(ckey(drv.key + ".__init__", "connection_size"), drv.methods["__init__"], why)
        return
    init_v = cfg0.get("connection_size")
    ctx.check(isinstance(init_v, int) and 0 < init_v <= sp["size_mask_32"], ckey(drv.key + ".__init__", "connection_size"), drv.methods["__init__"], f"extended size {init_v} fits 16 bits", f"configured connection size {init_v!r} does not fit the 16-bit size field of the Large Forward Open", value=init_v)
    ok = len(writers) == 1 and writers[0][0].qualname == "with_forward_open.wrapped" and isinstance(writers[0][2], int) and 0 < writers[0][2] <= sp["size_mask_16"]
    ctx.check(ok, ckey(drv.key, "writers:connection_size"), writers[0][1] if writers else drv.node, f"only the fallback writes the size ({writers[0][2] if writers else None} fits 9 bits)",
              f"connection_size writers: {[(w[0].qualname, w[2]) for w in writers]}; expected only the standard-Forward-Open fallback with a value <= {sp['size_mask_16']}", writers=[(w[0].qualname, str(w[2])) for w in writers])
    prop = drv.methods.get("connection_size")
    if prop is None:
        ctx.violation(ckey(drv.key + ".connection_size"), drv.node, "connection_size no longer returns the negotiated _cfg value")
    else:
        # folded on two witness configurations (an earlier form compared the source text of the return expression)
        from ..miniinterp import Obj, fold_method

        got = [fold_method(ctx, Obj(_ci=drv, _cfg={"connection_size": v_, "extended forward open": True}), "connection_size") for v_ in (1234, 500)]
        if any(k_ == "unknown" for k_, _ in got):
            ctx.undecided(ckey(drv.key + ".connection_size"), prop, f"connection_size not foldable: {[r_ for k_, r_ in got if k_ == 'unknown'][0]}")
        else:
            ctx.check(got == [("return", 1234), ("return", 500)], ckey(drv.key + ".connection_size"), prop, "the size used by the builders is the negotiated configuration value",
                      f"connection_size gives {got!r} for configured sizes 1234 and 500: it no longer returns the negotiated _cfg value")
    lxm = ctx.model.cls(f"{LX}:LogixDriver")
    lits = []
    for b in BUILDERS + ("_send_write_fragmented",):
        fn = lxm.methods[b]
        for n in walk(fn):
            if isinstance(n, ast.Compare):
                for x in [n.left] + n.comparators:
                    v = ctx.folder.eval(x, lxm.module) if isinstance(x, ast.Constant) else None
                    if isinstance(v, int) and v in (500, 4000, 504, 508, 511, 4002):
                        lits.append((b, src(n)))
    ctx.check(not lits, ckey(lxm.key, "no-literal-sizes"), lxm.node, "builders compare against the negotiated size, not a literal", f"size comparisons against literals: {lits}")


@rule(P, "D4.8", "T-ORDER", floor=1)
def d4_8(ctx):
    """Negotiated = budgeted: after the fallback lowers connection_size, a Forward Open that reads the new value is passed
    before the decorated operation runs (a size written after the last Forward Open was never requested from the target)."""
    drv = ctx.model.cls(f"{CD}:CIPDriver")
    fi = ctx.model.func(f"{CD}:with_forward_open.wrapped")
    g = ctx.cfg(fi.node)

    def reads_size(fn):
        for n in walk(fn):
            if attr_path(n) == "self.connection_size" and isinstance(getattr(n, "ctx", None), ast.Load):
                return True
            if isinstance(n, ast.Subscript) and isinstance(n.ctx, ast.Load) and (attr_path(n.value) or "").endswith("._cfg") and ctx.folder.eval(n.slice, drv.module) == "connection_size":
                return True
        return False

    negotiators = {name for name, m in drv.methods.items() if reads_size(m) and not any(d == "property" for d in decorators(m))}
    fo_nodes = {n for n in g.nodes if n.ast is not None and n.kind in ("stmt", "test") and any(isinstance(c, ast.Call) and (attr_path(c.func) or "") in {f"self.{m}" for m in negotiators} for c in walk(n.ast if n.kind == "test" or not isinstance(n.ast, (ast.If, ast.While, ast.For, ast.Try, ast.With)) else ast.Pass()))}
    params = {a.arg for a in ctx.model.func(f"{CD}:with_forward_open").node.args.args}
    sinks = {n for n in g.nodes if n.kind == "stmt" and n.ast is not None and any(isinstance(c, ast.Call) and isinstance(c.func, ast.Name) and c.func.id in params for c in walk(n.ast))}
    writers = []
    for n in g.nodes:
        if n.kind == "stmt" and isinstance(n.ast, (ast.Assign, ast.AugAssign)):
            tgts = n.ast.targets if isinstance(n.ast, ast.Assign) else [n.ast.target]
            for t in tgts:
                if isinstance(t, ast.Subscript) and (attr_path(t.value) or "").endswith("._cfg") and ctx.folder.eval(t.slice, fi.module) == "connection_size":
                    writers.append(n)
    if not negotiators or not fo_nodes or not sinks:
        ctx.undecided(ckey(fi, "size-then-open"), fi.node, f"negotiators {sorted(negotiators)}, call sites {len(fo_nodes)}, operation calls {len(sinks)}")
        return
    if not writers:
        ctx.ok(ckey(fi, "size-then-open"), fi.node, "connection_size is not rewritten by the decorator (nothing to order)")
    for i, w in enumerate(writers):
        wit = g.must_pass(fo_nodes, start=w, sinks=sinks, avoid_edges=lambda a, b, lab: lab == "exc")
        ctx.check(wit is None, ckey(fi, f"size-then-open#{i}" if i else "size-then-open"), w.ast, f"`{src(w.ast)}` is followed by {sorted(negotiators)} on every path to the decorated operation",
                  f"`{src(w.ast)}` can reach the decorated operation without a Forward Open after it (path lines {[p.lineno for p in (wit or []) if p.lineno]}): the target was asked for the previous size "
                  f"(the 9-bit field of the standard request truncates it) while requests are then sized for the new one", negotiators=sorted(negotiators))


# reads are planned (plain, grouped or by fragments) against `connection_size`: a size the target was never asked for makes replies
# of existing tags overflow the connection - the same obligations decide C01 ("exactly what the controller holds" for tags within
# a few bytes of the fallback size)
from .C10 import d10_2 as _d10_2  # noqa: E402

rule("C01", "D1.23", "T-ORDER", floor=1)(d4_8)
rule("C01", "D1.24", "T-ABSTRACT-EXEC", floor=19)(_d10_2)
