"""Codec class summaries shared by C06 / C07: effective implementations, write and read layouts."""
from __future__ import annotations

import ast
import struct
from typing import List, Optional

from .bytelayout import Layouter, flatten, read_layout
from .consteval import UNKNOWN, ClassRef

DT = "pycomm3.cip.data_types"
FIXED = {"USINT", "UINT", "UDINT", "ULINT", "SINT", "INT", "DINT", "LINT", "REAL", "LREAL", "BOOL"}


def datatype_classes(ctx):
    base = ctx.model.cls(f"{DT}:DataType")
    return [c for c in ctx.model.classes.values() if base in c.mro()]


def effective(ctx, cls, name):
    """(defining class, FunctionDef) of cls.<name> through the MRO."""
    for c in cls.mro():
        if name in c.methods:
            return c, c.methods[name]
    return None, None


def write_layout(ctx, cls, name="_encode"):
    dc, fn = effective(ctx, cls, name)
    if fn is None:
        return None, None, None
    lay = Layouter(ctx, dc.module, cls, fn)
    # look up names in the *defining* module but class attributes through the concrete class
    return dc, fn, lay.function(fn)


def reads(ctx, cls, name="_decode"):
    dc, fn = effective(ctx, cls, name)
    if fn is None:
        return None, None, None
    lay_cls = _CombinedScope(ctx, dc, cls)
    return dc, fn, read_layout(ctx, fn, dc.module, lay_cls)


def _CombinedScope(ctx, defining, concrete):
    # class attributes must resolve through the concrete class' MRO (cls.len_type of STRING, not of StringDataType)
    return concrete


def tokens_write(layout) -> List[str]:
    """Fixed type names in order, '*' for anything of variable width (adjacent '*' merged)."""
    out: List[str] = []

    def push(t):
        if t == "*" and out and out[-1] == "*":
            return
        out.append(t)

    def go(fields):
        for f in flatten(fields or []):
            k = f[0]
            if k in ("enc", "lenof"):
                push(f[1] if f[1] in FIXED or not f[1].startswith(("cls.", "self.")) else f[1])
            elif k == "const":
                push(f"const{len(f[1])}")
            elif k == "cut":
                go([f[1]])
            elif k == "each":
                out.append("[")
                go(f[3])
                out.append("]")
            elif k == "alt":
                a, b = _tok(f[2]), _tok(f[3])
                if a == b:
                    for t in a:
                        push(t)
                else:
                    push("*")
            elif k in ("raise",):
                continue
            else:
                push("*")

    go(layout)
    return out


def _tok(fields):
    return tokens_write(fields)


def tokens_read(rl) -> List[str]:
    out: List[str] = []
    for f in rl or []:
        if f[0] == "dec":
            t = f[1]
            if t in FIXED or (t and t[0].isupper()):
                out.append(t)
            elif t.startswith(("cls.", "self.")):
                out.append(t)
            else:
                if not out or out[-1] != "*":
                    out.append("*")
        else:
            if not out or out[-1] != "*":
                out.append("*")
    return out


def format_facts(fmt: str):
    """(endianness char, kind, width) of a single-item struct format."""
    if not fmt:
        return None
    order = fmt[0] if fmt[0] in "<>=!@" else "@"
    body = fmt[1:] if fmt[0] in "<>=!@" else fmt
    if len(body) != 1:
        return None
    ch = body
    kind = {"b": "sint", "h": "sint", "i": "sint", "l": "sint", "q": "sint", "B": "uint", "H": "uint", "I": "uint", "L": "uint", "Q": "uint", "f": "float", "d": "float", "?": "bool"}.get(ch)
    try:
        width = struct.calcsize("<" + ch)
    except struct.error:
        return None
    return order, kind, width


def class_const(ctx, cls, attr):
    v = ctx.folder.class_attr(cls, attr)
    return None if v is UNKNOWN else v
