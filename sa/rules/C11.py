"""C11 -- Every emitted frame is a well-formed EtherNet/IP encapsulation message."""
from __future__ import annotations

import ast

from ..astutil import attr_path, call_name, walk, src
from ..bytelayout import Layouter, flatten, show
from ..consteval import UNKNOWN, ClassRef
from ..framework import rule
from ..linexpr import atom_name
from .common import CD, PB, PE, ckey

P = "C11"
EXPLANATION = (
    "Static rules D11.1-D11.7 (DESIGN.md section 5, C11): byte-layout abstract interpretation of RequestPacket._build_header, "
    "build_request and _build_common_packet_format compared field by field with spec/encap.json (24-byte header, field order and "
    "widths, zero status, two-item common packet format, item length fields measuring exactly the bytes that follow them), the "
    "per-command constants of every concrete request class, the rule that every SendUnitData-family _setup_message runs the base "
    "part first so the sequence count leads the connected data, and the def-use chain of the session handle / connection id "
    "passed by send(). Decides frame structure for every request class; payload contents belong to other properties."
)
ASSUMPTIONS = ["RequestPacket subclasses outside pycomm3/packets are not considered", "the 8-byte sender context is the `context` configuration constant or the literal used by discover()"]


def _lay(ctx, fn, cls):
    return flatten(Layouter(ctx, cls.module, cls, fn).function(fn) or [])


def _request_classes(ctx):
    base = ctx.model.cls(f"{PB}:RequestPacket")
    return base, [c for c in ctx.model.classes.values() if base in c.mro()]


@rule(P, "D11.1", "T-LAYOUT", floor=3)
def d11_1(ctx):
    """Header = command, UINT length, UDINT session, 4 zero bytes, context, UDINT options; 24 bytes."""
    sp = ctx.spec("encap")["header"]
    base = ctx.model.cls(f"{PB}:RequestPacket")
    fn = base.methods.get("_build_header")
    if fn is None:
        ctx.undecided(ckey(base.key + "._build_header"), base.node, "anchor vanished")
        return
    params = [a.arg for a in fn.args.args]
    lay = _lay(ctx, fn, base)
    want = [("ref", "command"), ("enc", "UINT", 2, "length"), ("enc", "UDINT", 4, "session"), ("const", bytes(4)), ("ref", "context"), ("enc", "UDINT", 4, "option")]
    ok = len(lay) == 6
    if ok:
        ok = (lay[0][0] == "ref" and lay[0][1] == params[0] and lay[1][:3] == ("enc", "UINT", 2) and lay[1][3] == params[1] and lay[2][:3] == ("enc", "UDINT", 4) and lay[2][3] == params[2]
              and lay[3] == ("const", bytes(4)) and lay[4][0] == "ref" and lay[4][1] == params[3] and lay[5][:3] == ("enc", "UDINT", 4) and lay[5][3] == params[4])
    ctx.check(ok, ckey(base.key + "._build_header", "layout"), fn, "command | UINT length | UDINT session | 00000000 | context | UDINT options",
              f"header layout {show(lay)} differs from the encapsulation header (command, length:2, session:4, status:4=0, context:8, options:4)", layout=show(lay))
    # widths: commands 2 bytes, contexts 8 bytes -> 24
    cmds = ctx.folder.enum_members(ctx.model.find_class("EncapsulationCommands"))
    bad = {k: v for k, v in cmds.items() if not (isinstance(v, bytes) and len(v) == 2)}
    ctx.check(not bad, ckey("pycomm3.cip.services:EncapsulationCommands", "width"), ctx.model.find_class("EncapsulationCommands").node, "all command codes are 2 bytes", f"command codes not 2 bytes: {bad}")
    drv = ctx.model.cls(f"{CD}:CIPDriver")
    from .common import initial_cfg

    cfg0, why = initial_cfg(ctx)  # (what the constructor leaves in _cfg, however it assembles it)
    if cfg0 is None:
        ctx.undecided(ckey(f"{CD}:CIPDriver.__init__", "context"), drv.methods["__init__"], why)
        return
    ctxw = len(cfg0["context"]) if isinstance(cfg0.get("context"), bytes) else None
    total = 2 + 2 + 4 + 4 + (ctxw or 0) + 4
    hs = ctx.folder.module_value("pycomm3.const", "HEADER_SIZE")
    ctx.check(ctxw == 8 and total == sp["size"] == hs, ckey(f"{CD}:CIPDriver.__init__", "context"), drv.methods["__init__"], "sender context is 8 bytes; header totals 24 = HEADER_SIZE",
              f"sender context is {ctxw} bytes: header would be {total} bytes (specification {sp['size']}, HEADER_SIZE {hs})", context_width=ctxw)
    # other writers of the context / call sites passing a context literal
    for fi in ctx.model.all_functions():
        for c in walk(fi.node):
            if isinstance(c, ast.Call) and isinstance(c.func, ast.Attribute) and c.func.attr == "build_request" and len(c.args) >= 3 and not (isinstance(c.func.value, ast.Call) and call_name(c.func.value) == "super"):
                v = ctx.folder.eval(c.args[2], fi.module)
                ctx.check(isinstance(v, bytes) and len(v) == 8, ckey(fi, "context-literal"), c, "explicit sender context is 8 bytes", f"build_request called with a sender context of {len(v) if isinstance(v, bytes) else '?'} bytes", value=v)


@rule(P, "D11.2", "T-WITNESS", floor=2)
def d11_2(ctx):
    """The length field is len() of exactly the bytes that follow the header; command, session, context and option reach the
    header in their own fields; the common packet is built from the message with the connection id as address data.  Decided on
    the witness frames of the request packet classes (connected, unconnected and header-only requests, compared byte for byte
    with the frame the encapsulation layer prescribes); an earlier form required `return header + common` and alarmed on
    `b"".join((header, body))`."""
    from .packets import _emit

    _emit(ctx, {"read-request", "session-request", "generic-request", "multi-request", "write-request", "raw-request"})


@rule(P, "D11.3", "T-LAYOUT", floor=3)
def d11_3(ctx):
    """Common packet format: zero handle, timeout, item count 2, address item, data item; item lengths measure their contents."""
    sp = ctx.spec("encap")["cpf"]
    base = ctx.model.cls(f"{PB}:RequestPacket")
    fn = base.methods.get("_build_common_packet_format")
    lay = _lay(ctx, fn, base)
    params = [a.arg for a in fn.args.args]
    msg_p, addr_p = params[1], params[2]
    ok = len(lay) == 8
    why = ""
    if ok:
        alt = lay[4]
        addr_ok = alt[0] == "alt" and "None" in alt[1] and addr_p in alt[1]
        if addr_ok:
            none_arm, some_arm = (alt[2], alt[3]) if "isNone" in alt[1].replace(" ", "") and "isnot" not in alt[1].replace(" ", "") else (alt[3], alt[2])
            addr_ok = none_arm == [("const", b"\x00\x00")] and len(some_arm) == 2 and some_arm[0][0] == "lenof" and some_arm[0][1] == "UINT" and some_arm[0][3] == addr_p and some_arm[0][4] == "bytes" and some_arm[1] == ("ref", addr_p)
        ok = (lay[0] == ("const", bytes.fromhex(sp["prefix"][0]["value"])) and (lay[1] == ("ref", "self._timeout") or (lay[1][0] == "const" and len(lay[1][1]) == 2)) and lay[2] == ("const", bytes.fromhex(sp["prefix"][2]["value"])) and lay[3][0] in ("ref", "const") and (lay[3][0] == "const" or lay[3][1] == "self._address_type")
              and addr_ok and lay[5][0] in ("ref", "const") and (lay[5][0] == "const" or lay[5][1] == "self._message_type") and lay[6][0] == "lenof" and lay[6][1] == "UINT" and lay[6][3] == msg_p and lay[6][4] == "bytes" and lay[7] == ("ref", msg_p))
    ctx.check(ok, ckey(base.key + "._build_common_packet_format", "layout"), fn, "00000000 | timeout | 0200 | addr type | UINT len + addr (or 0000) | data type | UINT len(message) | message",
              f"common packet format {show(lay)} deviates: two items, each `type, UINT length of exactly the data that follows, data`", layout=show(lay))
    t = ctx.folder.class_attr(base, "_timeout")
    ctx.check(isinstance(t, bytes) and len(t) == 2, ckey(base.key, "_timeout"), base.attr_nodes.get("_timeout", base.node), "timeout field is 2 bytes", f"_timeout is {t!r}: the CPF timeout is a 2-byte field")
    # SendRRData forces the null address
    rr = ctx.model.cls(f"{PE}:SendRRDataRequestPacket")
    f2 = rr.methods.get("_build_common_packet_format")
    good = False
    if f2 is not None:
        rets = [r for r in walk(f2) if isinstance(r, ast.Return)]
        if len(rets) == 1 and isinstance(rets[0].value, ast.Call) and isinstance(rets[0].value.func, ast.Attribute) and rets[0].value.func.attr == "_build_common_packet_format":
            kw = {k.arg: ctx.folder.eval(k.value, rr.module) for k in rets[0].value.keywords}
            good = "addr_data" in kw and kw["addr_data"] is None and atom_name(rets[0].value.args[0]) == f2.args.args[1].arg
    ctx.check(good, ckey(rr.key + "._build_common_packet_format"), f2 or rr.node, "unconnected requests use the null address item (length 0)", "SendRRData requests do not force the null address item")
    su = ctx.model.cls(f"{PE}:SendUnitDataRequestPacket")
    ctx.check("_build_common_packet_format" not in su.methods, ckey(su.key, "cpf-inherited"), su.node, "connected requests use the base CPF with the connection id", "SendUnitData overrides the common packet format")


@rule(P, "D11.4", "T-SPEC", floor=8)
def d11_4(ctx):
    """Per-command constants: command code, address item and data item of every concrete request class; bodies of the session commands."""
    sp = ctx.spec("encap")
    items = sp["cpf"]["item_types"]
    base, classes = _request_classes(ctx)
    fam = {
        f"{PE}:SendUnitDataRequestPacket": ("send_unit_data", items["connected_address"], items["connected_data"]),
        f"{PE}:SendRRDataRequestPacket": ("send_rr_data", items["null_address"], items["unconnected_data"]),
    }
    roots = {ctx.model.cls(k): v for k, v in fam.items()}
    for c in classes:
        if c is base:
            continue
        root = [r for r in roots if r in c.mro()]
        cmd = ctx.folder.class_attr(c, "_encap_command")
        key = ckey(c.key, "constants")
        if root:
            cname, addr, data = roots[root[0]]
            a, d = ctx.folder.class_attr(c, "_address_type"), ctx.folder.class_attr(c, "_message_type")
            good = cmd == bytes.fromhex(sp["commands"][cname]) and a == bytes.fromhex(addr) and d == bytes.fromhex(data)
            ctx.check(good, key, c.node, f"{cname}: command {sp['commands'][cname]}, address {addr}, data {data}",
                      f"{c.name}: command {cmd!r}, address item {a!r}, data item {d!r}; {cname} requires {sp['commands'][cname]}/{addr}/{data}", command=cmd, address=a, data=d)
        else:
            want = {"RegisterSessionRequestPacket": "register_session", "UnRegisterSessionRequestPacket": "unregister_session", "ListIdentityRequestPacket": "list_identity"}.get(c.name)
            if want is None:
                ctx.violation(key, c.node, f"request class {c.name} belongs to no known command family")
                continue
            ctx.check(cmd == bytes.fromhex(sp["commands"][want]), key, c.node, f"{want}: command {sp['commands'][want]}", f"{c.name}: command {cmd!r}, {want} is {sp['commands'][want]}", command=cmd)
    # bodies: Register Session = protocol version 0100 + options 0000 after the header, UnRegister Session and List Identity are
    # header-only - decided on the witness frames of the three classes (D10.10) and on the driver's Register Session call folded
    # with the configured version (D10.13); an earlier form required `return b""` and a `+=` of a list display
    from .driver import _session_rule
    from .packets import _emit

    _emit(ctx, {"session-request"})
    _session_rule(ctx)
    drv = ctx.model.cls(f"{CD}:CIPDriver")
    from .common import initial_cfg

    cfg0, why = initial_cfg(ctx)
    if cfg0 is None:
        ctx.undecided(ckey(f"{PE}:RegisterSessionRequestPacket", "body"), drv.methods["__init__"], why)
        return
    pv = cfg0.get("protocol version")
    body = sp["register_session_body"]["fields"]
    reg = ctx.model.cls(f"{PE}:RegisterSessionRequestPacket")
    ctx.check(pv == bytes.fromhex(body[0]["value"]), ckey(reg.key, "body"), drv.methods["__init__"], "the driver registers with protocol version 1", f"the configured protocol version is {pv!r}; Register Session carries version {body[0]['value']}")
    for cname, extra in (("UnRegisterSessionRequestPacket", True), ("ListIdentityRequestPacket", False)):
        c = ctx.model.cls(f"{PE}:{cname}")
        nr = ctx.folder.class_attr(c, "no_response")
        ctx.check(nr is True if extra else nr is False, ckey(c.key, "body"), c.node, f"{cname}: " + ("no reply expected" if extra else "reply expected"), f"{cname}: no_response={nr!r}")

@rule(P, "D11.5", "T-DOM", floor=6)
def d11_5(ctx):
    """Connected data begins with the sequence count: every _setup_message override runs the base part first; nothing is inserted in front."""
    su = ctx.model.cls(f"{PE}:SendUnitDataRequestPacket")
    for c in ctx.model.subclasses(su):
        fn = c.methods.get("_setup_message")
        if fn is None:
            continue
        body = [s for s in fn.body if not (isinstance(s, ast.Expr) and isinstance(s.value, ast.Constant))]
        first = body[0] if body else None
        sup_first = isinstance(first, ast.Expr) and isinstance(first.value, ast.Call) and isinstance(first.value.func, ast.Attribute) and first.value.func.attr == "_setup_message" and isinstance(first.value.func.value, ast.Call) and call_name(first.value.func.value) == "super"
        ctx.check(sup_first, ckey(c.key + "._setup_message", "super-first"), fn, "super()._setup_message() runs before this class touches the message", "_setup_message does not call super()._setup_message() first: the sequence count is missing or not at the front of the connected data")
    base, classes = _request_classes(ctx)
    for c in classes:
        for fn in c.methods.values():
            for n in walk(fn):
                bad = None
                if isinstance(n, ast.Call) and attr_path(n.func) == "self._msg.insert":
                    bad = "inserts into the message list"
                if isinstance(n, ast.Assign) and attr_path(n.targets[0]) == "self._msg" and not (fn.name == "__init__" and isinstance(n.value, ast.List) and not n.value.elts):
                    bad = "rebinds the message list"
                if bad:
                    ctx.violation(ckey(f"{c.key}.{fn.name}", "front"), n, f"{bad}: data can end up in front of the sequence count")
    ms = ctx.model.cls("pycomm3.packets.logix:MultiServiceRequestPacket")
    bm = ms.methods.get("build_message")
    good = False
    if bm is not None:
        body = [s for s in bm.body if not (isinstance(s, ast.Expr) and isinstance(s.value, ast.Constant))]
        sup_first = bool(body) and isinstance(body[0], ast.Expr) and isinstance(body[0].value, ast.Call) and isinstance(body[0].value.func, ast.Attribute) and body[0].value.func.attr == "build_message"
        rets = [r for r in walk(bm) if isinstance(r, ast.Return)]
        tail_ok = False
        if len(rets) == 1 and isinstance(rets[0].value, ast.Call) and isinstance(rets[0].value.func, ast.Attribute) and rets[0].value.func.attr == "join":
            arg = rets[0].value.args[0]
            left = arg
            while isinstance(left, ast.BinOp):
                left = left.left
            tail_ok = attr_path(left) == "self._msg"
        good = sup_first and tail_ok
    ctx.check(good, ckey(ms.key + ".build_message"), bm or ms.node, "the multi-service body is appended after the base message (sequence, service, path)", "MultiServiceRequestPacket.build_message does not keep the base message in front")
    # build_message assembles the list once in order
    bm0 = base.methods.get("build_message")
    joins = [c for c in walk(bm0) if isinstance(c, ast.Call) and isinstance(c.func, ast.Attribute) and c.func.attr == "join" and atom_name(c.args[0]) == "self._msg"] if bm0 else []
    ctx.check(len(joins) == 1 and ctx.folder.eval(joins[0].func.value, base.module) == b"", ckey(base.key + ".build_message", "join"), bm0 or base.node, "message = b''.join(self._msg)", "the message is not the plain concatenation of the message list")


@rule(P, "D11.6", "T-DEFUSE", floor=4)
def d11_6(ctx):
    """send() passes the session handle and the connection id the target granted; their only writers are the grant/reset sites."""
    drv = ctx.model.cls(f"{CD}:CIPDriver")
    # the frame is built with self._session / self._target_cid / the configured context and options: decided by folding `send` on
    # witness requests (D11.13) - an earlier form read the keyword dict inside `send` and alarmed when the exchange moved into a helper
    from .driver import _send_rule

    _send_rule(ctx)
    from .common import initial_cfg

    cfg0, why = initial_cfg(ctx)
    if cfg0 is None:
        ctx.undecided(ckey(drv.key + ".__init__", "option"), drv.methods["__init__"], why)
        return
    opt = cfg0.get("option", "<absent>")
    ctx.check(opt == 0, ckey(drv.key + ".__init__", "option"), drv.methods["__init__"], "options field is 0", f"options configured as {opt!r}, the header requires 0")
    writers = {"_session": [], "_target_cid": []}
    for c in ctx.model.subclasses(drv):
        for m in c.methods.values():
            for n in walk(m):
                if isinstance(n, (ast.Assign, ast.AnnAssign, ast.AugAssign)):
                    tgts = n.targets if isinstance(n, ast.Assign) else [n.target]
                    for t in tgts:
                        p = attr_path(t)
                        if p in ("self._session", "self._target_cid"):
                            writers[p[5:]].append((f"{c.name}.{m.name}", src(n.value) if n.value is not None else None))
    # a write is a reset (the constant the constructor starts with: nothing was granted) or a grant (a value taken from the
    # reply of the registering / opening request); which method holds the reset statements does not matter
    for attr, ws in writers.items():
        init_v = {"_session": ("0", "None"), "_target_cid": ("None",)}[attr]
        extra = [w for w in ws if not (w[1] in init_v or (w[1] or "").startswith("response."))]
        grant = [w for w in ws if (w[1] or "").startswith("response.")]
        ctx.check(not extra and grant, ckey(drv.key, f"writers:{attr}"), drv.node, f"self.{attr} is written only by resets ({' / '.join(init_v)}) and by the grant taken from the reply",
                  f"self.{attr} has writers {extra or ws} that are neither a reset nor a value granted by the target", writers=ws)


@rule(P, "D11.7", "T-PASS", floor=2)
def d11_7(ctx):
    """The header values handed in by the driver (session handle, sender context, options, connection id) reach the header
    unchanged: no build_request implementation rebinds one of these parameters, and every override hands its own parameters
    on to the next implementation."""
    base = ctx.model.cls(f"{PB}:RequestPacket")
    fields = [a.arg for a in base.methods["build_request"].args.args[1:]]
    classes = [c for c in ctx.model.classes.values() if base in c.mro() and "build_request" in c.methods]
    for c in classes:
        fn = c.methods["build_request"]
        params = [a.arg for a in fn.args.args[1:]]
        rebinds = [n for n in walk(fn) if isinstance(n, ast.Name) and isinstance(n.ctx, (ast.Store, ast.Del)) and n.id in fields]
        key = ckey(c.key + ".build_request", "pass-through")
        if rebinds:
            st = rebinds[0]
            while not isinstance(st, ast.stmt):
                st = getattr(st, "_parent")
            ctx.violation(key, st, f"`{src(st)[:90]}` rebinds the header value `{rebinds[0].id}` on its way to the header: the {rebinds[0].id} field no longer carries what the driver passed "
                               f"(a value of another width shifts every later field and makes the length field wrong)")
            continue
        if c is base:
            ctx.ok(key, fn, f"{fields} are used as passed")
            continue
        sup = [n for n in walk(fn) if isinstance(n, ast.Call) and isinstance(n.func, ast.Attribute) and n.func.attr == "build_request" and isinstance(n.func.value, ast.Call) and call_name(n.func.value) == "super"]
        ok = len(sup) == 1 and params[: len(fields)] == fields
        if ok:
            passed = dict(zip(fields, sup[0].args))
            passed.update({k.arg: k.value for k in sup[0].keywords if k.arg})
            ok = all(f in passed and isinstance(passed[f], ast.Name) and passed[f].id == f for f in fields)
        ctx.check(ok, key, sup[0] if sup else fn, f"{c.name}.build_request hands {fields} on unchanged", f"{c.name}.build_request does not hand {fields} on to the base implementation as received: {[src(a) for a in (sup[0].args if sup else [])]}")


# a connected frame is well formed only if its address item carries a connection id the target granted in this session:
# the guard that runs before every connected operation (C10's D10.2: the operation runs only after a Forward Open succeeded)
# is an obligation of this property too
from .C10 import d10_2 as _d10_2  # noqa: E402

rule(P, "D11.8", "T-ABSTRACT-EXEC", floor=4)(_d10_2)


# the session handle and connection id a frame carries are the ones granted in this session: the grant (Forward Open reply ->
# target connection id) and the reset of both on every exit of close() are obligations of this property too
from .driver import _close_rule as _close_rule_, _forward_open_rule as _forward_open_rule_  # noqa: E402

rule(P, "D11.9", "T-WITNESS", floor=6)(_forward_open_rule_)
rule(P, "D11.10", "T-WITNESS", floor=20)(_close_rule_)
