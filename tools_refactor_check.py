#!/usr/bin/env python3
"""Developer helper: run every property's rules on every stored refactor twin (/verif/refactors/*/patch.diff) and list the
alarms (new violations / undecided).  usage: tools_refactor_check.py [name-substring ...]"""
import os
import sys
from concurrent.futures import ProcessPoolExecutor

sys.path.insert(0, "/verif")


def one(args):
    name, prop = args
    from sa import rules  # noqa: F401
    from sa.framework import UNDECIDED, VIOLATION, run_property
    from sa.selftest import _baseline_keys, apply_patch_overlay

    ov = apply_patch_overlay("/repo", os.path.join("/verif/refactors", name, "patch.diff"))
    if ov is None:
        return name, prop, [("patch does not apply",)]
    base = _baseline_keys(prop, "/repo")
    _, results, _ = run_property(prop, "/repo", "quick", overlay=ov)
    return name, prop, [(r.rule, r.verdict, r.construct, r.what[:160]) for r in results if (r.verdict == VIOLATION and (r.rule, r.construct) not in base) or r.verdict == UNDECIDED]


def main():
    from sa import rules

    names = sorted(n for n in os.listdir("/verif/refactors") if os.path.exists(os.path.join("/verif/refactors", n, "patch.diff")))
    if sys.argv[1:]:
        names = [n for n in names if any(a in n for a in sys.argv[1:])]
    tasks = [(n, p) for n in names for p in sorted(rules.MODULES)]
    alarms = {}
    with ProcessPoolExecutor(max_workers=16) as ex:
        for name, prop, al in ex.map(one, tasks, chunksize=4):
            if al:
                alarms.setdefault(name, []).extend((prop,) + a for a in al)
    for n in names:
        if n in alarms:
            print(f"{n}: {len(alarms[n])} alarm(s)")
            for a in alarms[n][:8]:
                print("    ", a)
    print(f"{len(names) - len(alarms)}/{len(names)} refactors silent on all properties")


if __name__ == "__main__":
    main()
