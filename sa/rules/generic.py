"""Rules that apply to every property in the same form (registered once per property over the files the property is
anchored in)."""
from __future__ import annotations

import ast
import json
import os

from ..framework import VERIF, rule
from ..guards import possibly_unbound_reads, undefined_names

# correlated-condition idioms of the reference tree: the read is reached only when the condition that bound the name held.
# One line of reason per entry; keyed by function and name, never by line.
ACCEPTED_CONDITIONAL_BINDINGS = {
    ("pycomm3.logger:configure_default_logger", "file_handler"): "bound and used under the same `if filename:` test",
    ("pycomm3.logix_driver:LogixDriver._parse_template_data_member_info", "instance_id"): "read only when data_type is still None, which implies the branch that bound it ran",
    ("pycomm3.logix_driver:LogixDriver._parse_template_data_member_info", "type_class"): "bound on each of the three exhaustive data_type branches (truthy / None->resolved / None->structure)",
    ("pycomm3.slc_driver:SLCDriver._get_datalog", "datalog_entry"): "bound in the loop body before the only `return` that reads it",
}


def _anchor_files():
    out = {}
    try:
        with open(os.path.join(VERIF, "properties.jsonl")) as fh:
            for line in fh:
                d = json.loads(line)
                out[d["id"]] = [f for f in d.get("anchors", {}).get("files", []) if f.endswith(".py")]
    except OSError:
        pass
    return out


def _make(prop, files):
    @rule(prop, f"D{int(prop[1:])}.U", "T-DEFUSE", floor=3)
    def definite_assignment(ctx):
        """Every local read in the functions this property is anchored in is bound on every path that reaches the read
        (a statement whose binding was removed, or moved behind a branch, leaves the function raising UnboundLocalError
        instead of doing what the property promises)."""
        n = 0
        for key, fi in sorted(ctx.model.functions.items()):
            if fi.module.relpath.replace(os.sep, "/") not in files:
                continue
            n += 1
            probs = [(name, node) for name, node in possibly_unbound_reads(ctx, fi.node) if (key, name) not in ACCEPTED_CONDITIONAL_BINDINGS]
            undef = undefined_names(ctx, fi)
            if undef:
                name, node = undef[0]
                ctx.violation(f"{key}#undefined:{name}", node, f"`{name}` is read in {fi.qualname} but is bound nowhere (no local, parameter, module-level name or builtin of that name): NameError instead of the promised behaviour",
                              names=sorted({u[0] for u in undef}))
                continue
            if probs:
                name, node = probs[0]
                ctx.violation(f"{key}#unbound:{name}", node, f"`{name}` can be read before it is bound (a path from the entry of {fi.qualname} reaches line {node.lineno} without passing a completed binding of `{name}`): "
                                                             f"UnboundLocalError / NameError instead of the promised behaviour", names=sorted({p[0] for p in probs}))
            else:
                ctx.ok(f"{key}#bound", fi.node, "every local is bound on all paths to its reads")

    return definite_assignment


def _external_stores(ctx):
    out = set()
    for mod in ctx.model.modules.values():
        for n in ast.walk(mod.tree):
            if isinstance(n, ast.Attribute) and isinstance(n.ctx, ast.Store) and not (isinstance(n.value, ast.Name) and n.value.id in ("self", "cls")):
                out.add(n.attr)
            if isinstance(n, ast.Call) and isinstance(n.func, ast.Name) and n.func.id == "setattr" and len(n.args) >= 2 and isinstance(n.args[1], ast.Constant):
                out.add(n.args[1].value)
    return out


def unwritten_self_attributes(ctx, c, ext):
    """[(attr, node)] - `self.<attr>` / `cls.<attr>` read in a method of class c while no class of its family (bases,
    subclasses, metaclasses) defines <attr> at class level, stores it on self/cls in any method, and no code stores it on
    another receiver: reading it raises AttributeError."""
    from ..consteval import ClassRef

    if any(getattr(b, "id", None) == "type" for k in c.mro() for b in k.node.bases):
        return []  # a metaclass: its `cls` is an arbitrary class
    fam = set(c.mro()) | set(ctx.model.subclasses(c))
    for k in list(c.mro()):
        for kw in k.node.keywords:
            if kw.arg == "metaclass":
                mc = ctx.folder.eval(kw.value, k.module)
                if isinstance(mc, ClassRef):
                    fam |= set(mc.ci.mro())
    defined, stores = set(), set()
    for k in fam:
        defined |= set(k.methods) | set(k.attrs)
        for n in ast.walk(k.node):
            if isinstance(n, (ast.FunctionDef, ast.AsyncFunctionDef, ast.ClassDef)):
                defined.add(n.name)
            elif isinstance(n, ast.AnnAssign) and isinstance(n.target, ast.Name):
                defined.add(n.target.id)
            elif isinstance(n, ast.Attribute) and isinstance(n.ctx, ast.Store) and isinstance(n.value, ast.Name) and n.value.id in ("self", "cls"):
                stores.add(n.attr)
    # unresolved external bases (Exception, NamedTuple, ...) may provide anything
    external_base = any(ctx.folder.eval(b, k.module) is None or not isinstance(ctx.folder.eval(b, k.module), ClassRef) for k in c.mro() for b in k.node.bases if not isinstance(b, ast.Call))
    out = []
    for name, meth in c.methods.items():
        first = meth.args.args[0].arg if meth.args.args else None
        if first not in ("self", "cls"):
            continue
        for n in ast.walk(meth):
            if isinstance(n, ast.Attribute) and isinstance(n.ctx, ast.Load) and isinstance(n.value, ast.Name) and n.value.id == first:
                a = n.attr
                if a in defined or a in stores or a in ext or (a.startswith("__") and a.endswith("__")):
                    continue
                if external_base:
                    continue
                out.append((a, n))
    return out


def request_response_attribute_gaps(ctx, files):
    """[(request class, response class, attr, node)] - a response class reads `<request>.<attr>` (the request is its first
    constructor argument, kept as self.request) while no class in the MRO of a request class that names it as
    `response_class` provides <attr>."""
    out = []
    classes = [c for c in ctx.model.classes.values() if c.module.relpath.replace(os.sep, "/") in files]
    for r in classes:
        rc = r.attrs.get("response_class")
        if rc is None:
            continue
        q = ctx.folder.eval(rc, r.module)
        from ..consteval import ClassRef

        if not isinstance(q, ClassRef):
            continue
        provided = set()
        for k in r.mro():
            provided |= set(k.methods) | set(k.attrs)
            for n in ast.walk(k.node):
                if isinstance(n, ast.Attribute) and isinstance(n.ctx, ast.Store) and isinstance(n.value, ast.Name) and n.value.id == "self":
                    provided.add(n.attr)
                elif isinstance(n, ast.AnnAssign) and isinstance(n.target, ast.Name):
                    provided.add(n.target.id)
        for k in q.ci.mro():
            for name, meth in k.methods.items():
                req_names = {"request"} if any(a.arg == "request" for a in meth.args.args) else set()
                for n in ast.walk(meth):
                    if not (isinstance(n, ast.Attribute) and isinstance(n.ctx, ast.Load)):
                        continue
                    v = n.value
                    is_req = (isinstance(v, ast.Name) and v.id in req_names) or (isinstance(v, ast.Attribute) and v.attr == "request" and isinstance(v.value, ast.Name) and v.value.id == "self")
                    if is_req and n.attr not in provided and not (n.attr.startswith("__") and n.attr.endswith("__")):
                        out.append((r, q.ci, n.attr, n))
    return out


def _make_attr(prop, files):
    @rule(prop, f"D{int(prop[1:])}.A", "T-DEFUSE", floor=1)
    def attribute_initialisation(ctx):
        """Every attribute a method reads on self/cls is provided somewhere in the class family (class level, a method that
        stores it, or code that stores it on an instance): an initialisation that was removed leaves the read raising
        AttributeError instead of the promised behaviour."""
        ext = _external_stores(ctx)
        for key, c in sorted(ctx.model.classes.items()):
            if c.module.relpath.replace(os.sep, "/") not in files:
                continue
            probs = unwritten_self_attributes(ctx, c, ext)
            if probs:
                a, node = probs[0]
                ctx.violation(f"{key}#attr:{a}", node, f"`{ast.unparse(node)}` is read in {c.name} but nothing in its class family defines or stores `{a}` (and nothing stores it on an instance): AttributeError instead of the promised behaviour",
                              attrs=sorted({p_[0] for p_ in probs}))
            else:
                ctx.ok(f"{key}#attrs", c.node, "every attribute read on self/cls is provided by the class family")
        seen = set()
        for r, q, a, node in request_response_attribute_gaps(ctx, files):
            k_ = f"{r.key}#response-reads:{a}"
            if k_ in seen:
                continue
            seen.add(k_)
            ctx.violation(k_, node, f"{q.name} (the response class of {r.name}) reads `request.{a}` but no class in {r.name}'s MRO provides `{a}`: AttributeError when the reply is built")

    return attribute_initialisation


def _external_reads(ctx):
    """{attr: first node} - loads of `.attr` on a receiver other than self/cls anywhere in the package."""
    if not hasattr(ctx, "_ext_reads"):
        out = {}
        for mod in ctx.model.modules.values():
            for n in ast.walk(mod.tree):
                if isinstance(n, ast.Attribute) and isinstance(n.ctx, ast.Load) and not (isinstance(n.value, ast.Name) and n.value.id in ("self", "cls")):
                    out.setdefault(n.attr, (mod, n))
        ctx._ext_reads = out
    return ctx._ext_reads


def _make_ctor(prop, files):
    @rule(prop, f"D{int(prop[1:])}.I", "T-DEFUSE", floor=1)
    def constructor_initialisation(ctx):
        """Every attribute that the methods of a class store on self and that anything reads is stored on EVERY path through
        the class's constructor chain (super().__init__ and self.method() calls followed through the MRO), or provided at
        class level; and no method called from inside the constructor reads an attribute before the chain has stored it.
        A dropped initialisation, a dropped super().__init__() or an initialisation moved behind a branch leaves the read
        raising AttributeError instead of the promised behaviour."""
        from .. import ctorinit

        ext = _external_reads(ctx)
        for key, c in sorted(ctx.model.classes.items()):
            if c.module.relpath.replace(os.sep, "/") not in files:
                continue
            d, early, level = ctorinit.analyse(ctx, c)
            if d is None:
                continue
            if early:
                a, node, stack = early[0]
                via = " -> ".join(f"{k.split(':')[-1]}.{m}" for k, m in stack)
                ctx.violation(f"{key}#early-read:{a}", node, f"constructing {c.name} reads `self.{a}` (via {via}) before any statement of the constructor chain has stored it and the class does not provide it: AttributeError inside the constructor",
                              attrs=sorted({e[0] for e in early}))
                continue
            reads = ctorinit.self_reads(c)
            gaps = []
            for a in sorted(ctorinit.possibly_stored(c) - d - level):
                if a in reads:
                    k, m, n = reads[a][0]
                    gaps.append((a, n, f"{k.name}.{m.name} reads self.{a}"))
                elif a in ext:
                    mod, n = ext[a]
                    gaps.append((a, n, f"{mod.name}:{n.lineno} reads .{a}"))
            if gaps:
                a, node, why = gaps[0]
                ctx.violation(f"{key}#uninitialised:{a}", node, f"`{a}` is stored on a {c.name} only on some paths (not on every path through its constructor chain, not at class level) while {why}: AttributeError on the instances that took the other path",
                              attrs=sorted({g[0] for g in gaps}))
            else:
                ctx.ok(f"{key}#ctor", c.node, f"constructor chain definitely stores {len(d)} attribute(s); every stored-and-read attribute is among them", definite=sorted(d))

    return constructor_initialisation


SENDERS = ("send", "generic_message", "_list_identity", "_send")
PAYLOAD = ("value", "data", "identity", "session", "responses", "value_bytes")


def response_guards(fn):
    """[(if-node, response name, truthy arm, falsy arm)] for the `if` statements of fn whose test is exactly the truthiness
    of a local bound from a send-like call (`if response:` / `if not response:`, any number of `not`).  When the tested arm
    always leaves the block and there is no else, the statements that follow the `if` are the other arm."""
    names = {a.arg for a in fn.args.args if a.arg in ("response", "resp", "reply")}
    for n in ast.walk(fn):
        if isinstance(n, ast.Assign) and len(n.targets) == 1 and isinstance(n.targets[0], ast.Name) and isinstance(n.value, ast.Call):
            f = n.value.func
            nm = f.attr if isinstance(f, ast.Attribute) else getattr(f, "id", "")
            if nm in SENDERS or nm.startswith("_send"):
                names.add(n.targets[0].id)
    out = []

    def blocks(node):
        for field in ("body", "orelse", "finalbody", "handlers"):
            v = getattr(node, field, None)
            if isinstance(v, list) and v and isinstance(v[0], ast.stmt):
                yield v
            elif isinstance(v, list):
                for h in v:
                    if isinstance(h, ast.ExceptHandler):
                        yield h.body

    def walk_block(stmts):
        for i, st in enumerate(stmts):
            if isinstance(st, ast.If):
                t, neg = st.test, False
                while isinstance(t, ast.UnaryOp) and isinstance(t.op, ast.Not):
                    t, neg = t.operand, not neg
                if isinstance(t, ast.Name) and t.id in names:
                    other = st.orelse
                    if not other and st.body and isinstance(st.body[-1], (ast.Raise, ast.Return, ast.Continue, ast.Break)):
                        other = stmts[i + 1:]
                    arms = (other, st.body) if neg else (st.body, other)
                    out.append((st, t.id, arms[0], arms[1]))
            if not isinstance(st, (ast.FunctionDef, ast.AsyncFunctionDef, ast.ClassDef)):
                for b in blocks(st):
                    walk_block(b)

    walk_block(fn.body)
    return out


def _arm_facts(arm, name):
    raises = bool(arm) and isinstance(arm[-1], ast.Raise)
    payload = error = False
    for st in arm:
        for n in ast.walk(st):
            if isinstance(n, ast.Attribute) and isinstance(n.ctx, ast.Load) and isinstance(n.value, ast.Name) and n.value.id == name:
                if n.attr in PAYLOAD:
                    payload = True
                elif n.attr == "error":
                    error = True
    return raises, payload, error


def _make_guard(prop, files):
    @rule(prop, f"D{int(prop[1:])}.R", "T-TT", floor=0)
    def response_guard_polarity(ctx):
        """Where a function branches on the truthiness of a reply it has just received, the arm taken for a valid reply is
        the one that uses the reply's payload and the arm taken for a failed reply is the one that raises / reports
        `.error`: an inverted test refuses every valid reply and decodes the failed ones."""
        n = 0
        for key, fi in sorted(ctx.model.functions.items()):
            if fi.module.relpath.replace(os.sep, "/") not in files:
                continue
            for i_, (st, name, truthy, falsy) in enumerate(response_guards(fi.node)):
                n += 1
                tr, tp, te = _arm_facts(truthy, name)
                fr, fp, fe = _arm_facts(falsy, name)
                k_ = f"{key}#reply-guard:{name}:{i_}"
                if tr and not fr:
                    ctx.violation(k_, st, f"{fi.qualname}: the arm taken when `{name}` is a valid reply raises, the arm for a failed reply does not: valid replies are refused")
                elif fp and not tp:
                    ctx.violation(k_, st, f"{fi.qualname}: the payload of `{name}` is used only on the arm taken when the reply failed")
                elif te and not fe:
                    ctx.violation(k_, st, f"{fi.qualname}: `{name}.error` is reported only on the arm taken when the reply is valid")
                else:
                    ctx.ok(k_, st, f"`{name}`: valid-reply arm {'uses the payload' if tp else 'continues'}, failed-reply arm {'raises' if fr else 'reports the error' if fe else 'returns'}")
        if n == 0:
            ctx.ok(f"{prop}#no-reply-guards", None, "no branch on a reply's truthiness in the anchored files")

    return response_guard_polarity


for _prop, _files in sorted(_anchor_files().items()):
    _make_guard(_prop, set(_files))
    _make(_prop, set(_files))
    _make_attr(_prop, set(_files))
    _make_ctor(_prop, set(_files))
