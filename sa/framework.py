"""Obligation framework: rule registry, results, known findings, evidence."""
from __future__ import annotations

import ast
import json
import os
import time
import traceback
from typing import Callable, Dict, List, Optional

from .consteval import Folder
from .model import AnalysisError, Model

VERIF = os.path.dirname(os.path.dirname(os.path.abspath(__file__)))

OK, VIOLATION, UNDECIDED, KNOWN = "OK", "VIOLATION", "UNDECIDED", "KNOWN-FINDING"


class Result:
    def __init__(self, prop, rule, template, construct, loc, verdict, what, facts):
        self.prop = prop
        self.rule = rule
        self.template = template
        self.construct = construct
        self.loc = loc
        self.verdict = verdict
        self.what = what
        self.facts = facts or {}

    def key(self):
        return (self.prop, self.rule, self.construct)

    def as_dict(self):
        return {
            "property": self.prop,
            "rule": self.rule,
            "template": self.template,
            "construct": self.construct,
            "loc": self.loc,
            "verdict": self.verdict,
            "what": self.what,
            "facts": _jsonable(self.facts),
        }

    def line(self):
        facts = json.dumps(_jsonable(self.facts), sort_keys=True, default=str)
        if len(facts) > 300:
            facts = facts[:297] + "..."
        return f"{self.verdict} {self.rule} [{self.template}] {self.construct} {self.loc} -- {self.what} {facts}"


def _jsonable(x):
    if isinstance(x, dict):
        return {str(k): _jsonable(v) for k, v in x.items()}
    if isinstance(x, (list, tuple, set, frozenset)):
        xs = list(x)
        if isinstance(x, (set, frozenset)):
            xs = sorted(xs, key=repr)
        return [_jsonable(v) for v in xs]
    if isinstance(x, bytes):
        return "0x" + x.hex()
    if isinstance(x, (str, int, float, bool)) or x is None:
        return x
    return repr(x)


class RuleDef:
    def __init__(self, prop, rid, template, fn, floor, desc, tier):
        self.prop = prop
        self.id = rid
        self.template = template
        self.fn = fn
        self.floor = floor
        self.desc = desc
        self.tier = tier


REGISTRY: Dict[str, List[RuleDef]] = {}


def rule(prop: str, rid: str, template: str, floor: int = 1, desc: str = "", tier: str = "quick"):
    def deco(fn: Callable):
        REGISTRY.setdefault(prop, []).append(RuleDef(prop, rid, template, fn, floor, desc or (fn.__doc__ or "").strip(), tier))
        return fn

    return deco


class Ctx:
    """What a rule sees: the model, the constant folder, the spec tables and result sinks."""

    def __init__(self, model: Model, tier="quick"):
        self.model = model
        self.folder = Folder(model)
        self.tier = tier
        self.results: List[Result] = []
        self._cur: Optional[RuleDef] = None
        self._spec_cache: Dict[str, dict] = {}
        self.assumptions: List[str] = []
        self._cfg_cache = {}

    # spec tables --------------------------------------------------------
    def spec(self, name: str) -> dict:
        if name not in self._spec_cache:
            path = os.path.join(VERIF, "spec", name + ".json")
            try:
                with open(path) as fh:
                    self._spec_cache[name] = json.load(fh)
            except Exception as err:
                raise AnalysisError(f"spec table {name} unreadable: {err}")
        return self._spec_cache[name]

    def cfg(self, func_node):
        from .cfg import CFG

        if func_node not in self._cfg_cache:
            self._cfg_cache[func_node] = CFG(func_node, hierarchy=self.exc_hierarchy())
        return self._cfg_cache[func_node]

    def exc_hierarchy(self):
        if not hasattr(self, "_exc_h"):
            h = {}
            mod = self.model.modules.get("pycomm3.exceptions")
            if mod is not None:
                for st in mod.tree.body:
                    if isinstance(st, ast.ClassDef) and st.bases:
                        b = st.bases[0]
                        if isinstance(b, ast.Name):
                            h[st.name] = b.id
            self._exc_h = h
        return self._exc_h

    # locations ---------------------------------------------------------
    def loc(self, node, module=None) -> str:
        if node is None:
            return "?"
        try:
            m = module or self.model.module_of_node(node)
            return f"{m.relpath}:{getattr(node, 'lineno', 0)}"
        except Exception:
            return f"?:{getattr(node, 'lineno', 0)}"

    # sinks ---------------------------------------------------------------
    def _add(self, verdict, construct, node, what, facts, module=None):
        r = self._cur
        loc = node if isinstance(node, str) else self.loc(node, module)
        self.results.append(Result(r.prop, r.id, r.template, construct, loc, verdict, what, facts))

    def ok(self, construct, node, what="", **facts):
        self._add(OK, construct, node, what, facts)

    def violation(self, construct, node, what, **facts):
        self._add(VIOLATION, construct, node, what, facts)

    def undecided(self, construct, node, what, **facts):
        self._add(UNDECIDED, construct, node, what, facts)

    def check(self, cond, construct, node, what_ok, what_bad, **facts):
        if cond:
            self.ok(construct, node, what_ok, **facts)
        else:
            self.violation(construct, node, what_bad, **facts)
        return cond

    def assume(self, text):
        if text not in self.assumptions:
            self.assumptions.append(text)


def load_known_findings() -> List[dict]:
    path = os.path.join(VERIF, "known_findings.json")
    if not os.path.exists(path):
        return []
    with open(path) as fh:
        data = json.load(fh)
    return data.get("findings", [])


def run_property(prop: str, repo: str, tier: str = "quick", overlay=None, only_rule: Optional[str] = None):
    """Evaluate all rules of `prop` on the tree at `repo`. Returns (ctx, results, timing)."""
    from . import rules  # noqa: F401  (registers)

    t0 = time.time()
    model = Model(repo, overlay=overlay)
    ctx = Ctx(model, tier)
    for rd in REGISTRY.get(prop, []):
        if only_rule and rd.id != only_rule:
            continue
        if rd.tier == "thorough" and tier != "thorough":
            continue
        ctx._cur = rd
        before = len(ctx.results)
        try:
            rd.fn(ctx)
        except AnalysisError as err:
            ctx._add(UNDECIDED, f"{rd.id}#anchor", "?", f"analysis error: {err}", {})
        except RecursionError:
            ctx._add(UNDECIDED, f"{rd.id}#engine", "?", "checker failure: recursion", {})
        except Exception as err:  # the checker itself failed: never a verdict about the code
            tb = traceback.format_exc(limit=6)
            ctx._add(UNDECIDED, f"{rd.id}#engine", "?", f"checker failure: {err!r}", {"traceback": tb})
        n = len(ctx.results) - before
        if n < rd.floor and not any(r.verdict != OK for r in ctx.results[before:]):
            ctx._add(UNDECIDED, f"{rd.id}#floor", "?", f"rule matched {n} instance(s), below the confirmed floor {rd.floor}", {})
    return ctx, ctx.results, time.time() - t0
