"""Alpha-normalisation of local variable names.

Many rules locate a construct through the name of a local variable ("the offset that is advanced in the loop",
"the request built here").  Renaming a local is the most common behaviour-preserving edit there is, so before
any rule runs the model renames the locals of every function back to the names recorded for the reference
tree in spec/local_names.json.  A consistent, capture-free renaming of locals inside one function yields an
alpha-equivalent program, so whatever alignment is chosen the verdicts remain verdicts about the same behaviour;
the alignment only decides how many rules keep recognising their constructs.

Binding sites of a function, in source order, are the first binding occurrence of each distinct local name
(assignment, augmented assignment, for/with/except/comprehension target, walrus).  Each site has a signature:
its kind and the dump of the bound expression with every local name masked.  Alignment with the reference:
  * same number of sites and same kind sequence -> positional;
  * otherwise sites whose signature is unique on both sides are paired.
Only pairs whose names differ are renamed, and only if the mapping is injective and captures nothing (the new
name is not a parameter, a global/nonlocal, a free name used in the function, or another local).

  python -m sa.localnames --write      regenerate spec/local_names.json from /repo (after a reviewed change)
  python -m sa.localnames --diff       show which functions of /repo would be renamed, and how
"""
from __future__ import annotations

import ast
import hashlib
import json
import os
import sys
from typing import Dict, List, Optional, Tuple

VERIF = os.path.dirname(os.path.dirname(os.path.abspath(__file__)))
TABLE = os.path.join(VERIF, "spec", "local_names.json")
_FUNCS = (ast.FunctionDef, ast.AsyncFunctionDef)


def _own_nodes(func):
    """Nodes of the function body that belong to its scope (nested defs / classes / lambdas are opaque, except that
    comprehensions are entered: their targets are renamed with the function)."""
    stack = list(func.body)
    while stack:
        n = stack.pop()
        yield n
        for c in ast.iter_child_nodes(n):
            if isinstance(c, _FUNCS + (ast.ClassDef, ast.Lambda)):
                continue
            stack.append(c)


def _params(func):
    a = func.args
    ps = {x.arg for x in a.args + a.kwonlyargs + getattr(a, "posonlyargs", [])}
    if a.vararg:
        ps.add(a.vararg.arg)
    if a.kwarg:
        ps.add(a.kwarg.arg)
    return ps


def _keep(func):
    keep = set()
    for n in _own_nodes(func):
        if isinstance(n, (ast.Global, ast.Nonlocal)):
            keep.update(n.names)
        if isinstance(n, (ast.Import, ast.ImportFrom)):
            for a in n.names:
                keep.add((a.asname or a.name).split(".")[0])
    for c in ast.iter_child_nodes(func):
        pass
    for n in ast.walk(func):
        if n is not func and isinstance(n, _FUNCS + (ast.ClassDef,)):
            keep.add(n.name)
    return keep


def _nested_uses(func) -> set:
    """Names referenced inside nested defs / lambdas / classes (closures): left alone to avoid touching another scope."""
    out = set()
    for n in ast.walk(func):
        if n is not func and isinstance(n, _FUNCS + (ast.Lambda, ast.ClassDef)):
            for x in ast.walk(n):
                if isinstance(x, ast.Name):
                    out.add(x.id)
    return out


def binding_sites(func) -> List[Tuple[str, str, str]]:
    """[(name, kind, signature)] in source order, one per distinct local name."""
    params, keep, nested = _params(func), _keep(func), _nested_uses(func)
    sites = []
    for n in _own_nodes(func):
        if isinstance(n, ast.Name) and isinstance(n.ctx, ast.Store):
            sites.append((n.lineno, n.col_offset, n.id, n))
        elif isinstance(n, ast.ExceptHandler) and n.name:
            sites.append((n.lineno, n.col_offset, n.name, n))
    sites.sort(key=lambda s: (s[0], s[1]))
    locals_ = []
    for _, _, name, node in sites:
        if name in params or name in keep or name in nested or (name.startswith("__") and name.endswith("__")):
            continue
        if name not in [x[0] for x in locals_]:
            locals_.append((name, node))
    names = {n for n, _ in locals_}
    uses: Dict[str, list] = {}
    for n in _own_nodes(func):
        if isinstance(n, ast.Name) and isinstance(n.ctx, ast.Load) and n.id in names:
            # the smallest enclosing expression statement / test / value that uses the name, with this name marked and
            # the other locals masked
            top = n
            while True:
                p = getattr(top, "_ln_parent", None)
                if p is None or isinstance(p, ast.stmt) or isinstance(p, (ast.comprehension, ast.ExceptHandler, ast.withitem)):
                    break
                top = p
            uses.setdefault(n.id, []).append(_sig(top, names - {n.id}, mark=n.id))
    out = []
    for name, node in locals_:
        kind, bound = _kind_and_bound(node)
        usig = hashlib.sha1("|".join(sorted(uses.get(name, []))).encode()).hexdigest()[:12] if uses.get(name) else "-"
        out.append((name, kind, _sig(bound, names), usig))
    return out


def _kind_and_bound(node):
    if isinstance(node, ast.ExceptHandler):
        return "except", node.type
    p = getattr(node, "_ln_parent", None)
    child = node
    while p is not None and isinstance(p, (ast.Tuple, ast.List, ast.Starred)):
        child, p = p, getattr(p, "_ln_parent", None)
    if isinstance(p, ast.Assign):
        return "assign", p.value
    if isinstance(p, ast.AnnAssign):
        return "assign", p.value
    if isinstance(p, ast.AugAssign):
        return "aug", p.value
    if isinstance(p, (ast.For, ast.AsyncFor)):
        return "for", p.iter
    if isinstance(p, ast.comprehension):
        return "comp", p.iter
    if isinstance(p, ast.withitem):
        return "with", p.context_expr
    if isinstance(p, ast.NamedExpr):
        return "walrus", p.value
    return "other", None


class _Mask(ast.NodeTransformer):
    def __init__(self, names, mark=None):
        self.names, self.mark = names, mark

    def visit_Name(self, n):
        if self.mark is not None and n.id == self.mark:
            return ast.Name(id="@", ctx=ast.Load())
        return ast.Name(id="_", ctx=ast.Load()) if n.id in self.names else ast.Name(id=n.id, ctx=ast.Load())


def _sig(expr, names, mark=None) -> str:
    if expr is None:
        return "-"
    try:
        e = ast.parse(ast.unparse(expr), mode="eval").body
        text = ast.dump(_Mask(names, mark).visit(e))
    except Exception:  # noqa
        text = "?"
    return hashlib.sha1(text.encode()).hexdigest()[:12]


def _link(tree):
    for node in ast.walk(tree):
        for child in ast.iter_child_nodes(node):
            child._ln_parent = node


def functions_of(tree):
    """[(qualified key, FunctionDef)] with ordinals for repeated names in one scope."""
    out = []

    def visit(node, prefix):
        seen = {}
        for c in ast.iter_child_nodes(node):
            if isinstance(c, _FUNCS + (ast.ClassDef,)):
                k = seen.get(c.name, 0)
                seen[c.name] = k + 1
                q = f"{prefix}{c.name}" + (f"#{k}" if k else "")
                if isinstance(c, _FUNCS):
                    out.append((q, c))
                visit(c, q + ".")
            else:
                visit(c, prefix)

    visit(tree, "")
    return out


def build_table(repo, package="pycomm3") -> Dict[str, Dict[str, list]]:
    table = {}
    root = os.path.join(repo, package)
    for dirpath, dirnames, filenames in os.walk(root):
        dirnames[:] = sorted(d for d in dirnames if d != "__pycache__")
        for fn in sorted(filenames):
            if not fn.endswith(".py"):
                continue
            path = os.path.join(dirpath, fn)
            rel = os.path.relpath(path, repo)
            with open(path, "rb") as fh:
                src = fh.read().decode("utf-8", "surrogateescape").replace("\r\n", "\n")
            try:
                tree = ast.parse(src)
            except SyntaxError:
                continue
            _link(tree)
            funcs = {}
            for q, f in functions_of(tree):
                sites = binding_sites(f)
                if sites:
                    funcs[q] = [list(s) for s in sites]
            if funcs:
                table[rel] = funcs
    return table


_TABLE_CACHE: Optional[dict] = None


def load_table() -> dict:
    global _TABLE_CACHE
    if _TABLE_CACHE is None:
        try:
            with open(TABLE) as fh:
                _TABLE_CACHE = json.load(fh).get("functions", {})
        except (OSError, ValueError):
            _TABLE_CACHE = {}
    return _TABLE_CACHE


def align(cur: List[Tuple[str, str, str]], ref: List[List[str]]) -> Dict[str, str]:
    """{current name: reference name} for the sites that can be paired and whose names differ."""
    pairs = []
    if len(cur) == len(ref) and [c[1] for c in cur] == [r[1] for r in ref]:
        pairs = list(zip(cur, ref))
    else:
        import difflib

        a_ = [(c[1], c[2]) for c in cur]
        b_ = [(r[1], r[2]) for r in ref]
        sm = difflib.SequenceMatcher(a=a_, b=b_, autojunk=False)
        for tag, i1, i2, j1, j2 in sm.get_opcodes():
            if tag == "equal":
                pairs += list(zip(cur[i1:i2], ref[j1:j2]))
            elif tag == "replace":
                # sites whose bound expression changed: pair the k-th site of a kind on one side with the k-th of that kind
                # on the other when both sides have the same number of that kind
                kinds = {c[1] for c in cur[i1:i2]} | {r[1] for r in ref[j1:j2]}
                for k in kinds:
                    cs = [c for c in cur[i1:i2] if c[1] == k]
                    rs = [r for r in ref[j1:j2] if r[1] == k]
                    # a name that is unchanged pairs with itself first
                    same = {c[0] for c in cs} & {r[0] for r in rs}
                    pairs += [(c, r) for c in cs for r in rs if c[0] == r[0] and c[0] in same]
                    cs = [c for c in cs if c[0] not in same]
                    rs = [r for r in rs if r[0] not in same]
                    if len(cs) == len(rs):
                        pairs += list(zip(cs, rs))
        # leftovers: pair by how the variable is used (unique use signature on both sides)
        paired_cur = {id(p[0]) for p in pairs}
        paired_ref = {id(p[1]) for p in pairs}
        left_c = [c for c in cur if id(c) not in paired_cur and len(c) > 3 and c[3] != "-"]
        left_r = [r for r in ref if id(r) not in paired_ref and len(r) > 3 and r[3] != "-"]
        for c in left_c:
            rs = [r for r in left_r if r[3] == c[3] and r[1] == c[1]]
            cs = [x for x in left_c if x[3] == c[3] and x[1] == c[1]]
            if len(rs) == 1 and len(cs) == 1:
                pairs.append((c, rs[0]))
        # names that did not change block their reference name
        paired_cur = {id(p[0]) for p in pairs}
        ref_names = {r[0] for r in ref}
        for c in cur:
            if id(c) not in paired_cur and c[0] in ref_names:
                pairs = [p for p in pairs if p[1][0] != c[0]]
                pairs.append((c, [c[0], c[1], c[2]]))
    mapping = {}
    for c, r in pairs:
        if c[0] != r[0]:
            mapping[c[0]] = r[0]
    return mapping


def normalise_tree(tree, rel: str, table: Optional[dict] = None) -> Dict[str, Dict[str, str]]:
    """Rename locals in place; returns {function key: {old: new}} of what was renamed."""
    table = load_table() if table is None else table
    ref_funcs = table.get(rel)
    if not ref_funcs:
        return {}
    _link(tree)
    done = {}
    for q, f in functions_of(tree):
        ref = ref_funcs.get(q)
        if not ref:
            continue
        cur = binding_sites(f)
        if [c[0] for c in cur] == [r[0] for r in ref]:
            continue
        mapping = align(cur, ref)
        if not mapping:
            continue
        # capture check
        params, keep = _params(f), _keep(f)
        all_names = {x.id for x in ast.walk(f) if isinstance(x, ast.Name)} | {x.name for x in ast.walk(f) if isinstance(x, ast.ExceptHandler) and x.name}
        targets = list(mapping.values())
        ok = len(set(targets)) == len(targets)
        for old, new in mapping.items():
            if new in params or new in keep:
                ok = False
            if new in all_names and new not in mapping:  # would collide with a name that stays
                ok = False
        if not ok:
            continue
        for n in _own_nodes(f):
            if isinstance(n, ast.Name) and n.id in mapping:
                n.id = mapping[n.id]
            elif isinstance(n, ast.ExceptHandler) and n.name in mapping:
                n.name = mapping[n.name]
        done[q] = mapping
    return done


def main(argv):
    repo = "/repo"
    if "--write" in argv:
        t = build_table(repo)
        os.makedirs(os.path.dirname(TABLE), exist_ok=True)
        with open(TABLE, "w") as fh:
            json.dump({"_doc": "reference names of local variables per function (binding sites in source order: name, kind, signature of the bound expression with locals masked); used by sa/localnames.py to alpha-normalise renamed locals before the rules run", "functions": t}, fh, indent=0, sort_keys=True)
        print(f"wrote {TABLE}: {sum(len(v) for v in t.values())} functions in {len(t)} files")
        return 0
    table = load_table()
    n = 0
    for rel in sorted(table):
        path = os.path.join(repo, rel)
        if not os.path.exists(path):
            continue
        with open(path, "rb") as fh:
            src = fh.read().decode("utf-8", "surrogateescape").replace("\r\n", "\n")
        done = normalise_tree(ast.parse(src), rel, table)
        for q, m in done.items():
            n += 1
            print(f"{rel}:{q}: {m}")
    print(f"{n} function(s) would be normalised")
    return 0


if __name__ == "__main__":
    sys.exit(main(sys.argv[1:]))
