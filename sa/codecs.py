"""Codec class summaries shared by C06 / C07: effective implementations, write and read layouts."""
from __future__ import annotations

import ast
import struct
from typing import List, Optional

from .bytelayout import Layouter, flatten, read_layout
from .consteval import UNKNOWN, ClassRef

DT = "pycomm3.cip.data_types"
FIXED = {"USINT", "UINT", "UDINT", "ULINT", "SINT", "INT", "DINT", "LINT", "REAL", "LREAL", "BOOL"}


def datatype_classes(ctx):
    base = ctx.model.cls(f"{DT}:DataType")
    return [c for c in ctx.model.classes.values() if base in c.mro()]


def effective(ctx, cls, name):
    """(defining class, FunctionDef) of cls.<name> through the MRO."""
    for c in cls.mro():
        if name in c.methods:
            return c, c.methods[name]
    return None, None


def write_layout(ctx, cls, name="_encode"):
    dc, fn = effective(ctx, cls, name)
    if fn is None:
        return None, None, None
    lay = Layouter(ctx, dc.module, cls, fn)
    # look up names in the *defining* module but class attributes through the concrete class
    return dc, fn, lay.function(fn)


def reads(ctx, cls, name="_decode"):
    dc, fn = effective(ctx, cls, name)
    if fn is None:
        return None, None, None
    lay_cls = _CombinedScope(ctx, dc, cls)
    return dc, fn, read_layout(ctx, fn, dc.module, lay_cls)


def _CombinedScope(ctx, defining, concrete):
    # class attributes must resolve through the concrete class' MRO (cls.len_type of STRING, not of StringDataType)
    return concrete


def tokens_write(layout) -> List[str]:
    """Fixed type names in order, '*' for anything of variable width (adjacent '*' merged)."""
    out: List[str] = []

    def push(t):
        if t == "*" and out and out[-1] == "*":
            return
        out.append(t)

    def go(fields):
        for f in flatten(fields or []):
            k = f[0]
            if k in ("enc", "lenof"):
                push(f[1] if f[1] in FIXED or not f[1].startswith(("cls.", "self.")) else f[1])
            elif k == "const":
                push(f"const{len(f[1])}")
            elif k == "cut":
                go([f[1]])
            elif k == "each":
                out.append("[")
                go(f[3])
                out.append("]")
            elif k == "alt":
                a, b = _tok(f[2]), _tok(f[3])
                if a == b:
                    for t in a:
                        push(t)
                else:
                    push("*")
            elif k in ("raise",):
                continue
            else:
                push("*")

    go(layout)
    return out


def _tok(fields):
    return tokens_write(fields)


def tokens_read(rl) -> List[str]:
    out: List[str] = []
    for f in rl or []:
        if f[0] == "dec":
            t = f[1]
            if t in FIXED or (t and t[0].isupper()):
                out.append(t)
            elif t.startswith(("cls.", "self.")):
                out.append(t)
            else:
                if not out or out[-1] != "*":
                    out.append("*")
        else:
            if not out or out[-1] != "*":
                out.append("*")
    return out


def format_facts(fmt: str):
    """(endianness char, kind, width) of a single-item struct format."""
    if not fmt:
        return None
    order = fmt[0] if fmt[0] in "<>=!@" else "@"
    body = fmt[1:] if fmt[0] in "<>=!@" else fmt
    if len(body) != 1:
        return None
    ch = body
    kind = {"b": "sint", "h": "sint", "i": "sint", "l": "sint", "q": "sint", "B": "uint", "H": "uint", "I": "uint", "L": "uint", "Q": "uint", "f": "float", "d": "float", "?": "bool"}.get(ch)
    try:
        width = struct.calcsize("<" + ch)
    except struct.error:
        return None
    return order, kind, width


def class_const(ctx, cls, attr):
    v = ctx.folder.class_attr(cls, attr)
    return None if v is UNKNOWN else v


def zero_read_problems(ctx, cls):
    """Reads whose size is a decoded (run-time) count must be guarded against a zero count: `_stream_read(stream, 0)`
    returns nothing and is reported as BufferEmptyError, so an empty string / empty payload would fail to decode.
    Returns [(node, message)] for the effective _decode of cls."""
    import ast as _ast
    from .astutil import walk, attr_path
    from .linexpr import atom_name, emptiness, cmp_norm

    dd, dfn = effective(ctx, cls, "_decode")
    if dfn is None:
        return []
    g = ctx.cfg(dfn)
    probs = []
    for call in walk(dfn):
        if not (isinstance(call, _ast.Call) and attr_path(call.func) == "cls._stream_read" and len(call.args) == 2):
            continue
        size = call.args[1]
        const = ctx.folder.eval(size, dd.module, cls=cls, func=dfn)
        if isinstance(const, int):
            continue
        if attr_path(size) and attr_path(size).startswith("cls."):
            continue  # a class constant (capacity); zero capacity is a degenerate type, not a value
        names = {n.id for n in walk(size) if isinstance(n, _ast.Name)}
        st = call
        while not isinstance(st, _ast.stmt):
            st = getattr(st, "_parent")
        rn = g.nodes_of(st)
        if not rn:
            continue
        guarded = False
        for t in g.nodes:
            if t.kind != "test":
                continue
            for v in names:
                # `v == 0` / `not v` true means zero; `v` / `v != 0` / `v > 0` true means non-zero
                zero_on_true = None
                e = t.ast
                neg = False
                while isinstance(e, _ast.UnaryOp) and isinstance(e.op, _ast.Not):
                    neg = not neg
                    e = e.operand
                if isinstance(e, _ast.Name) and e.id == v:
                    zero_on_true = neg
                else:
                    c = cmp_norm(t.ast)
                    if c is not None and set(c[1].terms) == {v}:
                        k, L = c
                        if k == "==0" and L.const == 0:
                            zero_on_true = True
                        elif k == "!=0" and L.const == 0:
                            zero_on_true = False
                        elif k == "<=0" and L.terms[v] == -1 and L.const == 1:  # v >= 1
                            zero_on_true = False
                        elif k == "<=0" and L.terms[v] == 1 and L.const == 0:  # v <= 0
                            zero_on_true = True
                if zero_on_true is None:
                    continue
                if g.branch_dominates(t, (not zero_on_true), rn[0]):
                    guarded = True
        if not guarded:
            probs.append((call, f"`{_ast.unparse(call)}` reads a run-time count of bytes without a guard for count 0: an empty value makes _stream_read raise BufferEmptyError instead of decoding to the empty value"))
    return probs
