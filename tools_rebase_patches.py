#!/usr/bin/env python3
"""Developer helper (not used by any check): after a "fix:" commit in /repo, stored variant patches (/verif/seeded/*/patch.diff,
/verif/refactors/*/patch.diff) whose context overlaps the repaired lines no longer apply.  Each such patch is re-based with a
three-way merge against its recorded base blobs in a scratch worktree of /repo (outside /repo and /verif, removed afterwards);
a patch that merges cleanly is rewritten, one that conflicts is listed for a manual merge.

usage: tools_rebase_patches.py [--dry]
"""
import glob
import os
import subprocess
import sys
import tempfile


def sh(cmd, cwd):
    r = subprocess.run(cmd, cwd=cwd, capture_output=True, text=True)
    return r.returncode, r.stdout + r.stderr


def main():
    dry = "--dry" in sys.argv
    wt = tempfile.mkdtemp(prefix="rebase-wt-")
    os.rmdir(wt)
    rc, out = sh(["git", "-C", "/repo", "worktree", "add", "-q", "--detach", wt, "HEAD"], "/")
    if rc:
        print(out)
        return 2
    stale, rebased, conflicts = [], [], []
    try:
        for p in sorted(glob.glob("/verif/seeded/*/patch.diff") + glob.glob("/verif/refactors/*/patch.diff")):
            rc, _ = sh(["git", "apply", "--check", p], wt)
            if rc == 0:
                continue
            stale.append(p)
            rc, out = sh(["git", "apply", "-3", p], wt)
            rc2, conflict_out = sh(["git", "diff", "--name-only", "--diff-filter=U"], wt)
            if rc == 0 and not conflict_out.strip():
                _, diff = sh(["git", "diff", "HEAD", "--", "pycomm3"], wt)
                if not dry:
                    with open(p, "w") as f:
                        f.write(diff)
                rebased.append(p)
            else:
                conflicts.append((p, out.strip().splitlines()[-1] if out.strip() else ""))
            sh(["git", "reset", "-q", "--hard", "HEAD"], wt)
            sh(["git", "clean", "-fdq"], wt)
    finally:
        sh(["git", "-C", "/repo", "worktree", "remove", "--force", wt], "/")
    print(f"{len(stale)} patch(es) no longer applied; {len(rebased)} re-based by three-way merge; {len(conflicts)} need a manual merge")
    for p in rebased:
        print("  rebased ", p)
    for p, why in conflicts:
        print("  CONFLICT", p, why)
    return 1 if conflicts else 0


if __name__ == "__main__":
    sys.exit(main())
