"""C17 -- Connected messages carry fresh sequence counts."""
from __future__ import annotations

import ast

from ..astutil import attr_path, call_name, walk, src, enclosing_func
from ..consteval import UNKNOWN, ClassRef
from ..framework import rule
from ..linexpr import atom_name, cmp_norm
from .common import CD, PE, PL, ckey

P = "C17"
EXPLANATION = (
    "Static rules D17.1-D17.4 (DESIGN.md section 5, C17): symbolic path analysis of util.cycle between consecutive yields "
    "(the yielded value is previous+k with k != 0, or a reset to start that is only reachable when previous > start), the "
    "interval facts of its single construction (0 <= start < stop <= 0xFFFF), T-FRESH over every construction site of a "
    "connected request packet (sequence argument is the driver generator or next(generator), never a stored count), the "
    "placement of the count as the first UINT of the connected data, and single ownership of the generator. Decides that "
    "consecutive draws differ, also across the wrap; does not decide histories where an exact multiple of the period is "
    "drawn between two sends."
)
ASSUMPTIONS = ["a packet object is sent at most once per construction (checked for the fragment loops under C02/C04)"]


@rule(P, "D17.1", "T-PATHS", floor=3)
def d17_1(ctx):
    """util.cycle: two consecutive yields never carry the same value; values stay inside [start, stop] within UINT range."""
    fn = ctx.model.func("pycomm3.util:cycle")
    func = fn.node
    params = [a.arg for a in func.args.args]
    if len(params) < 2:
        ctx.undecided(ckey(fn), func, "unexpected signature")
        return
    stop_p, start_p = params[0], params[1]
    g = ctx.cfg(func)
    yields = [n for n in g.nodes if n.kind == "stmt" and isinstance(n.ast, ast.Expr) and isinstance(n.ast.value, ast.Yield)]
    if not yields:
        ctx.undecided(ckey(fn), func, "no yield found")
        return
    var = atom_name(yields[0].ast.value.value) if yields[0].ast.value.value is not None else None
    # construction sites
    sites = []
    for fi in ctx.model.all_functions():
        for c in walk(fi.node):
            if isinstance(c, ast.Call) and call_name(c) == "cycle":
                s = ctx.model.resolve(fi.module.name, "cycle")
                if s is not None and s.kind == "func" and s.node is func:
                    args = {stop_p: None, start_p: 0}
                    dflt = func.args.defaults
                    if dflt:
                        args[start_p] = ctx.folder.eval(dflt[-1], fn.module)
                    for p_, a in zip(params, c.args):
                        args[p_] = ctx.folder.eval(a, fi.module)
                    for k in c.keywords:
                        args[k.arg] = ctx.folder.eval(k.value, fi.module)
                    sites.append((fi, c, args))
    if not sites:
        ctx.undecided(ckey(fn, "sites"), func, "no construction site of cycle() found")
        return
    for fi, c, args in sites:
        st, sp = args.get(start_p), args.get(stop_p)
        good = isinstance(st, int) and isinstance(sp, int) and 0 <= st < sp <= 0xFFFF
        ctx.check(good, ckey(fi, "cycle-args"), c, f"0 <= start={st} < stop={sp} <= 0xFFFF (period {sp - st + 1 if good else '?'} >= 2, fits UINT)",
                  f"cycle({sp}, start={st}): needs 0 <= start < stop <= 65535 (start == stop repeats one value; stop > 65535 cannot be encoded as UINT)", start=st, stop=sp)
    # symbolic walk yield -> yield
    problems, npaths = [], 0
    n_resets = [0]
    for y in yields:
        paths = g.paths(y, set(yields), max_visits=2)
        for path in paths:
            if path[-1] not in yields or len(path) < 2:
                continue
            # skip exceptional edges
            skip = False
            for a, b in zip(path, path[1:]):
                labs = [lab for s, lab in a.succ if s is b]
                if labs and all(l == "exc" for l in labs):
                    skip = True
            if skip:
                continue
            npaths += 1
            state = ("prev", 0)
            guard = None
            bad = None
            for a, b in zip(path, path[1:]):
                if a.kind == "stmt" and a is not path[0] or (a is path[0] and False):
                    pass
                n = a
                if n is not path[0] and n.kind == "stmt":
                    state, note = _apply(ctx, fn, n.ast, var, state, start_p)
                    if note:
                        bad = note
                if n.kind == "test":
                    lab = [l for s, l in n.succ if s is b][0]
                    c = cmp_norm(n.ast)
                    if c and c[0] == "<=0" and set(c[1].terms) == {var, stop_p} and state[0] == "prev":
                        # canonical:  coef_var*var + coef_stop*stop + const <= 0
                        cv, cs, k0 = c[1].terms[var], c[1].terms[stop_p], c[1].const
                        if lab is True:
                            guard = ("true", cv, cs, k0, state[1])
                        else:
                            guard = ("false", cv, cs, k0, state[1])
            if bad:
                problems.append(bad)
                continue
            if state[0] == "prev":
                if state[1] == 0:
                    problems.append(f"a path between two yields leaves `{var}` unchanged (lines {[p.lineno for p in path if p.lineno]}): the same count is yielded twice")
            elif state[0] == "start":
                n_resets[0] += 1
                # reset: feasible only under the recorded guard; need previous != start for every site
                if guard is None:
                    problems.append(f"`{var}` is reset to `{start_p}` unconditionally between two yields")
                    continue
                for fi, c, args in sites:
                    st, sp = args.get(start_p), args.get(stop_p)
                    if not (isinstance(st, int) and isinstance(sp, int)):
                        continue
                    # previous yielded value prev in [st, sp]; reset taken when guard holds for prev + k
                    feasible_prev = [p for p in {st, st + 1, sp - 1, sp} if st <= p <= sp and _guard_holds(guard, p, sp)]
                    if st in feasible_prev:
                        problems.append(f"with cycle({sp}, start={st}) the reset to start can follow a yield of start itself: two consecutive messages carry the same count")
            else:
                problems.append(f"`{var}` takes an untracked value between two yields")
    # values stay in range: every yield is dominated by the reset test on the non-exceeding side
    over = []
    for y in yields:
        ok = False
        for t in g.nodes:
            if t.kind == "test":
                c = cmp_norm(t.ast)
                if c and c[0] == "<=0" and set(c[1].terms) == {var, stop_p}:
                    ok = True
        if not ok:
            over.append(y)
    if over:
        problems.append("no comparison of the counter with `stop` guards the yield: counts leave the UINT range")
    if not n_resets[0] and not problems:
        problems.append(f"no path between two yields resets `{var}` to `{start_p}`: the counter grows past `{stop_p}` and leaves the UINT range")
    if problems:
        for p_ in sorted(set(problems)):
            ctx.violation(ckey(fn, "consecutive"), func, p_, paths=npaths)
    else:
        ctx.ok(ckey(fn, "consecutive"), func, f"on all {npaths} yield-to-yield paths the value changes (increment != 0, or reset only after a value > start)", paths=npaths, yields=len(yields))
    ctx.check(var is not None, ckey(fn, "yield"), func, f"yields `{var}`", "yield without a value")


def _guard_holds(guard, prev, stop):
    kind, cv, cs, k0, k = guard
    val = cv * (prev + k) + cs * stop + k0
    holds = val <= 0
    return holds if kind == "true" else not holds


def _apply(ctx, fn, st, var, state, start_p):
    """Transfer function of one statement on the symbolic counter."""
    if isinstance(st, ast.AugAssign) and atom_name(st.target) == var:
        k = ctx.folder.eval(st.value, fn.module)
        if isinstance(k, int) and isinstance(st.op, (ast.Add, ast.Sub)):
            d = k if isinstance(st.op, ast.Add) else -k
            if state[0] == "prev":
                return ("prev", state[1] + d), None
            if state[0] == "start":
                return ("other",), None
        return ("other",), None
    if isinstance(st, ast.Assign) and any(atom_name(t) == var for t in st.targets):
        if atom_name(st.value) == start_p:
            return ("start",), None
        if isinstance(st.value, ast.BinOp) and isinstance(st.value.op, (ast.Add, ast.Sub)) and atom_name(st.value.left) == var:
            k = ctx.folder.eval(st.value.right, fn.module)
            if isinstance(k, int) and state[0] == "prev":
                return ("prev", state[1] + (k if isinstance(st.value.op, ast.Add) else -k)), None
        return ("other",), None
    return state, None


def _sud_classes(ctx):
    base = ctx.model.cls(f"{PE}:SendUnitDataRequestPacket")
    return base, [c for c in ctx.model.classes.values() if base in c.mro()]


def construction_sites(ctx):
    """All Call nodes that construct a connected request packet: (FuncInfo, Call, ClassInfo|None, how)."""
    base, classes = _sud_classes(ctx)
    names = {c.name: c for c in classes}
    out = []
    for fi in ctx.model.all_functions():
        encl_cls = ctx.model.enclosing_class(fi.node)
        for c in walk(fi.node):
            if not isinstance(c, ast.Call) or enclosing_func(c) is not fi.node:
                continue
            f = c.func
            if isinstance(f, ast.Name):
                if f.id == "cls" and encl_cls is not None and encl_cls in classes:
                    out.append((fi, c, encl_cls, "cls"))
                    continue
                v = ctx.folder.eval(f, fi.module)
                if isinstance(v, ClassRef) and v.ci in classes:
                    out.append((fi, c, v.ci, "direct"))
                    continue
                # local alias:  req_class = A if cond else B
                binds = [n for n in walk(fi.node) if isinstance(n, ast.Assign) and atom_name(n.targets[0]) == f.id]
                if binds and isinstance(binds[0].value, ast.IfExp):
                    for arm in (binds[0].value.body, binds[0].value.orelse):
                        v = ctx.folder.eval(arm, fi.module)
                        if isinstance(v, ClassRef) and v.ci in classes:
                            out.append((fi, c, v.ci, "alias"))
            elif isinstance(f, ast.Attribute) and f.attr == "from_request":
                v = ctx.folder.eval(f.value, fi.module)
                if isinstance(v, ClassRef) and v.ci in classes:
                    out.append((fi, c, v.ci, "from_request"))
    return out


def _seq_arg(ctx, fi, call, how):
    if call.args and not isinstance(call.args[0], ast.Starred):
        return call.args[0]
    for k in call.keywords:
        if k.arg == "sequence":
            return k.value
        if k.arg is None:
            # **_kwargs : find _kwargs["sequence"] = ...
            name = atom_name(k.value)
            for n in walk(fi.node):
                if isinstance(n, ast.Assign) and isinstance(n.targets[0], ast.Subscript) and atom_name(n.targets[0].value) == name and isinstance(n.targets[0].slice, ast.Constant) and n.targets[0].slice.value == "sequence":
                    return n.value
    return None


@rule(P, "D17.2", "T-FRESH", floor=22)
def d17_2(ctx):
    """Every connected packet takes its count at construction from the driver generator (or next(generator)); never a stored count."""
    base, classes = _sud_classes(ctx)
    init = base.methods.get("__init__")
    good = False
    if init is not None:
        p = init.args.args[1].arg
        for n in walk(init):
            if isinstance(n, ast.Assign) and attr_path(n.targets[0]) == "self._sequence":
                v = n.value
                if isinstance(v, ast.IfExp) and isinstance(v.body, ast.Call) and call_name(v.body) == "next" and atom_name(v.body.args[0]) == p and atom_name(v.orelse) == p:
                    t = v.test
                    good = isinstance(t, ast.Call) and call_name(t) == "isinstance" and atom_name(t.args[0]) == p
                elif isinstance(v, ast.Call) and call_name(v) == "next" and atom_name(v.args[0]) == p:
                    good = True
    ctx.check(good, ckey(base.key + ".__init__"), init or base.node, "draws next(sequence) once when given the generator", "SendUnitDataRequestPacket.__init__ does not draw next(sequence) from the generator at construction")
    # subclass constructors pass their `sequence` parameter through
    for c in classes:
        ini = c.methods.get("__init__")
        if c is base or ini is None:
            continue
        p = ini.args.args[1].arg if len(ini.args.args) > 1 else None
        sup = [n for n in walk(ini) if isinstance(n, ast.Call) and isinstance(n.func, ast.Attribute) and n.func.attr == "__init__" and isinstance(n.func.value, ast.Call) and call_name(n.func.value) == "super"]
        good = len(sup) == 1 and sup[0].args and atom_name(sup[0].args[0]) == p
        ctx.check(good, ckey(c.key + ".__init__", "passthrough"), ini, "passes its sequence parameter to the base constructor", "constructor does not hand its `sequence` parameter to the base class unchanged")
    for fi, call, cls, how in construction_sites(ctx):
        arg = _seq_arg(ctx, fi, call, how)
        key = ckey(fi, f"{cls.name if cls else '?'}@{how}")
        if arg is None:
            ctx.violation(key, call, "cannot find the sequence argument of this connected-packet construction")
            continue
        a = atom_name(arg)
        params = [x.arg for x in fi.node.args.args]
        fresh = a == "self._sequence" or (isinstance(arg, ast.Call) and call_name(arg) == "next" and atom_name(arg.args[0]) in (["self._sequence"] + params)) or (how != "direct" and a in params and a == "sequence") or (a in params and a == "sequence")
        ctx.check(fresh, key, call, f"sequence argument `{a}` is the generator / a fresh draw",
                  f"sequence argument `{a}` is a stored count, not the driver generator or next(generator): two packets can carry the same count", arg=a)
        if how == "from_request":
            continue
    # a packet's stored count is never copied into another packet
    for fi in ctx.model.all_functions():
        if fi.module.name.startswith("pycomm3.packets") or fi.module.name.endswith("_driver"):
            for n in walk(fi.node):
                if isinstance(n, ast.Attribute) and n.attr == "_sequence" and isinstance(n.ctx, ast.Load) and not (isinstance(n.value, ast.Name) and n.value.id == "self"):
                    ctx.violation(ckey(fi, "copies-count"), n, f"`{src(n)}` reads another object's stored sequence count")


@rule(P, "D17.3", "T-DOM", floor=1)
def d17_3(ctx):
    """The count is the first thing appended to the connected data, as a UINT."""
    base, classes = _sud_classes(ctx)
    sm = base.methods.get("_setup_message")
    good, facts = False, {}
    if sm is not None:
        body = [s for s in sm.body if not (isinstance(s, ast.Expr) and isinstance(s.value, ast.Constant))]
        appends = [s for s in body if isinstance(s, ast.Expr) and isinstance(s.value, ast.Call) and attr_path(s.value.func) in ("self._msg.append",)]
        sup_first = bool(body) and isinstance(body[0], ast.Expr) and isinstance(body[0].value, ast.Call) and isinstance(body[0].value.func, ast.Attribute) and body[0].value.func.attr == "_setup_message"
        if appends:
            a = appends[0].value.args[0]
            facts["first_append"] = src(a)
            v = ctx.folder.eval(a.func.value, base.module) if isinstance(a, ast.Call) and isinstance(a.func, ast.Attribute) and a.func.attr == "encode" else None
            good = sup_first and isinstance(v, ClassRef) and v.ci.name == "UINT" and atom_name(a.args[0]) == "self._sequence" and body.index(appends[0]) == 1
    ctx.check(good, ckey(base.key + "._setup_message"), sm or base.node, "UINT.encode(self._sequence) is appended first", "the sequence count is not the first UINT appended to the connected data", **facts)


@rule(P, "D17.4", "T-WHO", floor=1)
def d17_4(ctx):
    """One generator per driver: self._sequence is assigned only in CIPDriver.__init__."""
    drv = ctx.model.cls(f"{CD}:CIPDriver")
    stores = []
    for c in ctx.model.subclasses(drv):
        for m in c.methods.values():
            for n in walk(m):
                if isinstance(n, (ast.Assign, ast.AnnAssign, ast.AugAssign)):
                    tgts = n.targets if isinstance(n, ast.Assign) else [n.target]
                    if any(attr_path(t) == "self._sequence" for t in tgts):
                        stores.append((c, m, n))
    good = len(stores) == 1 and stores[0][0] is drv and stores[0][1].name == "__init__" and isinstance(stores[0][2].value, ast.Call) and call_name(stores[0][2].value) == "cycle"
    ctx.check(good, ckey(drv.key, "_sequence-owner"), stores[0][2] if stores else drv.node, "the generator is created once, in CIPDriver.__init__",
              f"self._sequence is assigned at {[(c.name + '.' + m.name) for c, m, n in stores]}: re-creating the generator restarts the counts on a live connection", writers=[f"{c.name}.{m.name}" for c, m, n in stores])
