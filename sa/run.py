"""CLI of the static checker.

  python -m sa.run check C13 [--tier quick|thorough] [--repo /repo] [--replay FILE]
  python -m sa.run all [--tier quick]          (developer convenience)
  python -m sa.run selfcheck                   (spec tables + known findings parse)

exit 0  every decided clause holds (known findings printed as KNOWN-FINDING)
exit 1  VIOLATION property=<id> replay=<path>   for each violation not listed as known
exit 2  ANALYSIS-ERROR ...  anchor vanished / construct not interpretable / checker failure
"""
from __future__ import annotations

import argparse
import json
import os
import sys
import time
import traceback

from .framework import KNOWN, OK, REGISTRY, UNDECIDED, VERIF, VIOLATION, load_known_findings, run_property

EVID = os.path.join(VERIF, "evidence")


def _match_known(result, known):
    for k in known:
        if k.get("status") != "known":
            continue  # a fixed entry suppresses nothing
        if k.get("property") == result.prop and k.get("rule") == result.rule and k.get("construct") == result.construct:
            return k
    return None


def check(prop: str, tier: str, repo: str, replay=None, quiet=False, write_evidence=True, overlay=None, extra=None):
    from . import rules

    t0 = time.time()
    seed = int(os.environ.get("VERIF_SEED", "0") or 0)
    only_rule = None
    replay_construct = None
    if replay:
        with open(replay) as fh:
            rec = json.load(fh)
        only_rule = rec["rule"]
        replay_construct = rec["construct"]
    ctx, results, _ = run_property(prop, repo, tier, overlay=overlay, only_rule=only_rule)
    if replay_construct:
        results = [r for r in results if r.construct == replay_construct or r.verdict == UNDECIDED]
    known = load_known_findings()
    violations, knowns, undecided = [], [], []
    out = []
    for r in results:
        if r.verdict == VIOLATION:
            k = _match_known(r, known)
            if k:
                knowns.append((r, k))
            else:
                violations.append(r)
        elif r.verdict == UNDECIDED:
            undecided.append(r)
    if not quiet:
        for r in results:
            if r.verdict == OK:
                out.append(r.line())
        for r, k in knowns:
            out.append(f"KNOWN-FINDING: property={prop} {r.rule} {r.construct} {r.loc} -- {k.get('what_fails', r.what)}")
    os.makedirs(os.path.join(EVID, "replay"), exist_ok=True)
    if write_evidence:
        for fn in os.listdir(os.path.join(EVID, "replay")):
            if fn.startswith(prop + "-"):
                os.remove(os.path.join(EVID, "replay", fn))
    vio_lines = []
    for i, r in enumerate(violations):
        rp = os.path.join(EVID, "replay", f"{prop}-{r.rule}-{i}.json")
        if write_evidence:
            with open(rp, "w") as fh:
                json.dump(r.as_dict(), fh, indent=1, default=str)
        vio_lines.append(r.line())
        vio_lines.append(f"VIOLATION property={prop} replay={rp}")
    for r in undecided:
        out.append(f"ANALYSIS-ERROR property={prop} {r.rule} {r.construct} {r.loc} -- {r.what}")
        if r.facts.get("traceback"):
            out.append(r.facts["traceback"])
    out += vio_lines
    wall = time.time() - t0
    n_obl = len(results)
    mod = rules.MODULES.get(prop)
    cov = {
        "explanation": getattr(mod, "EXPLANATION", "") if mod else "",
        "obligations": n_obl,
        "discharged": sum(1 for r in results if r.verdict == OK),
        "known_findings": len(knowns),
        "undecided": len(undecided),
        "violations": len(violations),
        "evaluations": n_obl,
        "distinct_nontrivial": len({(r.rule, r.construct) for r in results if r.verdict != UNDECIDED and r.facts}),
        "rule": "one evaluation = one rule instance (clause of DESIGN.md section 5) decided at one construct of /repo's current source; "
        "non-trivial = the construct exists and the rule extracted at least one fact from it; distinct = distinct (rule, construct) pairs",
        "rules": sorted({r.rule for r in results}),
        "rule_templates": sorted({r.template for r in results}),
        "samples": [r.as_dict() for r in _sample(results, 40)],
        "modules": ctx.model.digests(),
        "functions_in_model": len(ctx.model.functions),
        "classes_in_model": len(ctx.model.classes),
        "trusted_base": ["CPython ast parser", "the specification tables under /verif/spec", "the sa engine (model, consteval, cfg, layout)"],
        "checker_cmd": f"/venv/bin/python -m sa.run check {prop} --tier {tier}",
        "repo": os.path.abspath(repo),
    }
    if extra:
        cov.update(extra)
    evidence = {
        "property_id": prop,
        "tier": tier,
        "seed": seed,
        "level": "other",
        "coverage": cov,
        "assumptions": (getattr(mod, "ASSUMPTIONS", []) if mod else []) + ctx.assumptions,
        "wall_s": round(wall, 3),
        "violations": len(violations),
    }
    if write_evidence:
        os.makedirs(EVID, exist_ok=True)
        with open(os.path.join(EVID, f"{prop}.json"), "w") as fh:
            json.dump(evidence, fh, indent=1, default=str)
    code = 1 if violations else (2 if undecided else 0)
    return code, out, evidence, results


def _sample(results, n):
    """Violations first, then a spread over the rules."""
    bad = [r for r in results if r.verdict != OK]
    good = [r for r in results if r.verdict == OK]
    seen, spread, rest = set(), [], []
    for r in good:
        if r.rule not in seen:
            seen.add(r.rule)
            spread.append(r)
        else:
            rest.append(r)
    return (bad + spread + rest)[:n]


def selfcheck():
    ok = True
    spec_dir = os.path.join(VERIF, "spec")
    for fn in sorted(os.listdir(spec_dir)):
        if fn.endswith(".json"):
            try:
                with open(os.path.join(spec_dir, fn)) as fh:
                    json.load(fh)
            except Exception as err:
                print(f"ANALYSIS-ERROR spec table {fn}: {err}")
                ok = False
    try:
        for k in load_known_findings():
            for fld in ("property", "rule", "construct", "status"):
                if fld not in k:
                    print(f"ANALYSIS-ERROR known_findings.json entry lacks {fld}: {k}")
                    ok = False
    except Exception as err:
        print(f"ANALYSIS-ERROR known_findings.json: {err}")
        ok = False
    from . import rules  # noqa: F401

    try:
        from .localnames import load_table

        t = load_table()
        print(f"selfcheck: local-name reference table covers {sum(len(v) for v in t.values())} functions in {len(t)} files")
    except Exception as err:  # the table is an aid, not an oracle: without it renamed locals are simply not normalised
        print(f"selfcheck: local-name table not usable ({err!r}); renamed locals will not be normalised")
    print(f"selfcheck: {sum(len(v) for v in REGISTRY.values())} rules registered for {len(REGISTRY)} properties")
    return 0 if ok else 2


def main(argv=None):
    ap = argparse.ArgumentParser(prog="sa.run")
    sub = ap.add_subparsers(dest="cmd", required=True)
    c = sub.add_parser("check")
    c.add_argument("prop")
    c.add_argument("--tier", default=os.environ.get("VERIF_TIER", "quick"), choices=["quick", "thorough"])
    c.add_argument("--repo", default="/repo")
    c.add_argument("--replay")
    c.add_argument("--quiet", action="store_true")
    a = sub.add_parser("all")
    a.add_argument("--tier", default="quick")
    a.add_argument("--repo", default="/repo")
    a.add_argument("--no-evidence", action="store_true")
    sub.add_parser("selfcheck")
    args = ap.parse_args(argv)
    try:
        if args.cmd == "selfcheck":
            return selfcheck()
        if args.cmd == "check":
            extra = None
            if args.tier == "thorough" and not args.replay:
                from .selftest import sweep

                extra = sweep(args.prop, args.repo)
                # automatic refactor twins (every local of one function renamed; modules re-emitted by ast.unparse) and the
                # mutants / seeded changes re-run with every local renamed: spelling must not matter either way
                from . import autotwins

                at = autotwins.sweep([args.prop], repo=args.repo)
                mr = autotwins.mutant_rename_sweep([args.prop], repo=args.repo)
                sr = autotwins.seeded_rename_sweep([args.prop], repo=args.repo)
                extra["selftest"]["auto_twins"] = {"variants_run": at["runs"], "alarms": [list(map(str, a[:3])) for a in at["alarms"]],
                                                   "mutants_renamed_run": mr["runs"], "mutants_renamed_not_reported": [list(map(str, x[:3])) for x in mr["survivors"]],
                                                   "seeded_renamed_run": sr["runs"], "seeded_renamed_not_reported": [list(map(str, x[:3])) for x in sr["survivors"]]}
            code, out, _, _ = check(args.prop, args.tier, args.repo, replay=args.replay, quiet=args.quiet, extra=extra)
            print("\n".join(out))
            print(f"{args.prop}: exit {code}")
            return code
        if args.cmd == "all":
            from . import rules

            worst = 0
            for prop in sorted(rules.MODULES):
                code, out, ev, results = check(prop, args.tier, args.repo, quiet=True, write_evidence=not args.no_evidence)
                print(f"== {prop}: exit {code}  obligations={len(results)} wall={ev['wall_s']}")
                for line in out:
                    print("   " + line)
                worst = max(worst, code)
            return worst
    except Exception as err:
        print(f"ANALYSIS-ERROR checker failure: {err!r}")
        traceback.print_exc()
        return 2


if __name__ == "__main__":
    sys.exit(main())
