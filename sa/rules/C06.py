"""C06 -- Data-type codecs round-trip every value."""
from __future__ import annotations

import ast
import struct

from ..astutil import attr_path, call_name, walk, src
from ..bytelayout import flatten, show
from ..codecs import class_const, datatype_classes, effective, reads, tokens_read, tokens_write, write_layout, zero_read_problems
from ..consteval import UNKNOWN, ClassRef
from ..framework import rule
from ..linexpr import Lin, atom_name, cmp_norm, lin
from .common import DT, CT, ckey

P = "C06"
PCCC = "pycomm3.cip.pccc"
EXPLANATION = (
    "Static rules D6.1-D6.6 (DESIGN.md section 5, C06) over every codec class (module-level and factory-produced, incl. "
    "pccc.py): struct.calcsize(_format) == size for every class on the base codec; encode/decode layout symmetry (the "
    "sequence of fixed-width fields written equals the sequence read, resolved per concrete class through the MRO) for "
    "strings, DATE_AND_TIME, STRINGN, STRINGI, FixedSizeString, IPAddress, Struct, identity objects and the three Array "
    "length kinds; unit agreement between the character-count prefix and the bytes read for every string class; stream "
    "discipline of decoders; dict vs positional struct encoding; fixed-array length rules. Decides the structural necessary "
    "conditions of decode(encode(v)) == v and of exact stream consumption; does not decide value equality itself."
)
ASSUMPTIONS = ["fixed-width encodings only (utf-8 multi-byte and astral code points are outside the decided clause)", "IEEE-754 rounding is delegated to struct"]


@rule(P, "D6.1", "T-SPEC", floor=16)
def d6_1(ctx):
    """Width agreement: struct.calcsize(_format) == size for every class using the base pack/unpack codec."""
    for c in datatype_classes(ctx):
        de, _ = effective(ctx, c, "_encode")
        dd, _ = effective(ctx, c, "_decode")
        if de is None or dd is None or de.name != "ElementaryDataType" or dd.name != "ElementaryDataType":
            continue
        if c.name in ("ElementaryDataType",):
            continue
        if ctx.model.own_method(c, "encode") is not None and ctx.model.own_method(c, "decode") is not None:
            continue
        fmt = class_const(ctx, c, "_format")
        size = class_const(ctx, c, "size")
        if not fmt:
            # abstract helpers (BytesDataType/StringDataType bases override) - skip classes without a format that never use the base codec
            if ctx.model.own_method(c, "encode") is not None or c.name in ("EPATH", "PADDED_EPATH", "PACKED_EPATH", "DATE_AND_TIME"):
                continue
            continue
        try:
            w = struct.calcsize(fmt)
            n = len(fmt.lstrip("<>=!@"))
        except (struct.error, TypeError):
            w, n = None, None
        node = c.attr_nodes.get("_format") or c.attr_nodes.get("size") or c.node
        ctx.check(w is not None and w == size and n == 1 and fmt[0] in "<>=!", ckey(c.key), node, f"calcsize({fmt!r}) == size == {size}",
                  f"{c.name}: format {fmt!r} packs {w} bytes but size is {size}: decode reads a different number of bytes than encode writes", format=fmt, size=size)


def _cmp_tokens(ctx, c, enc_name="_encode", dec_name="_decode"):
    dc, efn, lay = write_layout(ctx, c, enc_name)
    dd, dfn, rl = reads(ctx, c, dec_name)
    return efn, dfn, lay, rl, tokens_write(lay) if lay is not None else None, tokens_read(rl) if rl is not None else None


@rule(P, "D6.2", "T-SIB", floor=12)
def d6_2(ctx):
    """Encode/decode layout symmetry: the fixed-width fields written are the fields read, in the same order."""
    # strings (STRING, SHORT_STRING, LOGIX_STRING, STRING2, STRINGN, STRINGI): prefix and characters written are the prefix and
    # characters read - decided by folding both directions on witness values (D6.9); an earlier form compared the token lists of
    # `_encode` and `_decode` and alarmed when the character read moved into a shared helper
    d6_9(ctx)
    targets = []
    targets.append((ctx.model.cls(f"{DT}:DATE_AND_TIME"), "encode", "_decode"))
    for c, en, dn in targets:
        efn, dfn, lay, rl, tw, tr = _cmp_tokens(ctx, c, en, dn)
        if lay is None or rl is None:
            ctx.undecided(ckey(c.key, "symmetry"), c.node, "codec methods not found")
            continue
        tw2 = [t for t in tw if t not in ("[", "]")]
        tr2 = _resolve_cls_tokens(ctx, c, tr)
        tw2 = _resolve_cls_tokens(ctx, c, tw2)
        ctx.check(tw2 == tr2, ckey(c.key, "symmetry"), dfn, f"written {tw2} == read {tr2}",
                  f"{c.name}: encode writes fields {tw2} but decode reads {tr2}", written=show(lay), read=[list(x) for x in rl])
    # IPAddress: 4 bytes <-> dotted quad both ways, folded on witness addresses (D16.11) - an earlier form required
    # `IPv4Address(value).packed` / `.exploded` in the two methods
    from .driver import _ipaddress_rule

    _ipaddress_rule(ctx)
    # identity object: what decode rewrites (names for ids, hex text for the serial) encode turns back - folded on a witness
    # identity through both methods with the structure codec as a marker
    from ..miniinterp import Obj, run_function

    mio = ctx.model.cls(f"{CT}:ModuleIdentityObject")
    e, d = mio.methods.get("_encode"), mio.methods.get("_decode")
    if e is None or d is None:
        ctx.undecided(ckey(mio.key, "postprocess"), mio.node, "identity codec methods not found")
    else:
        vendors = ctx.folder.module_value(mio.module.name, "VENDORS")
        ptypes = ctx.folder.module_value(mio.module.name, "PRODUCT_TYPES")
        for label, raw in (("known ids", {"vendor": 1, "product_type": 14, "product_code": 55, "revision": {"major": 20, "minor": 11}, "status": b"\x30\x60", "serial": 0x00C0FFEE, "product_name": "1756-L61"}),
                           ("serial with five significant hex digits", {"vendor": 1, "product_type": 14, "product_code": 1, "revision": {"major": 1, "minor": 1}, "status": b"\x00\x00", "serial": 0x00012345, "product_name": "y"}),
                           ("serial with leading zero bytes", {"vendor": 1, "product_type": 12, "product_code": 1, "revision": {"major": 1, "minor": 1}, "status": b"\x00\x00", "serial": 0x0000012F, "product_name": "x"})):
            seen = {}

            def hook(call, env, it, raw=raw, seen=seen):
                f_ = call.func
                if isinstance(f_, ast.Attribute) and f_.attr in ("_decode", "_encode") and isinstance(f_.value, ast.Call) and call_name(f_.value) == "super":
                    if f_.attr == "_decode":
                        return dict(raw)
                    seen["encoded"] = dict(it.ev(call.args[0], env))
                    return b"<struct>"
                return UNKNOWN

            k1, dec_v = run_function(ctx, mio.module, d, {d.args.args[0].arg: Obj(), d.args.args[1].arg: b""}, call_hook=hook, deep=False)
            key = ckey(mio.key, f"postprocess:{label}")
            if k1 != "return" or not isinstance(dec_v, dict):
                (ctx.undecided if k1 == "unknown" else ctx.violation)(key, d, f"identity decode on {label}: {k1} {dec_v!r}")
                continue
            given = dict(dec_v)
            k2, enc_v = run_function(ctx, mio.module, e, {e.args.args[0].arg: Obj(), e.args.args[1].arg: dec_v}, call_hook=hook, deep=False)
            if k2 == "unknown":
                ctx.undecided(key, e, f"identity encode on {label}: {enc_v}")
                continue
            back = seen.get("encoded")
            ctx.check(k2 == "return" and back == raw and dec_v == given, key, e, f"{label}: encode hands the structure codec the ids / serial that decode received, and leaves its argument alone",
                      f"identity round trip on {label}: decode gives {given!r}; encode then hands the structure codec {back!r} (expected {raw!r}){'' if dec_v == given else ' and modifies the value it was given'}")
    _array_kinds(ctx)


def _resolve_cls_tokens(ctx, c, toks):
    out = []
    for t in toks:
        if t.startswith("cls."):
            v = ctx.folder.class_attr(c, t.split(".", 1)[1])
            out.append(v.ci.name if isinstance(v, ClassRef) else t)
        else:
            out.append(t)
    return out


def _postprocessed_keys(fn):
    keys = set()
    if fn is None:
        return keys
    for n in walk(fn):
        if isinstance(n, ast.Assign) and isinstance(n.targets[0], ast.Subscript) and atom_name(n.targets[0].value) == "values" and isinstance(n.targets[0].slice, ast.Constant):
            keys.add(n.targets[0].slice.value)
    return keys


def _array_kinds(ctx):
    """The three kinds of array length (fixed n, a length type written / read as a count prefix, None = to the end of the
    buffer), the per-call override and bit-string elements: decided by folding the generated Array class on witnesses
    (D6.12).  An earlier form located the length-type branch and the element loop in `decode` itself and alarmed when the
    count computation was extracted into a helper or the branches were flattened."""
    from .driver import _array_rule

    _array_rule(ctx)


def _test_accepts_class(ctx, arr, test) -> bool:
    """Can `test` be true when the tested object is a DataType *class*?"""
    for n in walk(test):
        if isinstance(n, ast.Call):
            nm = call_name(n)
            if nm == "issubclass":
                return True
            if nm == "isinstance" and len(n.args) == 2:
                t = n.args[1]
                names = [atom_name(x) for x in t.elts] if isinstance(t, ast.Tuple) else [atom_name(t)]
                if "type" in names or any(x.endswith("Meta") for x in names):
                    return True
            if nm and nm not in ("isinstance",):
                # helper predicate: look into its body
                s = ctx.model.resolve(arr.module.name, nm)
                if s is not None and s.kind == "func":
                    if any(isinstance(x, ast.Call) and call_name(x) == "issubclass" for x in walk(s.node)):
                        return True
    return False


def _typed_length_sites(ctx):
    sites = []
    for m in ctx.model.modules.values():
        for n in ast.walk(m.tree):
            if isinstance(n, ast.Subscript) and isinstance(n.ctx, ast.Load):
                v = ctx.folder.eval(n.value, m)
                s = ctx.folder.eval(n.slice, m)
                if isinstance(v, ClassRef) and isinstance(s, ClassRef) and v.ci.has_base_named("DataType") and s.ci.has_base_named("DataType"):
                    sites.append(f"{m.relpath}:{n.lineno} {ast.unparse(n)}")
    return sites


@rule(P, "D6.3", "T-WITNESS", floor=5)
def d6_3(ctx):
    """The length prefix of a string counts characters and decode reads prefix x character width bytes (1 for the single-byte
    encodings, 2 for STRING2, the per-value width for STRINGN); a fixed-capacity string reads its whole capacity and keeps
    `prefix` characters.  Decided by folding the string codecs on witness values (D6.9, incl. two-character STRING2 / STRINGN
    values whose byte count differs from the character count) and the generated fixed-capacity class (D6.14).  An earlier
    form related the prefix variable to the size expression of `_stream_read` syntactically and alarmed when the read and the
    slice were split into two statements."""
    from .driver import _fixedstring_rule

    d6_9(ctx)
    _fixedstring_rule(ctx)


@rule(P, "D6.4", "T-SIB", floor=10)
def d6_4(ctx):
    """Stream discipline: decoders consume only forward through the one stream (no seek/rewind/re-wrap), public decode wraps bytes once."""
    n_checked = 0
    for c in datatype_classes(ctx):
        for mname in ("_decode", "decode", "_decode_all"):
            fn = c.methods.get(mname)
            if fn is None or len(fn.args.args) < 2:
                continue
            param = fn.args.args[1].arg
            probs = []
            rebinds = [n for n in walk(fn) if isinstance(n, ast.Assign) and any(atom_name(t) == param for t in n.targets)]
            for n in walk(fn):
                if isinstance(n, ast.Call) and isinstance(n.func, ast.Attribute) and n.func.attr in ("seek", "truncate", "write"):
                    probs.append(f"{src(n)} repositions/modifies the stream")
                if isinstance(n, ast.Call) and call_name(n) == "BytesIO":
                    arg = n.args[0] if n.args else None
                    ok = isinstance(arg, ast.Call) and attr_path(arg.func) in ("cls._stream_read",) and atom_name(arg.args[0]) == param
                    ok = ok or (mname == "decode" and False)
                    if not ok:
                        probs.append(f"{src(n)} re-wraps data instead of consuming the caller's stream")
                if isinstance(n, ast.Call) and isinstance(n.func, ast.Attribute) and n.func.attr == "getvalue" and atom_name(n.func.value) == param and not rebinds and mname != "decode":
                    probs.append(f"{src(n)} reads the whole buffer regardless of position")
            n_checked += 1
            key = ckey(f"{c.key}.{mname}", "stream")
            if probs:
                ctx.violation(key, fn, "; ".join(probs))
            else:
                ctx.ok(key, fn, "consumes forward through the caller's stream only")
    base = ctx.model.cls(f"{DT}:DataType")
    for c in datatype_classes(ctx):
        fn = c.methods.get("decode")
        if fn is None or len(fn.args.args) < 2:
            continue
        from .common import only_raises_notimplemented

        if only_raises_notimplemented(fn):
            continue
        param = fn.args.args[1].arg
        wraps = [n for n in walk(fn) if isinstance(n, ast.Call) and call_name(n) == "_as_stream"]
        good = len(wraps) == 1 and atom_name(wraps[0].args[0]) == param
        sv = None
        if good:
            a = getattr(wraps[0], "_parent", None)
            sv = atom_name(a.targets[0]) if isinstance(a, ast.Assign) else None
            # every nested decode / _decode call receives the wrapped stream, never the raw buffer
            for n in walk(fn):
                if isinstance(n, ast.Call) and isinstance(n.func, ast.Attribute) and n.func.attr in ("decode", "_decode", "_decode_all") and n.args:
                    a0 = atom_name(n.args[0])
                    if a0 == param:
                        good = False
        ctx.check(good and sv is not None, ckey(f"{c.key}.decode", "wrap-once"), fn, f"bytes wrapped once by _as_stream into `{sv}`; nested decoders receive the stream",
                  "public decode does not wrap the buffer exactly once / passes the raw buffer to a nested decoder (a shared stream would be re-read from the start)")


@rule(P, "D6.5", "T-WITNESS", floor=1)
def d6_5(ctx):
    """Struct: dict and positional encodings walk cls.members in the same order with the member's own encode; decode visits the
    members in the same order.  Decided by folding the generated class on witness members (D6.15); an earlier form compared the
    layouts of the two generator expressions and alarmed on explicit loops."""
    from .driver import _struct_rule

    _struct_rule(ctx)


@rule(P, "D6.6", "T-WITNESS", floor=4)
def d6_6(ctx):
    """Fixed arrays: too few values raise before encoding; exactly `length` elements are encoded (surplus cut); open lengths
    encode every value and refuse a partial last element; bit-string elements take element bits consecutive bools each.
    Decided by folding the generated class's encode / decode on witness element types (8- and 16-bit strings, scalars) for each
    kind of length (D6.12); an earlier form compared the guards' arithmetic inside `encode` and alarmed when the counting moved
    into a helper."""
    from .driver import _array_rule

    _array_rule(ctx)


def _stmt(n):
    while not isinstance(n, ast.stmt):
        n = getattr(n, "_parent")
    return n


@rule(P, "D6.7", "T-DOM", floor=5)
def d6_7(ctx):
    """Empty values round-trip: a read whose size is a decoded count is guarded against count 0."""
    strbase = ctx.model.cls(f"{DT}:StringDataType")
    seen = set()
    for c in datatype_classes(ctx):
        if c.module.name == PCCC:
            continue
        dd, dfn = effective(ctx, c, "_decode")
        if dfn is None or strbase not in c.mro() or c is strbase:
            continue
        if not isinstance(ctx.folder.class_attr(c, "len_type"), ClassRef) and c.name != "STRINGN":
            continue
        probs = zero_read_problems(ctx, c)
        key = ckey(c.key, "empty-value")
        if probs:
            ctx.violation(key, probs[0][0], f"{c.name} (decoder {dd.name}._decode): {probs[0][1]}; decode(encode('')) fails")
        else:
            ctx.ok(key, dfn, f"{c.name}: a zero count returns the empty value without reading (decoder {dd.name}._decode)")


@rule(P, "D6.8", "T-WITNESS", floor=10)
def d6_8(ctx):
    """Fixed-width numeric types decode to exactly what struct unpacks and encode exactly what they are given: a class with a
    struct format either inherits the ElementaryDataType codec or its own `_decode` / `_encode` is the identity around it on
    witness values (integers at the type's boundaries; single/double precision values that need all their digits)."""
    import struct as _st

    from ..miniinterp import run_function

    base = ctx.model.cls(f"{DT}:ElementaryDataType")
    n = 0
    for c in datatype_classes(ctx):
        fmt = ctx.folder.class_attr(c, "_format")
        if not (isinstance(fmt, str) and fmt):
            continue
        n += 1
        ch = fmt[-1]
        if ch in "fd":
            f32 = lambda x: _st.unpack("<f", _st.pack("<f", x))[0]  # noqa: E731
            ws = [f32(0.1), 16777215.0, f32(1 + 2 ** -23), f32(3.4028234663852886e38), f32(1 / 3), -f32(123456.789), 0.0, 1.5] if ch == "f" else [0.1, 1 + 2 ** -52, 1.7976931348623157e308, 1 / 3, -123456.789, 0.0]
        else:
            size = _st.calcsize("<" + ch)
            signed = ch.islower()
            lo, hi = (-(1 << (8 * size - 1)), (1 << (8 * size - 1)) - 1) if signed else (0, (1 << (8 * size)) - 1)
            ws = sorted({lo, hi, 0, 1, hi - 1, lo + 1, hi // 3})
        for meth in ("_decode", "_encode"):
            dc, fn = effective(ctx, c, meth)
            key = ckey(c.key, f"{meth}#identity")
            if dc is base or fn is None:
                ctx.ok(key, c.node, f"{meth} is the inherited struct codec")
                continue
            bad, und = [], None
            for w in ws:
                def hook(call, env, it, _w=w):
                    f_ = call.func
                    if isinstance(f_, ast.Attribute) and f_.attr == meth and isinstance(f_.value, ast.Call) and call_name(f_.value) == "super":
                        # the inherited codec: decode yields the unpacked witness, encode packs what it is handed
                        if meth == "_decode":
                            return _w
                        arg = it.ev(call.args[0], env) if call.args else UNKNOWN
                        return ("packed", arg)
                    return UNKNOWN

                p_ = fn.args.args[1].arg if len(fn.args.args) > 1 else "value"
                kind, res = run_function(ctx, dc.module, fn, {"cls": None, p_: (None if meth == "_decode" else w)}, call_hook=hook)
                if kind == "unknown":
                    und = res
                    break
                want = w if meth == "_decode" else ("packed", w)
                if kind != "return" or res != want or (isinstance(w, float) and isinstance(res, float) and _st.pack("<d", res) != _st.pack("<d", w)):
                    bad.append(f"{w!r} -> {res!r}")
            if und is not None:
                ctx.undecided(key, fn, f"{c.name}.{meth} overrides the struct codec and is not foldable: {und}")
                continue
            ctx.check(not bad, key, fn, f"{c.name}.{meth} passes the struct codec's value through unchanged on {len(ws)} witnesses",
                      f"{c.name}.{meth} alters the value around the struct codec: {bad[:3]} - decode(encode(v)) is no longer v to the type's precision", witnesses=len(ws))


@rule(P, "D6.9", "T-WITNESS", floor=15)
def d6_9(ctx):
    """String, bit-string and PCCC string codecs folded on witness values (sa/miniinterp.py with a witness stream): encode
    gives the bytes an independent reading of the wire format gives, decode of those bytes gives the value back, and a decode
    from a longer stream consumes exactly the encoded bytes."""
    import ast as _ast

    from ..miniinterp import Interp, Stream, _Raise, _Unknown

    dt = ctx.model.module(DT)
    pc = ctx.model.module("pycomm3.cip.pccc")
    bits = lambda n, on: [i in on for i in range(n)]  # noqa: E731
    cases = [
        (dt, "BYTE", "BYTE.encode(v)", bits(8, {0, 2}), b"\x05"), (dt, "BYTE", "BYTE.encode(v)", bits(8, {7}), b"\x80"), (dt, "WORD", "WORD.encode(v)", bits(16, {0, 15}), b"\x01\x80"),
        (dt, "DWORD", "DWORD.encode(v)", bits(32, {1, 31}), b"\x02\x00\x00\x80"), (dt, "LWORD", "LWORD.encode(v)", bits(64, {0, 63}), b"\x01" + bytes(6) + b"\x80"),
        (dt, "STRING", "STRING.encode(v)", "abc", b"\x03\x00abc"), (dt, "STRING", "STRING.encode(v)", "", b"\x00\x00"), (dt, "SHORT_STRING", "SHORT_STRING.encode(v)", "ab", b"\x02ab"),
        (dt, "LOGIX_STRING", "LOGIX_STRING.encode(v)", "a", b"\x01\x00\x00\x00a"), (dt, "STRING2", "STRING2.encode(v)", "ab", b"\x02\x00a\x00b\x00"), (dt, "STRING2", "STRING2.encode(v)", "", b"\x00\x00"),
        (dt, "STRINGN", "STRINGN.encode(v)", "abc", b"\x01\x00\x03\x00abc"), (dt, "STRINGN", "STRINGN.encode(v, 2)", "ab", b"\x02\x00\x02\x00a\x00b\x00"), (dt, "STRINGN", "STRINGN.encode(v)", "", b"\x01\x00\x00\x00"),
        (dt, "STRINGI", "STRINGI.encode((v, STRING, 'eng', 4), ('x', SHORT_STRING, 'fra', 5))", "hello", b"\x02eng\xd0\x04\x00\x05\x00hellofra\xda\x05\x00\x01x"),
        (pc, "PCCC_ASCII", "PCCC_ASCII.encode(v)", "ab", b"ba"), (pc, "PCCC_STRING", "PCCC_STRING.encode(v)", "abcd", b"\x04\x00badc"),
        (pc, "PCCC_STRING", "PCCC_STRING.encode(v)", "ab" * 41, b"\x52\x00" + b"ba" * 41),  # a full element: 2 + 82 bytes, more data may follow
    ]
    # a bit string of any other length than the type's is refused, whatever the bools are (too short, too long with only low bits set,
    # a multiple of 8 that is not the width, empty)
    for cname, n in (("BYTE", 8), ("WORD", 16), ("DWORD", 32), ("LWORD", 64)):
        for label, value in ((f"{n - 8} bools", [True] * (n - 8)), (f"{n + 8} bools, only bit 0 set", [True] + [False] * (n + 7)), (f"{n + 8} bools, all clear", [False] * (n + 8)), (f"{n - 1} bools", [False] * (n - 1)), (f"{n + 1} bools", [False] * (n + 1)), ("no bools", [])):
            key = ckey(f"{dt.name}:{cname}", f"witness:refused:{label}")
            it = Interp(ctx, dt)
            try:
                got = it.ev(_ast.parse(f"{cname}.encode(v)", mode="eval").body, {"v": list(value)})
                ctx.violation(key, ctx.model.cls(f"{dt.name}:{cname}").node, f"{cname}.encode of {label} returns {bytes(got).hex() if isinstance(got, (bytes, bytearray)) else got!r} instead of raising DataError: a value outside the type's domain is encoded silently")
            except _Raise as r:
                ctx.check(r.name == "DataError", key, ctx.model.cls(f"{dt.name}:{cname}").node, f"{cname}.encode of {label} is refused with DataError", f"{cname}.encode of {label} raises {r.name} instead of DataError")
            except _Unknown as u:
                ctx.undecided(key, dt.tree, f"{cname}.encode not foldable on {label}: {u.why}")
            except (ArithmeticError, TypeError, ValueError, KeyError, IndexError, AttributeError) as err:
                ctx.violation(key, ctx.model.cls(f"{dt.name}:{cname}").node, f"{cname}.encode of {label} raises {type(err).__name__} instead of DataError")
    for mod, cname, expr, value, wire in cases:
        key = ckey(f"{mod.name}:{cname}", f"witness:{expr}:{value if not isinstance(value, list) else ''.join('1' if b else '0' for b in value)}")
        it = Interp(ctx, mod)
        try:
            got = it.ev(_ast.parse(expr, mode="eval").body, {"v": value})
            enc_ok, enc_note = (bytes(got) == wire if isinstance(got, (bytes, bytearray)) else False), (got.hex() if isinstance(got, (bytes, bytearray)) else repr(got))
        except _Raise as r:
            enc_ok, enc_note = False, f"raises {r.name}"
        except _Unknown as u:
            ctx.undecided(key, mod.tree, f"{expr} not foldable: {u.why}")
            continue
        except (ArithmeticError, TypeError, ValueError, KeyError, IndexError, AttributeError) as err:
            enc_ok, enc_note = False, f"raises {type(err).__name__}"
        # decode back (STRINGI returns three lists, STRINGN needs the stream form; both through T.decode)
        it = Interp(ctx, mod)
        stream = Stream(wire + (b"" if cname == "PCCC_STRING" and len(wire) < 84 else b"\xaa\xbb"))  # the PCCC string element is a fixed 84-byte field: decoded from the exact element
        try:
            back = it.ev(_ast.parse(f"{cname}.decode(s)", mode="eval").body, {"s": stream})
            if cname == "STRINGI":
                dec_ok = [list(x) for x in back] == [["hello", "x"], ["eng", "fra"], [4, 5]]
            else:
                dec_ok = back == value and type(back) is type(value)
            dec_note = repr(back)[:80]
            pos_ok = stream.pos == len(wire) or (cname == "PCCC_STRING" and len(wire) < 84)  # the PCCC string element is a fixed 84-byte field
        except _Raise as r:
            dec_ok, dec_note, pos_ok = False, f"raises {r.name}", True
        except _Unknown as u:
            ctx.undecided(key, mod.tree, f"{cname}.decode not foldable: {u.why}")
            continue
        except (ArithmeticError, TypeError, ValueError, KeyError, IndexError, AttributeError) as err:
            dec_ok, dec_note, pos_ok = False, f"raises {type(err).__name__}", True
        ci = ctx.model.cls(f"{mod.name}:{cname}")
        ctx.check(enc_ok and dec_ok and pos_ok, key, ci.node, f"{expr} <-> {wire.hex()}",
                  f"{expr} with v={value!r}: encode -> {enc_note} (wire format {wire.hex()}); decode({wire.hex()}) -> {dec_note}" + ("" if pos_ok else f"; decode consumed {stream.pos} of {len(wire)} bytes"), witness=expr)


# "outside the domain -> DataError, never silent": the refusals among the string / bit-string witnesses (a bit string of another length
# than the type's) are obligations of C08 too
rule("C08", "D8.12", "T-WITNESS", floor=15)(d6_9)
