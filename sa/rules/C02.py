"""C02 -- Tag writes change exactly the addressed data, exactly once."""
from __future__ import annotations

import ast

from ..astutil import attr_path, call_name, walk, src, enclosing_func
from ..bytelayout import Layouter, ListVal, flatten, show
from ..consteval import UNKNOWN, ClassRef
from ..astutil import clone as _clone
from ..framework import rule
from ..guards import branch_outcome
from ..linexpr import Lin, atom_name, cmp_norm, lin
from .common import CT, DT, LX, PB, PL, ckey

P = "C02"
EXPLANATION = (
    "Static rules D2.1-D2.10 (DESIGN.md section 5, C02): the request message is assembled once (build_message extends the message "
    "list only under the _msg_setup guard; who-may-write the guard flag over the whole package, with a positive control); "
    "read-modify-write size/OR/AND fields cut to one width, initial masks, set_bit operators and field order; write-tag and "
    "fragmented write-tag message layouts against the Logix data-access specification; fragment emission as an exact tiling "
    "with a contiguous running offset and a fresh packet per fragment; fixed-capacity string encoders bound their payload to the "
    "capacity; BOOL-array alignment and value-count guards dominate the encoding; one read-modify-write packet per tag with the "
    "results fanned out to every merged request; structure member/bit addressing agrees between encode and decode; bit numbers of read-modify-write requests are confined to the mask width (finite orderings per mask size). Decides "
    "the structural conditions of 'exactly the addressed bytes, exactly once'; the controller's memory is outside."
)
ASSUMPTIONS = ["packet objects are only manipulated by pycomm3 code (no external writes to _msg_setup)"]


def _flag_writers(tree_nodes):
    out = []
    for n in tree_nodes:
        tgts = []
        if isinstance(n, ast.Assign):
            tgts = n.targets
        elif isinstance(n, (ast.AugAssign, ast.AnnAssign)):
            tgts = [n.target]
        elif isinstance(n, ast.Call) and call_name(n) == "setattr" and len(n.args) >= 2 and isinstance(n.args[1], ast.Constant) and n.args[1].value == "_msg_setup":
            out.append(n)
        for t in tgts:
            for x in ast.walk(t):
                if isinstance(x, ast.Attribute) and x.attr == "_msg_setup" and isinstance(x.ctx, ast.Store):
                    out.append(n)
    return out


@rule(P, "D2.1", "T-WHO", floor=5)
def d2_1(ctx):
    """The message of a request is assembled once: only RequestPacket arms/clears the _msg_setup guard."""
    base = ctx.model.cls(f"{PB}:RequestPacket")
    # assembled once: every request class built twice gives the same frame (sequence, service, path, data and the data attached with
    # add() appear once) - folded on witness packets (D2.11 `build-twice`, D18.14); an earlier form required the assembly to sit under
    # `if not self._msg_setup:` inside build_message and alarmed when it moved into a helper with a guard clause
    from .packets import _emit

    _emit(ctx, {"build-twice", "raw-request"})
    # who may write the flag
    foreign = []
    for fi in ctx.model.all_functions():
        for n in _flag_writers(list(walk(fi.node))):
            if enclosing_func(n) is not fi.node:
                continue
            owner = ctx.model.enclosing_class(fi.node)
            if owner is base and fi.node.name in ("__init__", "_setup_message"):
                continue
            foreign.append((fi, n))
    for fi, n in foreign:
        ctx.violation(ckey(fi, "writes:_msg_setup"), n, f"`{src(n)}` re-arms message assembly outside RequestPacket: the next build_message() appends sequence+service+path+value a second time (the write is applied twice / the frame is malformed)")
    if not foreign:
        ctx.ok(ckey("pycomm3", "writers:_msg_setup"), base.node, "no code outside RequestPacket.__init__/_setup_message writes _msg_setup", functions_scanned=len(ctx.model.functions))
    # positive control: the detector must fire on a synthetic foreign write
    ctl = ast.parse("def f(request):\n    request.build_message()\n    request._msg_setup = False\n")
    ctx.check(len(_flag_writers(list(ast.walk(ctl)))) == 1, "control:_msg_setup-writer", base.node, "positive control: a synthetic foreign write is detected", "positive control failed: the who-may-write detector does not see a foreign write")

@rule(P, "D2.2", "T-WITNESS", floor=5)
def d2_2(ctx):
    """Read-modify-write: the size field, OR mask and AND mask share one width, the tag type's size; untouched bits keep AND = 1 /
    OR = 0; a set bit is OR = 1 / AND = 1, a cleared bit OR = 0 / AND = 0; the last write of a bit wins.  Decided on witness
    packets (bit-write frames of sa/rules/packets.py: six bit sequences over DINT / LINT / DWORD with the frame bytes
    prescribed by the Logix data-access manual) and on the constructor folded per integer type (mask size = type size).  An
    earlier form matched the operator spelling of `set_bit` and the slice expressions of `_setup_message` and alarmed when the
    masks were packed by a helper."""
    from ..miniinterp import fold_object
    from .packets import _emit
    from .packets import _hook as _packet_hook

    _emit(ctx, {"bit-write", "bit-write-refusals"})
    c = ctx.model.cls(f"{PL}:ReadModifyWriteRequestPacket")
    init = c.methods["__init__"]
    sizes = {}
    for tname, want in (("SINT", 1), ("INT", 2), ("DINT", 4), ("LINT", 8), ("DWORD", 4), ("USINT", 1), ("UDINT", 4)):
        k_, o_ = fold_object(ctx, c, [7, "T", {"tag_type": "atomic", "data_type_name": tname, "data_type": tname}, 1, False], {}, _packet_hook)
        sizes[tname] = (k_, o_.__dict__.get("_mask_size") if k_ == "return" else o_, want)
    if any(k_ == "unknown" for k_, _, _ in sizes.values()):
        ctx.undecided(ckey(c.key + ".__init__", "mask-size"), init, f"constructor not foldable: {[v for v in sizes.values() if v[0] == 'unknown'][:1]}")
    else:
        bad = {t: v[1] for t, v in sizes.items() if v[0] != "return" or v[1] != v[2]}
        ctx.check(not bad, ckey(c.key + ".__init__", "mask-size"), init, "mask size = size of the tag's integer type (SINT 1, INT 2, DINT/DWORD 4, LINT 8)", f"mask size deviates from the tag type's size: {bad}")


@rule(P, "D2.3", "T-WITNESS", floor=4)
def d2_3(ctx):
    """Write Tag = service, path, type (A0 02 + UINT structure handle | UINT elementary code), UINT count, data; the fragmented
    service adds the UDINT byte offset before the data; continuation packets carry the given offset and segment for the same
    tag, path and element count.  Decided on witness packets (write-request / fragment-request frames of
    sa/rules/packets.py)."""
    from .packets import _emit

    _emit(ctx, {"write-request", "write-request-refusals", "fragment-request"})


@rule(P, "D2.4", "T-WITNESS", floor=4)
def d2_4(ctx):
    """Write fragments tile the value exactly: contiguous segments from offset 0, each fitting the connection next to the
    request's own overhead, covering the whole value, one packet per segment built from the original request; the write
    succeeds only if every segment did.  Decided by folding `_send_write_fragmented` on witness values and connection sizes
    (D4.10).  An earlier form matched the slicing generator and the `offset += len(segment)` statement and alarmed on a
    `for offset in range(0, len(value), segment_size)` loop, which tiles the same way."""
    from .driver import d4_10

    d4_10(ctx)


@rule(P, "D2.5", "T-WITNESS", floor=1)
def d2_5(ctx):
    """Fixed-capacity strings bound their characters to the capacity: the encoding is always prefix + capacity bytes.  Decided
    by folding the generated class on witnesses (D2.15), including a value longer than the capacity."""
    from .driver import _fixedstring_bounded

    _fixedstring_bounded(ctx)


@rule(P, "D2.6", "T-WITNESS", floor=3)
def d2_6(ctx):
    """encode_value: DWORD writes require a bit index multiple of 32; too few values raise; over-long lists are cut and the count
    handed to the array encoder is in the array's own unit; encoding failures become RequestError.  Decided by folding
    `encode_value` on witness requests with the type's encoder as a marker (D2.10); an earlier form located the `% 32` test, the
    slice and the conditional count expression and alarmed when the count was chosen by a statement."""
    d2_10(ctx)


@rule(P, "D2.7", "T-WITNESS", floor=3)
def d2_7(ctx):
    """Bit writes: one read-modify-write packet per tag, every merged request id recorded, results fanned back out.  Decided by
    folding the write builders on witness requests (several bits of one tag share one packet, which receives exactly each
    request's bit, value and id: D2.12), the packet's bookkeeping on witness bits (D2.11: every id recorded, a refused bit leaves
    the shared packet intact) and `write` on witness results (D2.13: the packet's result is copied to every merged id).  An earlier
    form matched the merge table's membership test and the argument text of `set_bit`."""
    from .driver import d2_12, d3_11
    from .packets import _emit

    d2_12(ctx)
    _emit(ctx, {"bit-write", "bit-write-refusals"})
    d3_11(ctx)


@rule(P, "D2.8", "T-WITNESS", floor=2)
def d2_8(ctx):
    """StructTag: private (host) members are skipped when encoding and filtered when decoding; both sides address each member
    at its offset.  Decided by folding the generated class on a witness layout with a gap, a private host byte and two alias
    bits (D6.10); hidden members at nesting depth are D1.10."""
    from .driver import _structtag_rule

    _structtag_rule(ctx)


@rule(P, "D2.9", "T-WITNESS", floor=2)
def d2_9(ctx):
    """Bit numbers are confined to the width of the mask fields before they are shifted into the masks: for every integer width
    (1, 2, 4, 8 bytes) `set_bit` accepts exactly 0 <= bit < 8 x width - and then the frame carries that one bit in the or-mask
    (set) or cleared in the and-mask (clear) - and refuses every other bit number with RequestError.  (The masks are cut to the
    mask size, so a wider bit would be silently dropped and reported as written; past bit 63 the 64-bit encoder raises while the
    packet is built.)  Decided by folding the packet class on witness types x bit numbers around each border; an earlier form
    evaluated the tests dominating `1 << bit` and alarmed when the range test was bound to a local first."""
    from .packets import _emit

    _emit(ctx, {"bit-range", "bit-write-refusals"})


@rule(P, "D2.10", "T-WITNESS", floor=6)
def d2_10(ctx):
    """BOOL-array writes cover every requested BOOL or are refused: encode_value is folded (sa/miniinterp.py) on parsed
    requests as _parse_tag_request produces them for `flags[start]{count}` with aligned starts; the array encoder is a
    witness that raises when handed fewer BOOLs than 32 x the element count.  Whenever a value comes back, 32 x the element
    count sent covers `count`, the same count is stored in the request and the encoder got exactly that count."""
    from ..miniinterp import Obj, Raise, run_function

    fn = ctx.model.func(f"{LX}:encode_value")
    p = fn.node.args.args[0].arg
    # non-BOOL witnesses: (label, parsed request, expected (values handed to the encoder, count) or "RequestError")
    arr_t, atom_t = Obj(kind="array"), Obj(kind="atomic")
    info = lambda t, name="DINT": {"data_type_name": name, "type_class": t, "data_type": name, "tag_type": "atomic"}  # noqa: E731
    plain = [
        ("arr[3] = 5", {"value": 5, "elements": 1, "bit": None, "bool_elements": None, "tag_info": info(arr_t)}, ([5], 1)),
        ("arr{2} = [1, 2]", {"value": [1, 2], "elements": 2, "bit": None, "bool_elements": None, "tag_info": info(arr_t)}, ([1, 2], 2)),
        ("arr{2} = [1, 2, 3]", {"value": [1, 2, 3], "elements": 2, "bit": None, "bool_elements": None, "tag_info": info(arr_t)}, ([1, 2], 2)),
        ("arr{3} = [1, 2]", {"value": [1, 2], "elements": 3, "bit": None, "bool_elements": None, "tag_info": info(arr_t)}, "RequestError"),
        ("d = 5", {"value": 5, "elements": 1, "bit": None, "bool_elements": None, "tag_info": info(atom_t)}, (5, None)),
        ("s[1] = 'abc'", {"value": "abc", "elements": 1, "bit": None, "bool_elements": None, "tag_info": info(arr_t, "STRING")}, (["abc"], 1)),
        ("raw bytes", {"value": b"\x01\x02", "elements": 1, "bit": None, "bool_elements": None, "tag_info": info(atom_t)}, b"\x01\x02"),
        ("d = <a value the type's encoder refuses>", {"value": "boom", "elements": 1, "bit": None, "bool_elements": None, "tag_info": info(atom_t)}, "RequestError"),
        ("arr{2} = <values the type's encoder refuses>", {"value": ["boom", "boom"], "elements": 2, "bit": None, "bool_elements": None, "tag_info": info(arr_t)}, "RequestError"),
    ]
    for label, parsed, want in plain:
        calls = []

        def hook2(call, env, it, _calls=calls):
            n_ = call_name(call) or ""
            if n_ == "issubclass":
                v_ = it.ev(call.args[0], env)
                return isinstance(v_, Obj) and v_.__dict__.get("kind") == "array" and atom_name(call.args[1]) == "ArrayType"
            if isinstance(call.func, ast.Attribute) and call.func.attr == "encode" and atom_name(call.func.value) == "_type":
                vals = it.ev(call.args[0], env)
                cnt = it.ev(call.args[1], env) if len(call.args) > 1 else None
                _calls.append((vals, cnt))
                if vals == "boom" or vals == ["boom", "boom"]:
                    raise Raise("DataError")
                return b"<encoded>"
            return UNKNOWN

        kind, res = run_function(ctx, fn.module, fn.node, {p: parsed}, call_hook=hook2, deep=False)
        key = ckey(fn, f"value@{label}")
        if kind == "unknown":
            ctx.undecided(key, fn.node, f"encode_value not foldable on {label}: {res}")
            continue
        if want == "RequestError":
            ctx.check(kind == "raise" and res == "RequestError", key, fn.node, f"{label} is refused with RequestError", f"{label}: {kind} {res!r} instead of RequestError")
        elif isinstance(want, bytes):
            ctx.check(kind == "return" and res == want and not calls, key, fn.node, f"{label} passes through", f"{label}: {kind} {res!r}, encoder calls {calls}")
        else:
            ctx.check(kind == "return" and res == b"<encoded>" and calls == [want], key, fn.node, f"{label}: encoder receives {want}", f"{label}: {kind} {res!r}; the type's encoder received {calls} (expected {[want]}): a valid value is refused or the wrong values / count are encoded")
    for start, count, supplied in ((0, 32, 32), (0, 40, 40), (0, 64, 64), (32, 72, 72), (32, 64, 64), (0, 40, 64), (64, 96, 200), (0, 33, 33), (None, 64, 64), (5, 32, 32), (31, 32, 32), (33, 64, 64), (16, 16, 16)):
        if start is None:
            start_bit = None
            total = count
        else:
            start_bit = start
            total = start + count
        elements0 = total // 32 + (1 if total % 32 else 0)
        calls = []
        type_obj = Obj(kind="array")
        parsed = {"value": [True] * supplied, "elements": elements0, "bit": start_bit, "bool_elements": count,
                  "tag_info": {"data_type_name": "DWORD", "type_class": type_obj, "data_type": "DWORD", "tag_type": "atomic"}}

        def hook(call, env, it, _calls=calls):
            n_ = call_name(call) or ""
            if n_ == "issubclass":
                return True
            if isinstance(call.func, ast.Attribute) and call.func.attr == "encode" and atom_name(call.func.value) == "_type":
                vals = it.ev(call.args[0], env)
                cnt = it.ev(call.args[1], env) if len(call.args) > 1 else None
                _calls.append((len(vals), cnt))
                if cnt is not None and len(vals) < 32 * cnt:
                    raise Raise("DataError")
                return bytes(4 * (cnt if cnt is not None else len(vals) // 32))
            return UNKNOWN

        kind, res = run_function(ctx, fn.module, fn.node, {p: parsed}, call_hook=hook, deep=False)
        key = ckey(fn, f"bool-array@[{start}]{{{count}}}/{supplied}")
        if kind == "unknown":
            ctx.undecided(key, fn.node, f"encode_value not foldable on this witness: {res}")
            continue
        whole = count % 32 == 0 and supplied >= count and not (start or 0) % 32
        if kind == "return" and (start or 0) % 32:
            ctx.violation(key, fn.node, f"flags[{start}]{{{count}}}: a BOOL-array write that does not start on a DWORD boundary is encoded instead of refused (the DWORDs written would overwrite the neighbouring BOOLs)")
            continue
        if kind == "raise":
            ctx.check(res == "RequestError" and not whole, key, fn.node, f"flags[{start}]{{{count}}} with {supplied} values is refused with RequestError",
                      f"flags[{start}]{{{count}}} with {supplied} values: {res}" + (" - a write of whole, aligned DWORDs is refused" if whole else " escapes encode_value instead of RequestError"), outcome=res)
            continue
        sent = calls[-1][1] if calls else None
        ok = bool(calls) and isinstance(sent, int) and 32 * sent >= count and parsed.get("elements") == sent and isinstance(res, (bytes, bytearray)) and len(res) == 4 * sent
        ctx.check(ok, key, fn.node, f"flags[{start}]{{{count}}}: {sent} DWORD(s) encoded and announced",
                  f"flags[{start}]{{{count}}} with {supplied} values: {sent} DWORD(s) are encoded ({len(res) if isinstance(res, (bytes, bytearray)) else res} bytes, request element count {parsed.get('elements')}) - "
                  f"{count - 32 * sent if isinstance(sent, int) else '?'} requested BOOL(s) are never written although the write is reported as successful", sent=sent, elements=parsed.get("elements"))
