"""Sensitivity sweep of the checker itself.

Mutants are small property-breaking edits of the *current* /repo source, applied in
memory through the model's overlay (nothing is written under /repo or /verif); the
named rule must report each one.  Twins are behaviour-preserving rewrites on which
every rule of the property must stay silent.  Seeded changes collected from
independent sub-agents (/verif/seeded/<id>/patch.diff) are replayed the same way.

The sweep tests the *checker*; it never changes the verdict about /repo.  A variant
whose anchor text is no longer present (because /repo was edited) is counted as
skipped.

  python -m sa.selftest            all properties, prints the kill matrix
  python -m sa.selftest C13        one property
"""
from __future__ import annotations

import json
import os
import subprocess
import sys
import tempfile
from concurrent.futures import ProcessPoolExecutor
from typing import Dict, List, Optional, Tuple

from .framework import OK, UNDECIDED, VERIF, VIOLATION, load_known_findings, run_property


def _read(repo, rel):
    with open(os.path.join(repo, rel), "rb") as fh:
        return fh.read().decode("utf-8", "surrogateescape").replace("\r\n", "\n")


def _variants():
    from .selftest_data import MUTANTS, TWINS

    return MUTANTS, TWINS


def _baseline_keys(prop, repo):
    _, results, _ = run_property(prop, repo, "quick")
    return {(r.rule, r.construct) for r in results if r.verdict == VIOLATION}


def run_variant(args):
    prop, repo, vid, edits, base = args
    overlay = {}
    for rel, old, new in edits:
        src = overlay.get(rel) or _read(repo, rel)
        if src.count(old) < 1:
            return vid, "skipped", []
        overlay[rel] = src.replace(old, new, 1)
    try:
        _, results, _ = run_property(prop, repo, "quick", overlay=overlay)
    except Exception as err:  # noqa
        return vid, "error", [repr(err)]
    new_v = [(r.rule, r.construct, r.what[:140]) for r in results if r.verdict == VIOLATION and (r.rule, r.construct) not in base]
    und = [(r.rule, r.construct, r.what[:140]) for r in results if r.verdict == UNDECIDED]
    if new_v:
        return vid, "violation", new_v
    if und:
        return vid, "undecided", und
    return vid, "silent", []


def seeded_variants(prop, repo) -> List[Tuple[str, list]]:
    """Seeded patches for this property turned into overlay edits by applying the patch to a scratch copy."""
    out = []
    sdir = os.path.join(VERIF, "seeded")
    if not os.path.isdir(sdir):
        return out
    for name in sorted(os.listdir(sdir)):
        meta_p = os.path.join(sdir, name, "meta.json")
        patch_p = os.path.join(sdir, name, "patch.diff")
        if not (os.path.exists(meta_p) and os.path.exists(patch_p)):
            continue
        with open(meta_p) as fh:
            meta = json.load(fh)
        if meta.get("property") != prop:
            continue
        out.append((name, patch_p, meta))
    return out


def apply_patch_overlay(repo, patch_path) -> Optional[Dict[str, str]]:
    """Apply a unified diff to a scratch copy of the touched files (tempdir, removed) and return {rel: new source}."""
    with open(patch_path) as fh:
        text = fh.read()
    files = []
    for line in text.splitlines():
        if line.startswith("+++ "):
            p = line[4:].split("\t")[0].strip()
            if p.startswith("b/"):
                p = p[2:]
            if p != "/dev/null":
                files.append(p)
    tmp = tempfile.mkdtemp(prefix="sa-seeded-")
    try:
        for rel in files:
            src = os.path.join(repo, rel)
            dst = os.path.join(tmp, rel)
            os.makedirs(os.path.dirname(dst), exist_ok=True)
            if os.path.exists(src):
                with open(src, "rb") as a, open(dst, "wb") as b:
                    b.write(a.read())
        r = subprocess.run(["patch", "-p1", "-s", "--no-backup-if-mismatch", "-i", patch_path], cwd=tmp, capture_output=True, text=True)
        if r.returncode != 0:
            return None
        out = {}
        for rel in files:
            with open(os.path.join(tmp, rel), "rb") as fh:
                out[rel] = fh.read().decode("utf-8", "surrogateescape").replace("\r\n", "\n")
        return out
    finally:
        import shutil

        shutil.rmtree(tmp, ignore_errors=True)


def refactor_variants() -> List[Tuple[str, str]]:
    """Independent behaviour-preserving refactors (/verif/refactors/<id>/patch.diff): every property must stay silent."""
    out = []
    rdir = os.path.join(VERIF, "refactors")
    if os.path.isdir(rdir):
        for name in sorted(os.listdir(rdir)):
            patch_p = os.path.join(rdir, name, "patch.diff")
            if os.path.exists(patch_p):
                out.append((name, patch_p))
    return out


def run_seeded(args):
    prop, repo, name, patch_p, base = args
    ov = apply_patch_overlay(repo, patch_p)
    if ov is None:
        return name, "skipped", []
    _, results, _ = run_property(prop, repo, "quick", overlay=ov)
    new_v = [(r.rule, r.construct, r.what[:140]) for r in results if r.verdict == VIOLATION and (r.rule, r.construct) not in base]
    und = [(r.rule, r.construct, r.what[:140]) for r in results if r.verdict == UNDECIDED]
    return name, ("violation" if new_v else "undecided" if und else "silent"), new_v or und


def sweep(prop: str, repo: str, jobs: int = 16, verbose=False) -> dict:
    MUTANTS, TWINS = _variants()
    base = _baseline_keys(prop, repo)
    muts = MUTANTS.get(prop, [])
    twins = TWINS.get(prop, [])
    tasks = [(prop, repo, m["id"], m["edits"], base) for m in muts] + [(prop, repo, t["id"], t["edits"], base) for t in twins]
    seeded = seeded_variants(prop, repo)
    refactors = refactor_variants()
    res = {}
    if tasks or seeded or refactors:
        with ProcessPoolExecutor(max_workers=jobs) as ex:
            for vid, status, detail in ex.map(run_variant, tasks):
                res[vid] = (status, detail)
            for name, status, detail in ex.map(run_seeded, [(prop, repo, n, p, base) for n, p, _ in seeded]):
                res["seeded:" + name] = (status, detail)
            for name, status, detail in ex.map(run_seeded, [(prop, repo, n, p, base) for n, p in refactors]):
                res["refactor:" + name] = (status, detail)
    killed, missed, wrong_rule, skipped = [], [], [], []
    for m in muts:
        status, detail = res[m["id"]]
        if status == "skipped":
            skipped.append(m["id"])
        elif status == "violation":
            rules = {d[0] for d in detail}
            if not m.get("rules") or rules & set(m["rules"]):
                killed.append(m["id"])
            else:
                wrong_rule.append((m["id"], sorted(rules)))
                killed.append(m["id"])
        else:
            missed.append((m["id"], status))
    twin_silent, twin_alarm = [], []
    for t in twins:
        status, detail = res[t["id"]]
        if status in ("silent",):
            twin_silent.append(t["id"])
        elif status == "skipped":
            skipped.append(t["id"])
        else:
            twin_alarm.append((t["id"], status, detail[:2]))
    for n, _ in refactors:
        status, detail = res["refactor:" + n]
        if status == "silent":
            twin_silent.append("refactor:" + n)
        elif status == "skipped":
            skipped.append("refactor:" + n)
        else:
            twin_alarm.append(("refactor:" + n, status, detail[:2]))
    seeded_caught = [n for n, _, _ in seeded if res.get("seeded:" + n, ("",))[0] == "violation"]
    seeded_missed = [n for n, _, _ in seeded if res.get("seeded:" + n, ("",))[0] not in ("violation", "skipped")]
    out = {
        "selftest": {
            "mutants_generated": len(muts),
            "mutants_killed": len(killed),
            "mutants_missed": missed,
            "mutants_reported_by_other_rule": wrong_rule,
            "twins": len(twins) + len(refactors),
            "independent_refactors": [n for n, _ in refactors],
            "twins_silent": len(twin_silent),
            "twin_alarms": twin_alarm,
            "seeded_changes": [n for n, _, _ in seeded],
            "seeded_caught": seeded_caught,
            "seeded_missed": seeded_missed,
            "skipped": skipped,
            "note": "the sweep exercises the checker on in-memory variants of the current source; it never affects the verdict about /repo",
        }
    }
    if verbose:
        out["detail"] = {k: v for k, v in res.items()}
    return out


def main(argv):
    from . import rules

    repo = "/repo"
    props = [a for a in argv if a.startswith("C")] or sorted(rules.MODULES)
    bad = 0
    for p in props:
        from .framework import load_known_findings
        from .run import _match_known

        _, res0, _ = run_property(p, repo, "quick")
        known = load_known_findings()
        base = sorted((r.rule, r.construct) for r in res0 if (r.verdict == VIOLATION and _match_known(r, known) is None) or r.verdict == "UNDECIDED" or str(r.verdict).upper() == "UNDECIDED")
        if base:
            # twins and mutants are judged against the verdicts on the unchanged tree: say so loudly when those are not clean
            print(f"{p}: BASELINE NOT CLEAN: {len(base)} violation(s) / undecided obligation(s) that are no known findings on the unchanged tree, e.g. {base[:2]}")
            bad += 1
        r = sweep(p, repo, verbose=True)
        s = r["selftest"]
        print(f"{p}: mutants {s['mutants_killed']}/{s['mutants_generated']} killed, twins {s['twins_silent']}/{s['twins']} silent, seeded {len(s['seeded_caught'])}/{len(s['seeded_changes'])}, skipped {len(s['skipped'])}")
        for m in s["mutants_missed"]:
            print("   MISSED", m, r["detail"].get(m[0]))
            bad += 1
        for t in s["twin_alarms"]:
            print("   TWIN-ALARM", t)
            bad += 1
        for m in s["mutants_reported_by_other_rule"]:
            print("   other-rule", m)
        for m in s["seeded_missed"]:
            print("   SEEDED-MISSED", m, r["detail"].get("seeded:" + m))
        for m in s["skipped"]:
            print("   skipped", m)
        if "-v" in argv:
            for k, v in r["detail"].items():
                print("    ", k, v[0], v[1][:1])
    return 1 if bad else 0


if __name__ == "__main__":
    sys.exit(main(sys.argv[1:]))
