#!/usr/bin/env python3
"""Developer helper (not used by any check): generic mutation sweep of /repo to look for blind spots of the rules.

For every generated single-point mutant of pycomm3 (comparison / arithmetic / boolean operator swaps, integer
constants +-1, negated conditions, removed simple statements, slice bounds +-1):
  1. the pinned offline suite is run on a scratch copy under /tmp (mutants the suite notices are of no interest);
  2. the static checks of every property that consults the edited module are run on an in-memory overlay.
Mutants that pass the suite AND leave every check silent are written to the output file for triage: each is either
an equivalent mutant or a property-breaking change no rule sees.

usage: tools_mutation_sweep.py [--jobs 16] [--out /tmp/mutation_survivors.jsonl] [--module pycomm3/x.py] [--limit N]
Scratch copies live under /tmp/mutsweep-* and are removed at the end.
"""
from __future__ import annotations

import ast
import json
import os
import shutil
import subprocess
import sys
import tempfile
from concurrent.futures import ProcessPoolExecutor

sys.path.insert(0, os.path.dirname(os.path.abspath(__file__)))
REPO = "/repo"
PY = "/venv/bin/python"

CMP_SWAP = {ast.Lt: ast.LtE, ast.LtE: ast.Lt, ast.Gt: ast.GtE, ast.GtE: ast.Gt, ast.Eq: ast.NotEq, ast.NotEq: ast.Eq, ast.In: ast.NotIn, ast.NotIn: ast.In, ast.Is: ast.IsNot, ast.IsNot: ast.Is}
BIN_SWAP = {ast.Add: ast.Sub, ast.Sub: ast.Add, ast.Mult: ast.FloorDiv, ast.FloorDiv: ast.Mod, ast.Mod: ast.FloorDiv, ast.LShift: ast.RShift, ast.RShift: ast.LShift, ast.BitAnd: ast.BitOr, ast.BitOr: ast.BitAnd}
SKIP_FUNCS = {"__repr__", "__str__", "__init_subclass__"}


def _is_logging(node):
    if isinstance(node, ast.Expr) and isinstance(node.value, ast.Call):
        return "log" in ast.unparse(node.value.func).lower()
    return False


def mutation_points(tree):
    """[(kind, path to node as list of (field, index), description)] - enumerated deterministically."""
    points = []

    def visit(node, in_func):
        for field, value in ast.iter_fields(node):
            items = value if isinstance(value, list) else [value]
            for idx, child in enumerate(items):
                if not isinstance(child, ast.AST):
                    continue
                f2 = in_func
                if isinstance(child, (ast.FunctionDef, ast.AsyncFunctionDef)):
                    if child.name in SKIP_FUNCS:
                        continue
                    f2 = child.name
                if f2 is not None and not _is_logging(child):
                    consider(child, f2)
                if not _is_logging(child):
                    visit(child, f2)

    def consider(n, fname):
        line = getattr(n, "lineno", 0)
        if isinstance(n, ast.Compare) and len(n.ops) == 1 and type(n.ops[0]) in CMP_SWAP:
            points.append(("cmp", n, fname, line))
        if isinstance(n, ast.BinOp) and type(n.op) in BIN_SWAP and not isinstance(n.left, ast.Constant) or (isinstance(n, ast.BinOp) and type(n.op) in BIN_SWAP and not (isinstance(n.left, ast.Constant) and isinstance(n.left.value, (str, bytes)))):
            if isinstance(n, ast.BinOp) and not any(isinstance(x, ast.Constant) and isinstance(x.value, (str, bytes)) for x in (n.left, n.right)):
                points.append(("bin", n, fname, line))
        if isinstance(n, ast.BoolOp):
            points.append(("bool", n, fname, line))
        if isinstance(n, ast.UnaryOp) and isinstance(n.op, ast.Not):
            points.append(("not", n, fname, line))
        if isinstance(n, ast.Constant) and isinstance(n.value, int) and not isinstance(n.value, bool) and abs(n.value) <= 70000:
            points.append(("int+1", n, fname, line))
            if n.value != 0:
                points.append(("int-1", n, fname, line))
        if isinstance(n, (ast.If, ast.While)) and not (isinstance(n.test, ast.Constant)):
            points.append(("negate", n, fname, line))
        if isinstance(n, (ast.Assign, ast.AugAssign)) or (isinstance(n, ast.Expr) and isinstance(n.value, ast.Call)):
            points.append(("drop", n, fname, line))
        if isinstance(n, ast.IfExp):
            points.append(("ifexp", n, fname, line))

    visit(tree, None)
    return points


def apply_mutation(src, index):
    """Re-parse, find the index-th mutation point, mutate, return (new source, description) or None."""
    tree = ast.parse(src)
    pts = mutation_points(tree)
    if index >= len(pts):
        return None
    kind, n, fname, line = pts[index]
    before = ast.unparse(n)[:90]
    if kind == "cmp":
        n.ops[0] = CMP_SWAP[type(n.ops[0])]()
    elif kind == "bin":
        n.op = BIN_SWAP[type(n.op)]()
    elif kind == "bool":
        n.op = ast.Or() if isinstance(n.op, ast.And) else ast.And()
    elif kind == "not":
        # replace `not x` by `x`: mutate in place by turning the operand into a double negation partner
        n.op = ast.UAdd() if False else n.op
        new = n.operand
        for parent in ast.walk(tree):
            for field, value in ast.iter_fields(parent):
                if value is n:
                    setattr(parent, field, new)
                elif isinstance(value, list):
                    for i, v in enumerate(value):
                        if v is n:
                            value[i] = new
    elif kind == "int+1":
        n.value = n.value + 1
    elif kind == "int-1":
        n.value = n.value - 1
    elif kind == "negate":
        n.test = ast.UnaryOp(op=ast.Not(), operand=n.test)
    elif kind == "drop":
        for parent in ast.walk(tree):
            for field, value in ast.iter_fields(parent):
                if isinstance(value, list):
                    for i, v in enumerate(value):
                        if v is n:
                            value[i] = ast.Pass()
    elif kind == "ifexp":
        n.body, n.orelse = n.orelse, n.body
    ast.fix_missing_locations(tree)
    try:
        out = ast.unparse(tree) + "\n"
        compile(out, "<mutant>", "exec")
    except Exception:  # noqa
        return None
    after = ast.unparse(n)[:90] if kind not in ("drop", "not") else ("<removed>" if kind == "drop" else "<not removed>")
    return out, {"kind": kind, "function": fname, "line": line, "before": before, "after": after}


_SCRATCH = None


def _scratch():
    global _SCRATCH
    if _SCRATCH is None:
        _SCRATCH = tempfile.mkdtemp(prefix="mutsweep-")
        shutil.copytree(os.path.join(REPO, "pycomm3"), os.path.join(_SCRATCH, "pycomm3"))
        shutil.copytree(os.path.join(REPO, "tests"), os.path.join(_SCRATCH, "tests"))
        for f in ("setup.py", "setup.cfg", "pyproject.toml", "pytest.ini", "tox.ini", "README.rst", "README.md"):
            if os.path.exists(os.path.join(REPO, f)):
                shutil.copy(os.path.join(REPO, f), os.path.join(_SCRATCH, f))
    return _SCRATCH


def recheck(task):
    """Only the static checks (the suite verdict is already known): for re-running earlier survivors after rule changes."""
    rel, index, props = task
    from sa.framework import UNDECIDED, VIOLATION, run_property

    with open(os.path.join(REPO, rel), "rb") as fh:
        src = fh.read().decode("utf-8", "surrogateescape").replace("\r\n", "\n")
    m = apply_mutation(src, index)
    if m is None:
        return None
    new_src, desc = m
    desc.update({"file": rel, "index": index, "suite_passes": True})
    reported = []
    for p, base in props:
        try:
            _, results, _ = run_property(p, REPO, "quick", overlay={rel: new_src})
        except Exception as err:  # noqa
            reported.append((p, "error", repr(err)[:80]))
            continue
        nv = [(r.rule, r.construct) for r in results if r.verdict == VIOLATION and (r.rule, r.construct) not in base]
        und = [(r.rule, r.construct) for r in results if r.verdict == UNDECIDED]
        if nv:
            reported.append((p, "violation", nv[0][0]))
        elif und:
            reported.append((p, "undecided", und[0][0]))
    desc["reported"] = reported
    return desc


def work(task):
    rel, index, props = task
    from sa.framework import UNDECIDED, VIOLATION, run_property

    with open(os.path.join(REPO, rel), "rb") as fh:
        src = fh.read().decode("utf-8", "surrogateescape").replace("\r\n", "\n")
    m = apply_mutation(src, index)
    if m is None:
        return None
    new_src, desc = m
    desc.update({"file": rel, "index": index})
    # 1. test-suite on the scratch copy
    sc = _scratch()
    path = os.path.join(sc, rel)
    with open(path, "rb") as fh:
        orig = fh.read()
    try:
        with open(path, "w") as fh:
            fh.write(new_src)
        env = dict(os.environ, PYTHONPATH=sc, PYTHONDONTWRITEBYTECODE="1")
        try:
            r = subprocess.run([PY, "-m", "pytest", "-q", "-x", "-p", "no:cacheprovider", "--timeout=60", "tests/offline"], cwd=sc, env=env, capture_output=True, text=True, timeout=300)
            passed = r.returncode == 0
        except subprocess.TimeoutExpired:
            passed = False
    finally:
        with open(path, "wb") as fh:
            fh.write(orig)
    desc["suite_passes"] = passed
    if not passed:
        return desc
    # 2. static checks
    reported = []
    for p, base in props:
        try:
            _, results, _ = run_property(p, REPO, "quick", overlay={rel: new_src})
        except Exception as err:  # noqa
            reported.append((p, "error", repr(err)[:80]))
            continue
        nv = [(r.rule, r.construct) for r in results if r.verdict == VIOLATION and (r.rule, r.construct) not in base]
        und = [(r.rule, r.construct) for r in results if r.verdict == UNDECIDED]
        if nv:
            reported.append((p, "violation", nv[0][0]))
        elif und:
            reported.append((p, "undecided", und[0][0]))
    desc["reported"] = reported
    return desc


def main(argv):
    from sa import rules
    from sa.framework import VIOLATION, run_property

    jobs = int(argv[argv.index("--jobs") + 1]) if "--jobs" in argv else 16
    out = argv[argv.index("--out") + 1] if "--out" in argv else "/tmp/mutation_survivors.jsonl"
    only = argv[argv.index("--module") + 1] if "--module" in argv else None
    limit = int(argv[argv.index("--limit") + 1]) if "--limit" in argv else None
    # which properties consult which module
    consult = {}
    for p in sorted(rules.MODULES):
        ctx0, res0, _ = run_property(p, REPO, "quick")
        base = frozenset((r.rule, r.construct) for r in res0 if r.verdict == VIOLATION)
        for m in ctx0.model.consulted:
            for rel in (m.replace(".", "/") + ".py", m.replace(".", "/") + "/__init__.py"):
                consult.setdefault(rel, []).append((p, base))
    tasks = []
    for root, _, files in os.walk(os.path.join(REPO, "pycomm3")):
        for f in sorted(files):
            if not f.endswith(".py"):
                continue
            rel = os.path.relpath(os.path.join(root, f), REPO)
            if only and rel != only:
                continue
            if rel not in consult:
                continue
            with open(os.path.join(REPO, rel), "rb") as fh:
                src = fh.read().decode("utf-8", "surrogateescape").replace("\r\n", "\n")
            try:
                n = len(mutation_points(ast.parse(src)))
            except SyntaxError:
                continue
            for i in range(n):
                tasks.append((rel, i, consult[rel]))
    if "--recheck" in argv:
        prev = [json.loads(l) for l in open(argv[argv.index("--recheck") + 1])]
        keep = {(d["file"], d["index"]) for d in prev if d.get("status") == "survivor"}
        tasks = [t for t in tasks if (t[0], t[1]) in keep]
    if limit:
        import random

        random.Random(1).shuffle(tasks)
        tasks = tasks[:limit]
    print(f"{len(tasks)} mutants to try", flush=True)
    stats = {"total": 0, "suite_kills": 0, "checker_reports": 0, "survivors": 0}
    with open(out, "w") as fh, ProcessPoolExecutor(max_workers=jobs) as ex:
        for d in ex.map(recheck if "--recheck" in argv else work, tasks, chunksize=2):
            if d is None:
                continue
            stats["total"] += 1
            if not d["suite_passes"]:
                stats["suite_kills"] += 1
                continue
            if any(r[1] == "violation" for r in d["reported"]):
                stats["checker_reports"] += 1
                d["status"] = "reported"
            elif d["reported"]:
                stats["checker_reports"] += 1
                d["status"] = "undecided"
            else:
                stats["survivors"] += 1
                d["status"] = "survivor"
            fh.write(json.dumps(d) + "\n")
            fh.flush()
    print(json.dumps(stats))
    for d in os.listdir("/tmp"):
        if d.startswith("mutsweep-"):
            shutil.rmtree(os.path.join("/tmp", d), ignore_errors=True)
    return 0


if __name__ == "__main__":
    sys.exit(main(sys.argv[1:]))
