"""Program model of /repo/pycomm3 built from source text only (ast).

Nothing under the repository is imported or executed.  The model resolves
imports (relative, star, __all__), classes (module-level and the classes the
factory functions Struct/Array/StructTag/FixedSizeString/n_bytes define),
bases (including bases that are factory calls), MRO, methods and class
attributes, and indexes every function by a qualified name
``<module>:<qualname>`` (e.g. ``pycomm3.cip_driver:CIPDriver.close``,
``pycomm3.cip.data_types:Array.Array.encode``).
"""
from __future__ import annotations

import ast
import hashlib
import os
from typing import Dict, List, Optional, Tuple


class AnalysisError(Exception):
    """The checker could not analyse an anchored construct (exit code 2)."""


class Sym:
    __slots__ = ("kind", "node", "module", "target", "name", "values")

    def __init__(self, kind, node=None, module=None, target=None, name=None):
        self.kind = kind  # class | func | import | module | assign
        self.node = node
        self.module = module  # defining module name
        self.target = target  # for import: absolute module name
        self.name = name  # for import: original name
        self.values = []  # all assigned value nodes (assign)

    def __repr__(self):
        return f"Sym({self.kind},{self.module},{self.name or getattr(self.node, 'name', None)})"


class Module:
    def __init__(self, name, path, relpath, src):
        self.name = name
        self.path = path
        self.relpath = relpath
        self.src = src
        self.tree = ast.parse(src, filename=path)
        # alpha-normalise renamed locals back to the reference names (sa/localnames.py); positions are untouched
        from .localnames import normalise_tree

        self.renamed_locals = normalise_tree(self.tree, relpath.replace(os.sep, "/"))
        self.digest = "sha256:" + hashlib.sha256(src.encode("utf-8", "surrogateescape")).hexdigest()
        self.is_package = os.path.basename(path) == "__init__.py"
        self.symbols: Dict[str, Sym] = {}
        self.star_imports: List[str] = []
        self.all: Optional[List[str]] = None
        for node in ast.walk(self.tree):
            for child in ast.iter_child_nodes(node):
                child._parent = node  # type: ignore[attr-defined]
        self.tree._parent = None  # type: ignore[attr-defined]

    def package(self):
        return self.name if self.is_package else self.name.rpartition(".")[0]


class ClassInfo:
    def __init__(self, model, module: Module, qualname: str, node: ast.ClassDef, enclosing):
        self.model = model
        self.module = module
        self.qualname = qualname
        self.name = node.name
        self.node = node
        self.enclosing = enclosing  # FunctionDef the class is defined in, or None
        self.methods: Dict[str, ast.FunctionDef] = {}
        self.attrs: Dict[str, ast.expr] = {}
        self.attr_nodes: Dict[str, ast.stmt] = {}
        self.bases: List[Optional["ClassInfo"]] = []
        self.base_exprs: List[ast.expr] = list(node.bases)
        self.factory_call: Optional[ast.Call] = None  # when a base is Struct(...) etc.
        for st in node.body:
            if isinstance(st, (ast.FunctionDef, ast.AsyncFunctionDef)):
                self.methods[st.name] = st
            elif isinstance(st, ast.Assign):
                for t in st.targets:
                    if isinstance(t, ast.Name):
                        self.attrs[t.id] = st.value
                        self.attr_nodes[t.id] = st
            elif isinstance(st, ast.AnnAssign) and isinstance(st.target, ast.Name) and st.value is not None:
                self.attrs[st.target.id] = st.value
                self.attr_nodes[st.target.id] = st

    @property
    def key(self):
        return f"{self.module.name}:{self.qualname}"

    def __repr__(self):
        return f"<class {self.key}>"

    # --- hierarchy
    def mro(self) -> List["ClassInfo"]:
        return self.model.mro(self)

    def lookup(self, attr) -> Tuple[Optional["ClassInfo"], Optional[ast.AST]]:
        for c in self.mro():
            if attr in c.methods:
                return c, c.methods[attr]
            if attr in c.attrs:
                return c, c.attrs[attr]
        return None, None

    def is_subclass_of(self, other: "ClassInfo") -> bool:
        return other in self.mro()

    def has_base_named(self, name: str) -> bool:
        return any(c.name == name for c in self.mro())


class FuncInfo:
    def __init__(self, module: Module, qualname: str, node, cls: Optional[ClassInfo]):
        self.module = module
        self.qualname = qualname
        self.node = node
        self.cls = cls

    @property
    def key(self):
        return f"{self.module.name}:{self.qualname}"

    @property
    def loc(self):
        return f"{self.module.relpath}:{self.node.lineno}"

    def __repr__(self):
        return f"<func {self.key}>"


class Model:
    def __init__(self, repo: str, package: str = "pycomm3", overlay: Optional[Dict[str, str]] = None):
        """overlay: {relative path: source} replaces/adds file contents in memory."""
        self.repo = os.path.abspath(repo)
        self.package = package
        self.modules: Dict[str, Module] = {}
        self.classes: Dict[str, ClassInfo] = {}
        self.class_by_node: Dict[ast.ClassDef, ClassInfo] = {}
        self.functions: Dict[str, FuncInfo] = {}
        self.func_by_node: Dict[ast.AST, FuncInfo] = {}
        self._mro_cache: Dict[ClassInfo, List[ClassInfo]] = {}
        self.consulted = set()
        overlay = overlay or {}
        root = os.path.join(self.repo, package)
        if not os.path.isdir(root):
            raise AnalysisError(f"package directory not found: {root}")
        paths = []
        for dirpath, dirnames, filenames in os.walk(root):
            dirnames[:] = sorted(d for d in dirnames if d != "__pycache__")
            for fn in sorted(filenames):
                if fn.endswith(".py"):
                    paths.append(os.path.join(dirpath, fn))
        seen = set()
        for path in paths:
            rel = os.path.relpath(path, self.repo)
            seen.add(rel)
            if rel in overlay:
                src = overlay[rel]
            else:
                with open(path, "rb") as fh:
                    src = fh.read().decode("utf-8", "surrogateescape")
                src = src.replace("\r\n", "\n")
            self._add_module(rel, path, src)
        for rel, src in overlay.items():
            if rel not in seen and rel.endswith(".py"):
                self._add_module(rel, os.path.join(self.repo, rel), src)
        for m in self.modules.values():
            self._collect_symbols(m)
        for m in self.modules.values():
            self._collect_defs(m)
        for c in list(self.classes.values()):
            self._resolve_bases(c)

    # ------------------------------------------------------------------ build
    def _add_module(self, rel, path, src):
        parts = rel[:-3].split(os.sep)
        if parts[-1] == "__init__":
            parts = parts[:-1]
        name = ".".join(parts)
        try:
            self.modules[name] = Module(name, path, rel, src)
        except SyntaxError as err:
            raise AnalysisError(f"cannot parse {rel}: {err}")

    def _abs_import(self, m: Module, node: ast.ImportFrom) -> str:
        if node.level == 0:
            return node.module or ""
        base = m.package().split(".")
        if node.level > 1:
            base = base[: len(base) - (node.level - 1)]
        if node.module:
            base = base + node.module.split(".")
        return ".".join(base)

    def _collect_symbols(self, m: Module):
        def visit(stmts):
            for st in stmts:
                if isinstance(st, ast.ImportFrom):
                    target = self._abs_import(m, st)
                    for a in st.names:
                        if a.name == "*":
                            m.star_imports.append(target)
                        else:
                            m.symbols[a.asname or a.name] = Sym("import", st, m.name, target, a.name)
                elif isinstance(st, ast.Import):
                    for a in st.names:
                        nm = a.asname or a.name.split(".")[0]
                        m.symbols[nm] = Sym("module", st, m.name, a.name if a.asname else a.name.split(".")[0])
                elif isinstance(st, ast.ClassDef):
                    m.symbols[st.name] = Sym("class", st, m.name)
                elif isinstance(st, (ast.FunctionDef, ast.AsyncFunctionDef)):
                    m.symbols[st.name] = Sym("func", st, m.name)
                elif isinstance(st, ast.Assign):
                    for t in st.targets:
                        if isinstance(t, (ast.Tuple, ast.List)) and all(isinstance(x, ast.Name) for x in t.elts):
                            # `A, B, C = 46, 48, 50` (or `= f()`): every name is bound to its element of the value
                            for i_, x in enumerate(t.elts):
                                if isinstance(st.value, (ast.Tuple, ast.List)) and len(st.value.elts) == len(t.elts) and not any(isinstance(v_, ast.Starred) for v_ in st.value.elts):
                                    node_ = st.value.elts[i_]
                                else:
                                    node_ = ast.copy_location(ast.Subscript(value=st.value, slice=ast.copy_location(ast.Constant(i_), st.value), ctx=ast.Load()), st.value)
                                s = m.symbols.get(x.id)
                                if s is None or s.kind != "assign":
                                    s = Sym("assign", node_, m.name, name=x.id)
                                    m.symbols[x.id] = s
                                s.node = node_
                                s.values.append(node_)
                        if isinstance(t, ast.Name):
                            s = m.symbols.get(t.id)
                            if s is None or s.kind != "assign":
                                s = Sym("assign", st.value, m.name, name=t.id)
                                m.symbols[t.id] = s
                            s.node = st.value
                            s.values.append(st.value)
                            if t.id == "__all__":
                                try:
                                    m.all = [e.value for e in st.value.elts]  # type: ignore
                                except Exception:
                                    m.all = None
                elif isinstance(st, ast.AnnAssign) and isinstance(st.target, ast.Name) and st.value is not None:
                    s = Sym("assign", st.value, m.name, name=st.target.id)
                    s.values.append(st.value)
                    m.symbols[st.target.id] = s
                elif isinstance(st, (ast.If, ast.Try)):
                    for fld in ("body", "orelse", "finalbody"):
                        visit(getattr(st, fld, []) or [])
                    for h in getattr(st, "handlers", []) or []:
                        visit(h.body)

        visit(m.tree.body)

    def _collect_defs(self, m: Module):
        def visit(node, prefix, cls, encl_func):
            for st in ast.iter_child_nodes(node):
                if isinstance(st, ast.ClassDef):
                    qn = f"{prefix}{st.name}"
                    ci = ClassInfo(self, m, qn, st, encl_func)
                    self.classes[ci.key] = ci
                    self.class_by_node[st] = ci
                    visit(st, qn + ".", ci, encl_func)
                elif isinstance(st, (ast.FunctionDef, ast.AsyncFunctionDef)):
                    qn = f"{prefix}{st.name}"
                    fi = FuncInfo(m, qn, st, cls if st in (cls.node.body if cls else []) else None)
                    self.functions[fi.key] = fi
                    self.func_by_node[st] = fi
                    visit(st, qn + ".", None, st)
                elif isinstance(st, (ast.If, ast.Try, ast.For, ast.While, ast.With, ast.ExceptHandler)):
                    visit(st, prefix, cls, encl_func)

        visit(m.tree, "", None, None)

    # ---------------------------------------------------------------- resolve
    def module(self, name) -> Module:
        try:
            m = self.modules[name]
        except KeyError:
            raise AnalysisError(f"module {name} not found in {self.repo}")
        self.consulted.add(name)
        return m

    def public_names(self, m: Module):
        if m.all is not None:
            return set(m.all)
        names = {n for n in m.symbols if not n.startswith("_")}
        for tgt in m.star_imports:
            if tgt in self.modules:
                names |= self.public_names(self.modules[tgt])
        return names

    def resolve(self, modname: str, name: str, _depth=0) -> Optional[Sym]:
        """Follow imports to the defining symbol of `name` as seen in module `modname`."""
        if _depth > 20 or modname not in self.modules:
            return None
        m = self.modules[modname]
        self.consulted.add(modname)
        s = m.symbols.get(name)
        if s is not None:
            if s.kind == "import":
                sub = f"{s.target}.{s.name}"
                if s.target in self.modules:
                    r = self.resolve(s.target, s.name, _depth + 1)
                    if r is not None:
                        return r
                if sub in self.modules:
                    return Sym("module", None, modname, sub)
                return Sym("external", s.node, modname, s.target, s.name)
            if s.kind == "module":
                return s
            return s
        for tgt in m.star_imports:
            if tgt in self.modules:
                tm = self.modules[tgt]
                if name in self.public_names(tm):
                    r = self.resolve(tgt, name, _depth + 1)
                    if r is not None:
                        return r
        return None

    def _factory_inner_class(self, func_node) -> Optional[ClassInfo]:
        """If func returns a class it defines in its body, return that ClassInfo."""
        inner = [st for st in func_node.body if isinstance(st, ast.ClassDef)]
        if not inner:
            return None
        for st in ast.walk(func_node):
            if isinstance(st, ast.Return) and st.value is not None:
                v = st.value
                if isinstance(v, ast.Name):
                    for c in inner:
                        if c.name == v.id:
                            return self.class_by_node.get(c)
                if isinstance(v, ast.Call) and isinstance(v.func, ast.Name):  # n_bytes: return BYTES(name)
                    for c in inner:
                        if c.name == v.func.id:
                            return self.class_by_node.get(c)
        return None

    def class_of_expr(self, module: Module, expr, encl_func=None, encl_cls: Optional[ClassInfo] = None) -> Optional[ClassInfo]:
        """Resolve an expression denoting a class (or an instance-producing factory call) to a ClassInfo."""
        if isinstance(expr, ast.Name):
            if encl_func is not None:
                # a function-local class or a local bound to a factory call
                for st in ast.walk(encl_func):
                    if isinstance(st, ast.ClassDef) and st.name == expr.id and st in self.class_by_node:
                        return self.class_by_node[st]
                for st in ast.walk(encl_func):
                    if isinstance(st, ast.Assign) and len(st.targets) == 1 and isinstance(st.targets[0], ast.Name) and st.targets[0].id == expr.id:
                        return self.class_of_expr(module, st.value, None)
            s = self.resolve(module.name, expr.id)
            if s is None:
                return None
            if s.kind == "class":
                return self.class_by_node.get(s.node)
            if s.kind == "assign":
                return self.class_of_expr(self.modules[s.module], s.node, None)
            if s.kind == "func":
                return None
            return None
        if isinstance(expr, ast.Attribute):
            if isinstance(expr.value, ast.Name):
                s = self.resolve(module.name, expr.value.id)
                if s is not None and s.kind == "module" and s.target in self.modules:
                    return self.class_of_expr(self.modules[s.target], ast.Name(id=expr.attr, ctx=ast.Load()))
            return None
        if isinstance(expr, ast.Call):
            f = expr.func
            if isinstance(f, ast.Name):
                s = self.resolve(module.name, f.id)
                if s is not None and s.kind == "func":
                    return self._factory_inner_class(s.node)
                if s is not None and s.kind == "class":
                    return self.class_by_node.get(s.node)  # instance of class -> class
                if s is not None and s.kind == "assign":
                    return self.class_of_expr(self.modules[s.module], s.node)
            if isinstance(f, ast.Call):  # Struct(...)(name=...)
                return self.class_of_expr(module, f, encl_func)
            if isinstance(f, ast.Subscript):
                return None
            return None
        if isinstance(expr, ast.Subscript):  # T[n] -> Array
            for k, c in self.classes.items():
                if c.qualname == "Array.Array":
                    return c
        return None

    def _resolve_bases(self, c: ClassInfo):
        for b in c.base_exprs:
            ci = self.class_of_expr(c.module, b, c.enclosing)
            c.bases.append(ci)
            if isinstance(b, ast.Call) and ci is not None:
                c.factory_call = b

    def mro(self, c: ClassInfo) -> List[ClassInfo]:
        if c in self._mro_cache:
            return self._mro_cache[c]
        self._mro_cache[c] = [c]  # recursion guard
        seqs = [self.mro(b) for b in c.bases if b is not None] + [[b for b in c.bases if b is not None]]
        res = [c]
        seqs = [list(s) for s in seqs if s]
        while seqs:
            for s in seqs:
                cand = s[0]
                if not any(cand in t[1:] for t in seqs):
                    break
            else:
                cand = seqs[0][0]
            res.append(cand)
            seqs = [[x for x in s if x is not cand] for s in seqs]
            seqs = [s for s in seqs if s]
        self._mro_cache[c] = res
        return res

    def subclasses(self, c: ClassInfo, strict=False) -> List[ClassInfo]:
        out = [k for k in self.classes.values() if c in k.mro() and (k is not c or not strict)]
        return out

    # ----------------------------------------------------------------- lookup
    def cls(self, key: str) -> ClassInfo:
        if key in self.classes:
            self.consulted.add(self.classes[key].module.name)
            return self.classes[key]
        raise AnalysisError(f"anchor class vanished: {key}")

    def find_class(self, name: str) -> ClassInfo:
        """Find a module-level (or factory) class by bare name; unique or error."""
        hits = [c for c in self.classes.values() if c.qualname == name or c.qualname.endswith("." + name) and c.qualname.split(".")[-1] == name and c.qualname.count(".") <= 1]
        exact = [c for c in hits if c.qualname == name]
        if len(exact) == 1:
            self.consulted.add(exact[0].module.name)
            return exact[0]
        if len(hits) == 1:
            self.consulted.add(hits[0].module.name)
            return hits[0]
        raise AnalysisError(f"anchor class {name!r}: {len(hits)} candidates")

    def func(self, key: str) -> FuncInfo:
        if key in self.functions:
            self.consulted.add(self.functions[key].module.name)
            return self.functions[key]
        raise AnalysisError(f"anchor function vanished: {key}")

    def has_func(self, key: str) -> bool:
        return key in self.functions

    def method(self, cls: ClassInfo, name: str) -> Optional[FuncInfo]:
        """Resolve a method through the MRO."""
        for c in cls.mro():
            if name in c.methods:
                self.consulted.add(c.module.name)
                return self.func_by_node[c.methods[name]]
        return None

    def own_method(self, cls: ClassInfo, name: str) -> Optional[FuncInfo]:
        n = cls.methods.get(name)
        return self.func_by_node[n] if n is not None else None

    def enclosing_function(self, node) -> Optional[ast.AST]:
        p = getattr(node, "_parent", None)
        while p is not None and not isinstance(p, (ast.FunctionDef, ast.AsyncFunctionDef, ast.Lambda)):
            p = getattr(p, "_parent", None)
        return p

    def enclosing_class(self, node) -> Optional[ClassInfo]:
        p = getattr(node, "_parent", None)
        while p is not None:
            if isinstance(p, ast.ClassDef):
                return self.class_by_node.get(p)
            p = getattr(p, "_parent", None)
        return None

    def module_of_node(self, node) -> Module:
        p = node
        while getattr(p, "_parent", None) is not None:
            p = p._parent
        for m in self.modules.values():
            if m.tree is p:
                return m
        raise AnalysisError("node outside the model")

    def digests(self) -> Dict[str, str]:
        return {self.modules[n].relpath: self.modules[n].digest for n in sorted(self.consulted) if n in self.modules}

    def all_functions(self):
        return list(self.functions.values())
