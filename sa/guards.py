"""Guard analyses on the CFG: value-is-tested-before-use, raising branches, emptiness guards."""
from __future__ import annotations

import ast
from typing import List, Optional, Set, Tuple

from .astutil import walk
from .cfg import CFG, Node, exc_name
from .linexpr import atom_name, emptiness


def branch_outcome(g: CFG, test: Node, branch) -> Tuple[Set[str], bool]:
    """Follow the `branch` side of `test` along non-exceptional edges:
    returns (names of exceptions raised by raise statements met first, whether a non-raise continuation exists)."""
    raised: Set[str] = set()
    continues = False
    stack = [s for s, lab in test.succ if lab == branch]
    seen = set(stack)
    while stack:
        n = stack.pop()
        if n.kind == "stmt" and isinstance(n.ast, ast.Raise):
            raised.add(exc_name(n.ast.exc) or "?")
            continue
        if n.kind in ("exit",) or (n.kind == "stmt" and isinstance(n.ast, ast.Return)):
            continues = True
            continue
        if n.kind == "stmt" and not _pure_logging(n.ast):
            continues = True
            continue
        if n.kind == "test":
            continues = True
            continue
        for s, lab in n.succ:
            if lab != "exc" and s not in seen:
                seen.add(s)
                stack.append(s)
    return raised, continues


def _pure_logging(st) -> bool:
    if isinstance(st, ast.Expr) and isinstance(st.value, ast.Call):
        f = st.value.func
        if isinstance(f, ast.Attribute):
            v = f.value
            if isinstance(v, ast.Attribute) and v.attr.endswith("__log"):
                return True
            if isinstance(v, ast.Name) and v.id in ("logger", "log"):
                return True
    return False


def next_emptiness_guard(g: CFG, start: Node, var: str):
    """From `start` (a node binding `var`), follow non-exceptional edges through pure logging only.
    Returns (test node, empty_branch) if the first thing every path meets is an emptiness test of var; else None."""
    found = None
    stack = [s for s, lab in start.succ if lab != "exc"]
    seen = set(stack)
    while stack:
        n = stack.pop()
        if n.kind == "test":
            e = emptiness(n.ast, var)
            if e is None:
                return None
            cand = (n, True if e else False)
            if found is not None and found != cand:
                return None
            found = cand
            continue
        if n.kind == "stmt" and _pure_logging(n.ast):
            for s, lab in n.succ:
                if lab != "exc" and s not in seen:
                    seen.add(s)
                    stack.append(s)
            continue
        return None
    return found


def guarded_nonempty(g: CFG, bind_node: Node, var: str, want_exc: Set[str]) -> Tuple[bool, str]:
    """The value bound to `var` at bind_node is tested for emptiness before any use and the empty side raises only `want_exc`."""
    t = next_emptiness_guard(g, bind_node, var)
    if t is None:
        return False, f"`{var}` is used without first testing that it is non-empty"
    test, empty_branch = t
    raised, cont = branch_outcome(g, test, empty_branch)
    if cont or not raised:
        return False, f"an empty `{var}` does not raise (the empty branch continues)"
    if not raised <= want_exc:
        return False, f"an empty `{var}` raises {sorted(raised)}, expected {sorted(want_exc)}"
    return True, f"empty `{var}` raises {sorted(raised)}"


def in_try_with_handler(node, func, names: Set[str]) -> Optional[ast.ExceptHandler]:
    """Innermost handler (by listed exception names, or catch-all) of a try whose *body* contains node."""
    from .cfg import handler_names

    child, p = node, getattr(node, "_parent", None)
    while p is not None and p is not func:
        if isinstance(p, ast.Try) and any(child is st for st in p.body):
            for h in p.handlers:
                hn = set(handler_names(h))
                if hn & names or hn & {"Exception", "BaseException"}:
                    return h
        child, p = p, getattr(p, "_parent", None)
    return None


def handler_raises(h: ast.ExceptHandler) -> List[Optional[str]]:
    """Exception names raised at the end of every path of the handler body ([] if some path does not raise)."""
    out: List[Optional[str]] = []

    def block(stmts) -> bool:
        for st in stmts:
            if isinstance(st, ast.Raise):
                out.append(exc_name(st.exc) if st.exc is not None else "<reraise>")
                return True
            if isinstance(st, ast.If):
                a = block(st.body)
                b = block(st.orelse) if st.orelse else False
                if a and b:
                    return True
            if isinstance(st, ast.Return):
                return False
        return False

    return out if block(h.body) else []


def accepted_values(ctx, g: CFG, module, var: str, use: Node, extra_points=()):
    """Which integer values of `var` can reach `use`?  Every dominating test that touches `var` only through comparisons
    with constants is piecewise constant between those constants, so evaluating the conjunction of the dominating
    branch conditions at each constant and its neighbours decides it for all integers (finite set of orderings).
    Returns (sorted sample points, accepted sample points, tests used)."""
    from .consteval import UNKNOWN

    conds = []
    for t in g.nodes:
        if t.kind != "test" or t.ast is None:
            continue
        names = {n.id for n in walk(t.ast) if isinstance(n, ast.Name)}
        if var not in names or any(isinstance(x, (ast.Call, ast.Subscript, ast.Attribute)) and not _const_like(ctx, x, module) for x in walk(t.ast)):
            continue
        for br in (True, False):
            if g.branch_dominates(t, br, use):
                conds.append((t, br))
    consts = set(extra_points)
    for t, _ in conds:
        for x in walk(t.ast):
            v = ctx.folder.eval(x, module) if isinstance(x, (ast.Constant, ast.Attribute, ast.Name)) and not (isinstance(x, ast.Name) and x.id == var) else None
            if isinstance(v, int) and not isinstance(v, bool):
                consts.add(v)
    points = sorted({c + d for c in consts | {0} for d in (-1, 0, 1)})
    accepted = []
    for v in points:
        ok = True
        for t, br in conds:
            r = ctx.folder.eval(t.ast, module, env={var: v})
            if r is UNKNOWN:
                ok = None
                break
            if bool(r) != br:
                ok = False
                break
        if ok:
            accepted.append(v)
        if ok is None:
            return points, None, conds
    return points, accepted, conds


def _const_like(ctx, x, module):
    from .consteval import UNKNOWN

    v = ctx.folder.eval(x, module)
    return v is not UNKNOWN
