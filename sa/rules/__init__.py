"""One module per property; importing this package registers every rule."""
import importlib

MODULES = {}
for _i in range(1, 20):
    _name = f"C{_i:02d}"
    try:
        MODULES[_name] = importlib.import_module(f"{__name__}.{_name}")
    except ModuleNotFoundError as _err:
        if _err.name != f"{__name__}.{_name}":
            raise

from . import generic  # noqa: E402,F401  (rules registered for every property)
from . import packets  # noqa: E402,F401  (packet-frame witnesses shared by several properties)
from . import driver  # noqa: E402,F401  (driver orchestration witnesses)
