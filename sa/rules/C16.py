"""C16 -- Device identities decode faithfully."""
from __future__ import annotations

import ast

from ..astutil import attr_path, call_name, walk, src, dump
from ..consteval import UNKNOWN, ClassRef, Instance
from ..framework import rule
from ..linexpr import atom_name
from .common import CD, CT, LX, PE, ckey

P = "C16"
EXPLANATION = (
    "Static rules D16.1-D16.5 (DESIGN.md section 5, C16): the member (name, type, width) sequences of ModuleIdentityObject, "
    "ListIdentityObject and Revision obtained by evaluating their Struct(...) type expressions are compared with the Identity "
    "object / ListIdentity item layouts of spec/identity.json; both decoders post-process vendor, product type and serial "
    "identically ('UNKNOWN' default, 8 hex digits) and the encoder inverts each; the ListIdentity payload offset; vendor and "
    "product-type tables are bidirectional without key collisions (ids are ints, names are strings); list_identity / "
    "get_module_info / get_plc_info plumbing. Decides layout and mapping for every identity; the field values themselves are "
    "run-time data."
)
ASSUMPTIONS = ["spec/identity.json transcribes CIP Vol.1 5-2 and Vol.2 2-4.2 correctly"]


def _member_desc(ctx, e, module):
    """(name, type name, width) of one Struct member expression."""
    if isinstance(e, ast.Name):
        v = ctx.folder.eval(e, module)
        if isinstance(v, ClassRef):
            return (None, v.ci.name, _width(ctx, v.ci))
        return (None, e.id, None)
    if isinstance(e, ast.Call):
        f = e.func
        name = ctx.folder.eval(e.args[-1], module) if e.args else None
        for k in e.keywords:
            if k.arg == "name":
                name = ctx.folder.eval(k.value, module)
        if isinstance(f, ast.Name) and f.id == "n_bytes":
            cnt = ctx.folder.eval(e.args[0], module)
            name = ctx.folder.eval(e.args[1], module) if len(e.args) > 1 else None
            return (name, "bytes", cnt if isinstance(cnt, int) else None)
        v = ctx.folder.eval(f, module) if isinstance(f, ast.Name) else UNKNOWN
        if isinstance(v, ClassRef):
            if v.ci.factory_call is not None or any(b is not None and b.qualname == "Struct.Struct" for b in v.ci.bases):
                sub = struct_members(ctx, v.ci)
                w = sum(x[2] for x in sub) if sub and all(isinstance(x[2], int) for x in sub) else None
                return (name if isinstance(name, str) else None, [list(x) for x in sub], w)
            return (name if isinstance(name, str) else None, v.ci.name, _width(ctx, v.ci))
    return (None, src(e), None)


def _width(ctx, ci):
    if ci.name == "IPAddress":
        return 4
    if ci.has_base_named("StringDataType"):
        return None
    s = ctx.folder.class_attr(ci, "size")
    return s if isinstance(s, int) and s > 0 else None


def struct_members(ctx, ci):
    """Members of a class deriving from Struct(...) (factory call in its bases)."""
    call = ci.factory_call
    if call is None:
        for b in ci.bases:
            if b is not None and b.factory_call is not None:
                call = b.factory_call
    if call is None:
        return None
    args = []
    for a in call.args:
        if isinstance(a, ast.Starred) and isinstance(a.value, ast.Name):
            # `*_MEMBERS`: a module-level tuple / list display assigned once stands for its elements
            sym = ctx.model.resolve(ci.module.name, a.value.id)
            if sym is not None and sym.kind == "assign" and len(sym.values) == 1 and isinstance(sym.values[0], (ast.Tuple, ast.List)):
                args.extend(sym.values[0].elts)
                continue
        args.append(a)
    return [_member_desc(ctx, a, ci.module) for a in args]


def _norm(members):
    out = []
    for name, typ, w in members:
        if isinstance(typ, list):
            out.append([name, [[a, b, c] for a, b, c in typ], w])
        else:
            t = {"IPAddress": "IPv4"}.get(typ, typ)
            out.append([name, t, w])
    return out


@rule(P, "D16.1", "T-SPEC", floor=3)
def d16_1(ctx):
    """Identity structure layouts equal the Identity object / ListIdentity item of the specification."""
    sp = ctx.spec("identity")
    want_id = [[n, t if not isinstance(t, list) else [[a, b, c] for a, b, c in t], w] for n, t, w in sp["identity_object"]]
    mio = ctx.model.cls(f"{CT}:ModuleIdentityObject")
    got = _norm(struct_members(ctx, mio) or [])
    ctx.check(got == want_id, ckey(mio.key, "layout"), mio.node, "vendor, product_type, product_code UINT; revision USINT+USINT; status 2 bytes; serial UDINT; product_name SHORT_STRING",
              f"ModuleIdentityObject members {got} differ from the Identity object {want_id}", got=got)
    from .driver import _ipaddress_rule

    _ipaddress_rule(ctx)  # the socket address field: 4 packed bytes <-> dotted quad, folded on witness addresses (D16.11)
    rev = ctx.model.cls(f"{CT}:Revision")
    gr = _norm(struct_members(ctx, rev) or [])
    ctx.check(gr == [["major", "USINT", 1], ["minor", "USINT", 1]], ckey(rev.key, "layout"), rev.node, "major USINT, minor USINT", f"Revision members {gr}", got=gr)
    lio = ctx.model.cls(f"{CT}:ListIdentityObject")
    want = []
    for row in sp["list_identity_item"]:
        if row == "identity_object":
            want += want_id
        else:
            want.append([row[0], row[1], row[2]])
    got = _norm(struct_members(ctx, lio) or [])
    ctx.check(got == want, ckey(lio.key, "layout"), lio.node, "item type/len, protocol version, sockaddr (2+2+4+8), identity, state",
              f"ListIdentityObject members {got} differ from the ListIdentity item {want}", got=got)


def _post(ctx, fn, module):
    """{field: (kind, detail)} of the post-processing assignments `values[k] = ...`."""
    out = {}
    for n in walk(fn):
        if isinstance(n, ast.Assign) and isinstance(n.targets[0], ast.Subscript) and atom_name(n.targets[0].value) == "values" and isinstance(n.targets[0].slice, ast.Constant):
            k = n.targets[0].slice.value
            v = n.value
            if isinstance(v, ast.Call) and isinstance(v.func, ast.Attribute) and v.func.attr == "get" and len(v.args) == 2:
                out[k] = ("get", atom_name(v.func.value), src(v.args[0]).replace('"', "'"), ctx.folder.eval(v.args[1], module))
            elif isinstance(v, ast.Subscript):
                out[k] = ("index", atom_name(v.value), src(v.slice).replace('"', "'"))
            elif isinstance(v, ast.JoinedStr):
                spec_txt = None
                for fv in v.values:
                    if isinstance(fv, ast.FormattedValue) and fv.format_spec is not None:
                        spec_txt = "".join(x.value for x in fv.format_spec.values if isinstance(x, ast.Constant))
                        inner = src(fv.value).replace('"', "'")
                out[k] = ("format", spec_txt, inner if spec_txt else None)
            else:
                out[k] = ("other", src(v))
    return out


@rule(P, "D16.2", "T-SIB", floor=3)
def d16_2(ctx):
    """Both decoders map vendor / product type with 'UNKNOWN' default and format the serial as 8 hex digits; encode inverts."""
    sp = ctx.spec("identity")
    mio = ctx.model.cls(f"{CT}:ModuleIdentityObject")
    lio = ctx.model.cls(f"{CT}:ListIdentityObject")
    # witness evaluation of the post-processing (sa/miniinterp.py): the Struct decode is replaced by a dict holding one id per
    # table row (every product type id incl. 0, a spread of vendor ids, an id outside each table) and serial numbers with
    # leading zeros; the decoder's own statements - through helper functions if it has any - are folded on each witness.
    from ..miniinterp import run_function

    tables = {"product_type": ctx.folder.module_value("pycomm3.cip.status_info", "PRODUCT_TYPES"), "vendor": ctx.folder.module_value("pycomm3.cip.status_info", "VENDORS")}
    for c in (mio, lio):
        fn = c.methods.get("_decode")
        key = ckey(c.key + "._decode", "post")
        if fn is None or not all(isinstance(t, dict) for t in tables.values()):
            ctx.undecided(key, fn or c.node, "decoder or id tables not found")
            continue
        fields = []
        for b_ in c.node.bases:
            if isinstance(b_, ast.Call):
                for a_ in b_.args:
                    if isinstance(a_, ast.Call) and a_.args and isinstance(a_.args[0], ast.Constant):
                        fields.append(a_.args[0].value)
        base_w = {f: 1 for f in fields}
        samples = []
        for fld, tbl in tables.items():
            ids = sorted(k for k in tbl if isinstance(k, int))
            pick = ids if len(ids) <= 80 else sorted(set(ids[:20] + ids[-5:] + ids[:: max(1, len(ids) // 40)]))
            unknown = next(x for x in range(0, 70000) if x not in tbl)
            for i in pick + [unknown]:
                w = dict(base_w, vendor=1, product_type=12, serial=0x1A2B)
                w[fld] = i
                samples.append((fld, i, w))
        for sn in (0, 0x1234, 0xFFFFFFFF):
            samples.append(("serial", sn, dict(base_w, vendor=1, product_type=12, serial=sn)))

        def hook(call, env, it, _w=None):
            f_ = call.func
            if isinstance(f_, ast.Attribute) and f_.attr == "_decode" and isinstance(f_.value, ast.Call) and call_name(f_.value) == "super":
                import copy as _c

                return _c.deepcopy(hook.witness)
            return UNKNOWN

        bad, undecided = [], None
        for fld, i, w in samples:
            hook.witness = w
            kind, res = run_function(ctx, c.module, fn, {"cls": None, "stream": None}, call_hook=hook)
            if kind == "unknown":
                undecided = res
                break
            want_v = {"product_type": tables["product_type"].get(w["product_type"], sp["unknown_text"]), "vendor": tables["vendor"].get(w["vendor"], sp["unknown_text"]), "serial": f"{w['serial']:08x}"}
            if kind != "return" or not isinstance(res, dict) or any(res.get(k) != v for k, v in want_v.items()):
                got_v = {k: res.get(k) for k in want_v} if isinstance(res, dict) else (kind, res)
                bad.append(f"{fld} id {i}: {got_v} (expected {want_v})")
        if undecided is not None:
            ctx.undecided(key, fn, f"post-processing not foldable: {undecided}")
            continue
        ctx.check(not bad, key, fn, f"vendor / product type ids become their table names ('{sp['unknown_text']}' outside the tables), serial as 8 hex digits - on {len(samples)} witnesses",
                  f"{c.name}._decode post-processing deviates on {len(bad)} of {len(samples)} witnesses, e.g. {bad[:2]}", witnesses=len(samples))
    # the fields come from the structure decoder on the same stream, and encode inverts decode on a copy of its argument: decided by
    # folding both identity classes end to end on witness identities (D16.10) - an earlier form looked for the `super()._decode(stream)`
    # call and compared the source text of the assignments in `_encode`
    from .driver import _identity_rule

    _identity_rule(ctx)


@rule(P, "D16.3", "T-SPEC", floor=1)
def d16_3(ctx):
    """ListIdentity reply: the identity item starts at offset 26 and is decoded with ListIdentityObject."""
    sp = ctx.spec("encap")["list_identity"]
    c = ctx.model.cls(f"{PE}:ListIdentityResponsePacket")
    fn = c.methods["_parse_reply"]
    lo = None
    dec = False
    for n in walk(fn):
        if isinstance(n, ast.Assign) and attr_path(n.targets[0]) == "self.data" and isinstance(n.value, ast.Subscript) and attr_path(n.value.value) == "self.raw" and isinstance(n.value.slice, ast.Slice):
            lo = ctx.folder.eval(n.value.slice.lower, c.module)
            hi = n.value.slice.upper
        if isinstance(n, ast.Assign) and attr_path(n.targets[0]) == "self.identity" and isinstance(n.value, ast.Call) and attr_path(n.value.func) == "ListIdentityObject.decode" and attr_path(n.value.args[0]) == "self.data":
            dec = True
    # upper bound: open, or item start + 4 (type id, length) + the item's 16-bit length field read from item start + 2
    hi_ok, hi_why = hi is None, "open upper bound"
    if hi is not None and lo is not None:
        from .C18 import _inline_locals
        from ..linexpr import lin as _lin

        e = _inline_locals(fn, hi)
        L = _lin(e, const_of=lambda x: ctx.folder.eval(x, c.module))
        decs = [x for x in walk(e) if isinstance(x, ast.Call) and isinstance(x.func, ast.Attribute) and x.func.attr == "decode" and len(x.args) == 1]
        hi_why = f"upper bound `{src(e)}`"
        if L is not None and len(decs) == 1 and L.const == lo + 4 and len(L.terms) == 1 and list(L.terms.values()) == [1]:
            t = ctx.folder.eval(decs[0].func.value, c.module)
            arg = decs[0].args[0]
            width_ok = isinstance(t, ClassRef) and ctx.folder.class_attr(t.ci, "size") == 2 and (ctx.folder.elementary_format(t.ci) or "").endswith("H")
            sl_ok = isinstance(arg, ast.Subscript) and attr_path(arg.value) == "self.raw" and isinstance(arg.slice, ast.Slice) and ctx.folder.eval(arg.slice.lower, c.module) == lo + 2 and ctx.folder.eval(arg.slice.upper, c.module) == lo + 4
            hi_ok = width_ok and sl_ok
            hi_why += " = item start + 4 + UINT length field at item start + 2" if hi_ok else " does not read the item's 16-bit length field (2 bytes at item start + 2, unsigned)"
        else:
            hi_why += " is not item start + 4 + <item length>"
    ctx.check(lo == sp["reply_item_offset"] and hi_ok and dec, ckey(c.key + "._parse_reply", "offset"), fn, f"identity item decoded from raw[26:] ({hi_why})", f"ListIdentity payload taken from raw[{lo}:...]; the item starts at {sp['reply_item_offset']} (24-byte header + item count) and runs to the end of the item: {hi_why}", lower=lo)


@rule(P, "D16.4", "T-SPEC", floor=2)
def d16_4(ctx):
    """VENDORS / PRODUCT_TYPES are ids->names plus names->ids without collisions."""
    for name, raw in (("VENDORS", "_VENDORS"), ("PRODUCT_TYPES", "_PRODUCT_TYPES")):
        full = ctx.folder.module_value("pycomm3.cip.status_info", name)
        base = ctx.folder.module_value("pycomm3.cip.status_info", raw)
        mod = ctx.model.module("pycomm3.cip.status_info")
        node = mod.symbols[name].node
        if not isinstance(full, dict) or not isinstance(base, dict):
            ctx.undecided(f"pycomm3.cip.status_info:{name}", node, "table does not fold")
            continue
        ids_int = all(isinstance(k, int) and not isinstance(k, bool) for k in base)
        names_str = all(isinstance(v, str) and v for v in base.values())
        fwd = all(full.get(k) == v for k, v in base.items())
        # every name maps back to an id that carries that name
        back = all(isinstance(full.get(v), int) and base.get(full.get(v)) == v for v in base.values())
        size_ok = len(full) == len(base) + len(set(base.values()))
        ctx.check(ids_int and names_str and fwd and back and size_ok, f"pycomm3.cip.status_info:{name}", node, f"{len(base)} ids <-> names, no collisions",
                  f"{name}: ids int={ids_int}, names str={names_str}, forward={fwd}, backward={back}, size consistent={size_ok}", entries=len(base))


@rule(P, "D16.5", "T-DOM", floor=3)
def d16_5(ctx):
    """API plumbing: list_identity opens, queries, closes; get_module_info decodes only a valid response; get_plc_info adds keyswitch with defaults."""
    drv = ctx.model.cls(f"{CD}:CIPDriver")
    li = drv.methods["list_identity"]
    calls = [attr_path(c.func) for c in walk(li) if isinstance(c, ast.Call) and (attr_path(c.func) or "").startswith("plc.")]
    order = sorted([(c.lineno, attr_path(c.func)) for c in walk(li) if isinstance(c, ast.Call) and (attr_path(c.func) or "").startswith("plc.")])
    ret = [r for r in walk(li) if isinstance(r, ast.Return)]
    good = [n for _, n in order] == ["plc.open", "plc._list_identity", "plc.close"] and len(ret) == 1 and atom_name(ret[0].value) == "identity"
    ctx.check(good, ckey(drv.key + ".list_identity"), li, "open -> _list_identity -> close; returns the identity", f"list_identity performs {[n for _, n in order]}")
    lid = drv.methods["_list_identity"]
    good = any(isinstance(r, ast.Return) and attr_path(r.value) == "response.identity" for r in walk(lid)) and any(isinstance(c, ast.Call) and call_name(c) == "ListIdentityRequestPacket" for c in walk(lid))
    ctx.check(good, ckey(drv.key + "._list_identity"), lid, "sends ListIdentity and returns the decoded identity", "_list_identity does not return response.identity of a ListIdentity request")
    # get_module_info decodes only a valid reply (ResponseError otherwise); get_plc_info adds the key-switch position with
    # 'UNKNOWN' for status bytes the table does not know: decided by folding both on witness replies (D16.9, D16.8) - an earlier
    # form matched the if/else shape and the chained `.get(...).get(...)` expression and alarmed on a guard clause / named locals
    from .driver import _module_info_rule, d16_8

    _module_info_rule(ctx)
    d16_8(ctx)


@rule(P, "D16.6", "T-DOM", floor=1)
def d16_6(ctx):
    """Identity strings of any length decode, including the empty product name (zero-count guard in the string member's decoder; and
    the identity with an empty name among the end-to-end witnesses of D16.10)."""
    from ..codecs import zero_read_problems, effective
    from .driver import _identity_rule

    _identity_rule(ctx)
    seen = set()
    for cname in ("ModuleIdentityObject", "ListIdentityObject"):
        c = ctx.model.cls(f"{CT}:{cname}")
        call = c.factory_call
        for a in (call.args if call is not None else []):
            f = a.func if isinstance(a, ast.Call) else a
            v = ctx.folder.eval(f, c.module) if isinstance(f, ast.Name) else None
            if isinstance(v, ClassRef) and v.ci.has_base_named("StringDataType") and v.ci not in seen:
                seen.add(v.ci)
                probs = zero_read_problems(ctx, v.ci)
                dd, dfn = effective(ctx, v.ci, "_decode")
                key = ckey(c.key, f"string-member:{v.ci.name}")
                if probs:
                    ctx.violation(key, probs[0][0], f"{v.ci.name} member of {cname}: {probs[0][1]} (a device reporting an empty product name cannot be identified)")
                else:
                    ctx.ok(key, dfn, f"{v.ci.name}: zero-length names decode to '' (decoder {dd.name}._decode)")
