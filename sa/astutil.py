"""Small AST helpers shared by the rules."""
from __future__ import annotations

import ast
from typing import Iterator, List, Optional


def dump(node) -> str:
    """Position-free structural rendering (used to compare expressions semantically-by-shape)."""
    if node is None:
        return "None"
    if isinstance(node, (list, tuple)):
        return "[" + ", ".join(dump(n) for n in node) + "]"
    return ast.dump(node, annotate_fields=False, include_attributes=False)


def src(node) -> str:
    try:
        return ast.unparse(node)
    except Exception:
        return dump(node)


def walk(node, skip_defs=True) -> Iterator[ast.AST]:
    stack = [node]
    first = True
    while stack:
        n = stack.pop()
        if not first and skip_defs and isinstance(n, (ast.FunctionDef, ast.AsyncFunctionDef, ast.Lambda, ast.ClassDef)):
            continue
        first = False
        yield n
        stack.extend(reversed(list(ast.iter_child_nodes(n))))


def walk_body(stmts, skip_defs=True):
    for st in stmts:
        yield from walk(st, skip_defs) if not isinstance(st, (ast.FunctionDef, ast.AsyncFunctionDef, ast.ClassDef)) or not skip_defs else ()


def attr_path(expr) -> Optional[str]:
    """'self._cfg' for Attribute chains over a Name, 'x' for a Name, else None."""
    parts = []
    while isinstance(expr, ast.Attribute):
        parts.append(expr.attr)
        expr = expr.value
    if isinstance(expr, ast.Name):
        parts.append(expr.id)
        return ".".join(reversed(parts))
    if isinstance(expr, ast.Call) and isinstance(expr.func, ast.Name) and expr.func.id == "super" and parts:
        parts.append("super()")
        return ".".join(reversed(parts))
    return None


def call_name(call: ast.Call) -> Optional[str]:
    return attr_path(call.func)


def calls(node, skip_defs=True) -> Iterator[ast.Call]:
    for n in walk(node, skip_defs):
        if isinstance(n, ast.Call):
            yield n


def parent(node):
    return getattr(node, "_parent", None)


def ancestors(node):
    p = parent(node)
    while p is not None:
        yield p
        p = parent(p)


def enclosing_stmt(node) -> Optional[ast.stmt]:
    n = node
    while n is not None and not isinstance(n, ast.stmt):
        n = parent(n)
    return n


def enclosing_func(node):
    for a in ancestors(node):
        if isinstance(a, (ast.FunctionDef, ast.AsyncFunctionDef, ast.Lambda)):
            return a
    return None


def is_const(node, value=None) -> bool:
    if not isinstance(node, ast.Constant):
        return False
    return value is None or (node.value == value and type(node.value) is type(value))


def assigns_to(func, name: str) -> List[ast.AST]:
    """All statements in func (not nested defs) that bind local `name`."""
    out = []
    for n in walk(func):
        if isinstance(n, ast.Assign):
            for t in n.targets:
                for x in walk(t):
                    if isinstance(x, ast.Name) and x.id == name and isinstance(x.ctx, ast.Store):
                        out.append(n)
        elif isinstance(n, (ast.AugAssign, ast.AnnAssign)):
            if isinstance(n.target, ast.Name) and n.target.id == name:
                out.append(n)
        elif isinstance(n, (ast.For, ast.comprehension)):
            for x in walk(n.target):
                if isinstance(x, ast.Name) and x.id == name:
                    out.append(n)
        elif isinstance(n, ast.ExceptHandler) and n.name == name:
            out.append(n)
        elif isinstance(n, (ast.With,)):
            for it in n.items:
                if it.optional_vars is not None:
                    for x in walk(it.optional_vars):
                        if isinstance(x, ast.Name) and x.id == name:
                            out.append(n)
    return out


def attr_stores(node, base: str, attr: str):
    """Assignments/augassigns whose target is `<base>.<attr>` (e.g. self._session)."""
    out = []
    for n in walk(node):
        targets = []
        if isinstance(n, ast.Assign):
            targets = n.targets
        elif isinstance(n, (ast.AugAssign, ast.AnnAssign)):
            targets = [n.target]
        for t in targets:
            for x in walk(t):
                if isinstance(x, ast.Attribute) and x.attr == attr and isinstance(x.value, ast.Name) and x.value.id == base and isinstance(x.ctx, ast.Store):
                    out.append(n)
    return out


def subscript_key(node) -> Optional[object]:
    """Constant key of `x[<const>]`."""
    if isinstance(node, ast.Subscript):
        s = node.slice
        if isinstance(s, ast.Constant):
            return s.value
    return None


def names_in(node):
    return {n.id for n in walk(node) if isinstance(n, ast.Name)}


def decorators(func) -> List[str]:
    out = []
    for d in func.decorator_list:
        p = attr_path(d if not isinstance(d, ast.Call) else d.func)
        if p:
            out.append(p)
    return out


def stmts_of(func):
    """All statements of a function body, recursively (not nested defs)."""
    for n in walk(func):
        if isinstance(n, ast.stmt) and n is not func:
            yield n


def strip_docstring(body):
    if body and isinstance(body[0], ast.Expr) and isinstance(body[0].value, ast.Constant) and isinstance(body[0].value.value, str):
        return body[1:]
    return body


def clone(node):
    """A private copy of an expression/statement subtree.  Model nodes carry `_parent` links, so copy.deepcopy would drag
    the whole module along; re-parsing the unparsed text gives a fresh tree of just this node."""
    text = ast.unparse(node)
    if isinstance(node, ast.expr):
        return ast.parse(text, mode="eval").body
    return ast.parse(text).body[0]
