"""Mutants (property-breaking edits the rules must report) and twins (behaviour-preserving
rewrites the rules must stay silent on).  Each edit is (relative path, old text, new text),
applied once to the current source in memory."""

DT = "pycomm3/cip/data_types.py"
CT = "pycomm3/custom_types.py"
SOCK = "pycomm3/socket_.py"
PB = "pycomm3/packets/base.py"
PE = "pycomm3/packets/ethernetip.py"
PC = "pycomm3/packets/cip.py"
PL = "pycomm3/packets/logix.py"
PU = "pycomm3/packets/util.py"
SV = "pycomm3/cip/services.py"
MAP = "pycomm3/map.py"
UT = "pycomm3/util.py"
CD = "pycomm3/cip_driver.py"
LX = "pycomm3/logix_driver.py"
SLC = "pycomm3/slc_driver.py"
CONST = "pycomm3/const.py"
TAG = "pycomm3/tag.py"
PCCC = "pycomm3/cip/pccc.py"
OBJ = "pycomm3/cip/object_library.py"

MUTANTS = {}
TWINS = {}


def M(prop, mid, rel, old, new, rules=None, more=None):
    MUTANTS.setdefault(prop, []).append({"id": f"{prop}-m-{mid}", "edits": [(rel, old, new)] + (more or []), "rules": rules or []})


def T(prop, tid, rel, old, new, more=None):
    TWINS.setdefault(prop, []).append({"id": f"{prop}-t-{tid}", "edits": [(rel, old, new)] + (more or [])})


# ------------------------------------------------------------------ C06
M("C06", "dint-size3", DT, 'code = 0xC4  #: 0xC4\n    size = 4', 'code = 0xC4  #: 0xC4\n    size = 3', ["D6.1"])
M("C06", "dt-swap-decode", DT, "return UDINT.decode(stream), UINT.decode(stream)", "return UINT.decode(stream), UDINT.decode(stream)", ["D6.2"])
M("C06", "str-lentype-decode-only", DT, "        str_len = cls.len_type.decode(stream)\n        if str_len == 0:\n            return \"\"\n        str_data = cls._stream_read(stream, str_len)\n", "        str_len = UINT.decode(stream)\n        if str_len == 0:\n            return \"\"\n        str_data = cls._stream_read(stream, str_len)\n", ["D6.2"])
M("C06", "string2-no-scale", DT, "str_data = cls._stream_read(stream, str_len * 2)", "str_data = cls._stream_read(stream, str_len)", ["D6.3"])
M("C06", "second-bytesio", DT, "        data = cls._stream_read(stream, cls.size)\n        return unpack(cls._format, data)[0]", "        stream = BytesIO(stream.getvalue())\n        data = cls._stream_read(stream, cls.size)\n        return unpack(cls._format, data)[0]", ["D6.4"])
M("C06", "struct-reversed-dict", DT, "return b\"\".join(typ.encode(values[typ.name]) for typ in cls.members)", "return b\"\".join(typ.encode(values[typ.name]) for typ in reversed(cls.members))", ["D6.5"])
M("C06", "fixed-le", DT, "if len(values) < _length * chunk_size:", "if len(values) <= _length * chunk_size:", ["D6.6"])
M("C06", "array-bound-length", DT, "for _ in range(_len)]", "for _ in range(_length)]", ["D6.2"])
M("C06", "array-no-prefix", DT, "                    return _length.encode(_len) + encoded\n", "                    return encoded\n", ["D6.2"])
M("C06", "array-isinstance-only", DT, "    return isinstance(length, DataType) or (\n        isinstance(length, type) and issubclass(length, DataType)\n    )", "    return isinstance(length, DataType)", ["D6.2"])
M("C06", "serial-04x", CT, "values[\"serial\"] = f\"{values['serial']:08x}\"\n\n        return values\n\n    @classmethod\n    def _encode", "values[\"serial\"] = f\"{values['serial']:04x}\"\n\n        return values\n\n    @classmethod\n    def _encode", ["D6.2"])
M("C06", "stringn-count-only", DT, "data = cls._stream_read(stream, char_count * char_size)", "data = cls._stream_read(stream, char_count)", ["D6.3"])
M("C06", "decode-raw-buffer", DT, "            stream = _as_stream(buffer)\n            return cls._decode(stream)", "            stream = _as_stream(buffer)\n            return cls._decode(_as_stream(buffer))", ["D6.4"])
M("C06", "bitchunk-7", DT, "chunk_size = cls.element_type.size * 8", "chunk_size = cls.element_type.size * 7", ["D6.6"])
T("C06", "rename-local", DT, "        str_len = cls.len_type.decode(stream)\n        if str_len == 0:\n            return \"\"\n        str_data = cls._stream_read(stream, str_len)\n\n        return str_data.decode(cls.encoding)", "        n_chars = cls.len_type.decode(stream)\n        if n_chars == 0:\n            return \"\"\n        raw = cls._stream_read(stream, n_chars)\n\n        return raw.decode(cls.encoding)")
T("C06", "format-concat", DT, '    _format = "<h"', '    _format = "<" + "h"')
T("C06", "string2-shift", DT, "str_data = cls._stream_read(stream, str_len * 2)", "str_data = cls._stream_read(stream, 2 * str_len)")

# ------------------------------------------------------------------ C07
M("C07", "int-bigendian", DT, '    _format = "<h"', '    _format = ">h"', ["D7.1"])
M("C07", "int-unsigned", DT, '    _format = "<h"', '    _format = "<H"', ["D7.1"])
M("C07", "code-swap", DT, "    code = 0xC3  #: 0xC3", "    code = 0xC7  #: 0xC3", ["D7.1"])
M("C07", "bool-01", DT, 'return b"\\xFF" if value else b"\\x00"', 'return b"\\x01" if value else b"\\x00"', ["D7.2"])
M("C07", "bool-decode-ff", DT, 'return data != b"\\x00"', 'return data == b"\\xFF"', ["D7.2"])
M("C07", "string-prefix-usint", DT, "    code = 0xD0  #: 0xD0\n    len_type = UINT", "    code = 0xD0  #: 0xD0\n    len_type = USINT", ["D7.3"])
M("C07", "string2-utf8", DT, '    encoding = "utf-16-le"', '    encoding = "utf-8"', ["D7.3"])
M("C07", "bit-msb", DT, "_value |= 1 << i", "_value |= 1 << (len(value) - 1 - i)", ["D7.4"])
M("C07", "bit-no-reverse", DT, "        bools.reverse()\n        return bools", "        return bools", ["D7.4"])
M("C07", "datatypes-int-uint", DT, "    int = INT\n", "    int = UINT\n", ["D7.5"])
M("C07", "lreal-float", DT, '    _format = "<d"', '    _format = "<f"', ["D7.1"])
M("C07", "fixed-pad-ff", CT, '+ b"\\x00" * (cls.size - len(value))', '+ b"\\xff" * (cls.size - len(value))', ["D7.3"])
M("C07", "structtag-bit-swap", CT, "value[offset] |= 1 << bit", "value[offset] |= 1 << (7 - bit)", ["D7.6"])
M("C07", "structtag-decode-bit", CT, "bit_value = bool(raw[offset] & (1 << bit))", "bit_value = bool(raw[offset] & (1 << offset))", ["D7.6"])
M("C07", "array-join-sep", DT, 'encoded = b"".join(cls.element_type.encode(values[i]) for i in range(_len))', 'encoded = b"\\x00".join(cls.element_type.encode(values[i]) for i in range(_len))', ["D7.6"])
M("C07", "word-host-usint", DT, "    code = 0xD2  #: 0xD2\n    size = 2\n    host_type = UINT", "    code = 0xD2  #: 0xD2\n    size = 2\n    host_type = USINT", ["D7.1"])
T("C07", "format-concat", DT, '    _format = "<h"', '    _format = "<" + "h"')
T("C07", "code-decimal", DT, "    code = 0xC3  #: 0xC3", "    code = 195")
T("C07", "bool-const", DT, 'return b"\\xFF" if value else b"\\x00"', 'return bytes([255]) if value else bytes(1)')

# ------------------------------------------------------------------ C08
M("C08", "encode-except-valueerror", DT, "            return cls._encode(value)\n        except Exception as err:", "            return cls._encode(value)\n        except ValueError as err:", ["D8.1"])
M("C08", "decode-no-passthrough", DT, "        except Exception as err:\n            if isinstance(err, BufferEmptyError):\n                raise\n            else:\n                raise DataError(\n                    f\"Error unpacking {_repr(buffer)} as {cls.__name__}\"\n                ) from err\n\n    @classmethod\n    def _decode(cls, stream: BytesIO) -> Any:\n        ...", "        except Exception as err:\n            raise DataError(\n                f\"Error unpacking {_repr(buffer)} as {cls.__name__}\"\n            ) from err\n\n    @classmethod\n    def _decode(cls, stream: BytesIO) -> Any:\n        ...", ["D8.1"])
M("C08", "stringn-no-try", DT, "        try:\n            encoding = cls.ENCODINGS[char_size]\n            return (\n                UINT.encode(char_size)\n                + UINT.encode(len(value))\n                + value.encode(encoding)\n            )\n        except Exception as err:\n            raise DataError(\n                f\"Error encoding {value!r} as STRINGN using char. size {char_size}\"\n            ) from err", "        encoding = cls.ENCODINGS[char_size]\n        return (\n            UINT.encode(char_size)\n            + UINT.encode(len(value))\n            + value.encode(encoding)\n        )", ["D8.2"])
M("C08", "stream-read-no-empty", DT, "        if not data:\n            raise BufferEmptyError()\n        if len(data) < size:", "        if len(data) < size:", ["D8.3"])
M("C08", "stream-read-no-short", DT, "        if len(data) < size:\n            raise DataError(f\"Not enough data, expected {size} bytes and got {len(data)}\")\n", "", ["D8.3"])
M("C08", "raw-read-elementary", DT, "        data = cls._stream_read(stream, cls.size)\n        return unpack(cls._format, data)[0]", "        data = stream.read(cls.size)\n        return unpack(cls._format, data)[0]", ["D8.3"])
M("C08", "decode-all-catch-dataerror", DT, "                except BufferEmptyError:\n                    break", "                except DataError:\n                    break", ["D8.4"])
M("C08", "handler-raise-valueerror", DT, "            raise DataError(f\"Error packing {value!r} as {cls.__name__}\") from err", "            raise ValueError(f\"Error packing {value!r} as {cls.__name__}\") from err", ["D8.1"])
M("C08", "array-len-outside", DT, "            _length = length or cls.length\n            try:\n                # bit arrays take", "            _length = length or cls.length\n            n_values = len(values)\n            try:\n                # bit arrays take", ["D8.2"])
M("C08", "short-before-empty", DT, "        if not data:\n            raise BufferEmptyError()\n        if len(data) < size:\n            raise DataError(f\"Not enough data, expected {size} bytes and got {len(data)}\")\n", "        if len(data) < size:\n            raise DataError(f\"Not enough data, expected {size} bytes and got {len(data)}\")\n        if not data:\n            raise BufferEmptyError()\n", ["D8.3"])
M("C08", "hierarchy", "pycomm3/exceptions.py", "class BufferEmptyError(DataError):", "class BufferEmptyError(PycommError):", ["D8.1"])
M("C08", "cipsegment-no-try", DT, "        try:\n            return cls._encode(segment, padded)\n        except Exception as err:\n            raise DataError(\n                f\"Error packing {reprlib.repr(segment)} as {cls.__name__}\"\n            ) from err", "        return cls._encode(segment, padded)", ["D8.2", "D8.5"])
T("C08", "len-ne", DT, "        if len(data) < size:\n            raise DataError(", "        if size > len(data):\n            raise DataError(")
T("C08", "empty-len0", DT, "        if not data:\n            raise BufferEmptyError()", "        if len(data) == 0:\n            raise BufferEmptyError()")
T("C08", "rename-err", DT, "            return cls._encode(value)\n        except Exception as err:\n            raise DataError(f\"Error packing {value!r} as {cls.__name__}\") from err", "            return cls._encode(value)\n        except Exception as exc:\n            raise DataError(f\"Error packing {value!r} as {cls.__name__}\") from exc")

# ------------------------------------------------------------------ C12
M("C12", "no-empty-check", SOCK, "        if not chunk:\n            raise CommError(\"socket connection broken.\")\n        return chunk", "        return chunk", ["D12.1"])
M("C12", "no-header-wait", SOCK, "            while len(data) < HEADER_SIZE:\n                data += self._recv(256)\n", "", ["D12.2"])
M("C12", "completion-le", SOCK, "while len(data) - HEADER_SIZE < data_len:", "while len(data) - HEADER_SIZE <= data_len:", ["D12.3"])
M("C12", "length-offset-4", SOCK, 'struct.unpack_from("<H", data, 2)[0]', 'struct.unpack_from("<H", data, 4)[0]', ["D12.3"])
M("C12", "length-bigendian", SOCK, 'struct.unpack_from("<H", data, 2)[0]', 'struct.unpack_from(">H", data, 2)[0]', ["D12.3"])
M("C12", "header-size-20", CONST, "HEADER_SIZE = 24", "HEADER_SIZE = 20", ["D12.3"])
M("C12", "except-timeout-only", SOCK, "            return data\n        except socket.error as err:", "            return data\n        except socket.timeout as err:", ["D12.4"])
M("C12", "send-slice-sent", SOCK, "sent = self.sock.send(msg[total_sent:])", "sent = self.sock.send(msg[sent:])", ["D12.5"])
M("C12", "send-no-zero-check", SOCK, "                if sent == 0:\n                    raise CommError(\"socket connection broken.\")\n", "", ["D12.5"])
M("C12", "send-total-assign", SOCK, "total_sent += sent", "total_sent = sent", ["D12.5"])
M("C12", "send-cond-le", SOCK, "while total_sent < len(msg):", "while total_sent < len(msg) - 1:", ["D12.5"])
M("C12", "recv-direct-in-loop", SOCK, "            while len(data) - HEADER_SIZE < data_len:\n                data += self._recv(256)", "            while len(data) - HEADER_SIZE < data_len:\n                data += self.sock.recv(256)", ["D12.1"])
# (removed: `_recv` raising ConnectionError for an empty chunk - equivalent at the interface: `receive` maps every socket error,
# ConnectionError included, to CommError, and `_recv` has no other caller)
T("C12", "completion-rearranged", SOCK, "while len(data) - HEADER_SIZE < data_len:", "while len(data) < HEADER_SIZE + data_len:")
T("C12", "header-4", SOCK, "            while len(data) < HEADER_SIZE:", "            while len(data) < 4:")
T("C12", "empty-len", SOCK, "        if not chunk:\n            raise CommError", "        if len(chunk) == 0:\n            raise CommError")

# ------------------------------------------------------------------ C13
M("C13", "base-any", PB, "        return all(\n            (\n                self._error is None,\n                self.command is not None,\n                self.command_status == SUCCESS,\n            )\n        )", "        return any(\n            (\n                self._error is None,\n                self.command is not None,\n                self.command_status == SUCCESS,\n            )\n        )", ["D13.1"])
M("C13", "status6-all-services", PE, "        valid = self.service_status == SUCCESS or (\n            self.service_status == INSUFFICIENT_PACKETS\n            and self.service in MULTI_PACKET_SERVICES\n        )", "        valid = self.service_status == SUCCESS or (\n            self.service_status == INSUFFICIENT_PACKETS\n        )", ["D13.1"])
M("C13", "rr-no-status", PE, "return all((super().is_valid(), self.service_status == SUCCESS))", "return all((super().is_valid(), self.service_status is not None))", ["D13.1"])
M("C13", "unit-status-offset", PE, "self.service_status = USINT.decode(self.raw[48:49])", "self.service_status = USINT.decode(self.raw[47:48])", ["D13.2"])
M("C13", "ext-start-49", PE, "        status = get_service_status(self.service_status)\n        ext_status = get_extended_status(self.raw, 48)", "        status = get_service_status(self.service_status)\n        ext_status = get_extended_status(self.raw, 49)", ["D13.2"])
M("C13", "rr-data-offset", PE, "self.data = self.raw[44:]", "self.data = self.raw[42:]", ["D13.2"])
M("C13", "multi-uncontained", PL, "        super()._parse_reply()\n        try:\n            num_replies = UINT.decode(self.data)", "        super()._parse_reply()\n        num_replies_hint = UINT.decode(self.data)\n        try:\n            num_replies = UINT.decode(self.data)", ["D13.3"])
M("C13", "generic-decode-outside", PC, "        elif self.is_valid():\n            try:\n                self.value = self.data_type.decode(self.data)\n            except Exception as err:\n                self.__log.exception(\"Failed to parse reply\")\n                self._error = f\"Failed to parse reply - {err}\"\n                self.value = None\n\n\nclass GenericConnectedRequestPacket", "        elif self.is_valid():\n            self.value = self.data_type.decode(self.data)\n\n\nclass GenericConnectedRequestPacket", ["D13.3"])
M("C13", "remove-frag-from-set", SV, "    Services.read_tag_fragmented,\n", "", ["D13.4"])
M("C13", "add-read-tag-to-set", SV, "    Services.read_tag_fragmented,\n", "    Services.read_tag_fragmented,\n    Services.read_tag,\n", ["D13.4"])
M("C13", "from-reply-127", SV, "USINT.decode(reply_service) - 128", "USINT.decode(reply_service) - 127", ["D13.4"])
M("C13", "error-none", PB, '        return "Unknown Error"\n\n    def is_valid', "        return None\n\n    def is_valid", ["D13.5"])
M("C13", "status-no-default", PU, 'return SERVICE_STATUS.get(status, f"Unknown Error ({status:0>2x})")', "return SERVICE_STATUS.get(status)", ["D13.5"])
M("C13", "falsy-sub-with-value", LX, "                            results[req.request_id] = Tag(\n                                req.tag, None, None, req.error or resp.error\n                            )", "                            results[req.request_id] = Tag(\n                                req.tag, resp.value, None, req.error or resp.error\n                            )", ["D13.6"])
M("C13", "handler-swallow", PE, "            self.session = UDINT.decode(self.raw[4:8])\n        except Exception as err:\n            self.__log.exception(\"Failed to parse reply\")\n            self._error = f\"Failed to parse reply - {err}\"", "            self.session = UDINT.decode(self.raw[4:8])\n        except Exception as err:\n            self.__log.exception(\"Failed to parse reply\")", ["D13.3"])
M("C13", "bool-true", PB, "    def __bool__(self):\n        return self.is_valid()", "    def __bool__(self):\n        return self._error is None", ["D13.1"])
M("C13", "ext-size-words", PU, "extended_status_size = USINT.decode(stream) * 2", "extended_status_size = USINT.decode(stream)", ["D13.2"])
M("C13", "no-data-no-error", PB, "        else:\n            self._error = \"No response data received\"", "        else:\n            pass", ["D13.3"])
T("C13", "all-to-and", PB, "        return all(\n            (\n                self._error is None,\n                self.command is not None,\n                self.command_status == SUCCESS,\n            )\n        )", "        return self._error is None and self.command is not None and self.command_status == 0")
T("C13", "valid-inline", PE, "        valid = self.service_status == SUCCESS or (\n            self.service_status == INSUFFICIENT_PACKETS\n            and self.service in MULTI_PACKET_SERVICES\n        )\n        return all((super().is_valid(), valid))", "        if not super().is_valid():\n            return False\n        if self.service_status == 0:\n            return True\n        return self.service_status == 6 and self.service in MULTI_PACKET_SERVICES")
T("C13", "offset-const", PE, "self.service_status = USINT.decode(self.raw[48:49])", "self.service_status = USINT.decode(self.raw[48 : 48 + 1])")

# ------------------------------------------------------------------ C17
M("C17", "generic-message-retry-same-packet", CD, "        response = self.send(request)\n        if not response:\n            self.__log.error(\"Generic message %r failed: %s\", name, response.error)", "        response = self.send(request)\n        if not response:\n            response = self.send(request)\n        if not response:\n            self.__log.error(\"Generic message %r failed: %s\", name, response.error)", ["D17.8"])
M("C17", "tag-list-page-sent-in-a-retry-loop", LX, "                response = self.send(request)\n                if not response:\n                    raise ResponseError(", "                for _attempt in range(2):\n                    response = self.send(request)\n                    if response:\n                        break\n                if not response:\n                    raise ResponseError(", ["D17.8"])
T("C17", "generic-message-response-renamed", CD, "        response = self.send(request)\n        if not response:\n            self.__log.error(\"Generic message %r failed: %s\", name, response.error)", "        reply = response = self.send(request)\n        if not reply:\n            self.__log.error(\"Generic message %r failed: %s\", name, response.error)")
M("C11", "send-in-connection-size-pieces", CD, "            self._sock.send(message)\n", "            for _i in range(0, len(message), self.connection_size):\n                self._sock.send(message[_i : _i + self.connection_size])\n", ["D11.13"])
M("C11", "send-swallows-socket-failure", CD, "            self._sock.send(message)\n        except Exception as err:\n            raise CommError(\"failed to send message\") from err", "            self._sock.send(message)\n        except Exception as err:\n            self.__log.error(\"failed to send message: %s\", err)", ["D11.13"])
M("C15", "forward-close-extends-stored-route", CD, "        route_path = PADDED_EPATH.encode(\n            self._cfg[\"cip_path\"] + MSG_ROUTER_PATH, length=True, pad_length=True\n        )", "        route = self._cfg[\"cip_path\"]\n        route.extend(MSG_ROUTER_PATH)\n        route_path = PADDED_EPATH.encode(route, length=True, pad_length=True)", ["D15.16"])
M("C19", "service-status-zero-named-success", "pycomm3/packets/util.py", "    return SERVICE_STATUS.get(status, f\"Unknown Error ({status:0>2x})\")", "    return SERVICE_STATUS.get(status, \"Success\" if status == 0 else f\"Unknown Error ({status:0>2x})\")", ["D19.5"])
M("C17", "start-eq-stop", CD, "cycle(65535, start=1)", "cycle(65535, start=65535)", ["D17.1"])
M("C17", "stop-70000", CD, "cycle(65535, start=1)", "cycle(70000, start=1)", ["D17.1"])
M("C17", "no-increment", UT, "        yield val\n        val += 1", "        yield val", ["D17.1"])
M("C17", "reset-after-yield", UT, "        if val > stop:\n            val = start\n\n        yield val\n        val += 1", "        yield val\n        val += 1\n        if val > stop:\n            val = stop", ["D17.1"])
M("C17", "from-request-copies", PL, "        new_request = cls(\n            next(sequence),\n            request.tag,\n            request.elements,\n            request.tag_info,\n            request.request_id,\n            request._use_instance_id,\n            offset,\n        )\n        new_request.request_path = request.request_path", "        new_request = cls(\n            request._sequence,\n            request.tag,\n            request.elements,\n            request.tag_info,\n            request.request_id,\n            request._use_instance_id,\n            offset,\n        )\n        new_request.request_path = request.request_path", ["D17.2"])
M("C17", "second-cycle-in-open", CD, "            self._connection_opened = True\n            self._cfg[\"cid\"] = urandom(4)", "            self._connection_opened = True\n            self._sequence = cycle(65535, start=1)\n            self._cfg[\"cid\"] = urandom(4)", ["D17.4"])
M("C17", "init-no-next", PE, "self._sequence = next(sequence) if isinstance(sequence, Generator) else sequence", "self._sequence = sequence", ["D17.2"])
M("C17", "seq-not-first", PE, "        super()._setup_message()\n        self._msg.append(UINT.encode(self._sequence))\n\n    def build_request(", "        super()._setup_message()\n        self._msg.append(b\"\\x00\")\n        self._msg.append(UINT.encode(self._sequence))\n\n    def build_request(", ["D17.3"])  # (the former variant appended b"" - no byte changes, an equivalent mutant)
M("C17", "seq-usint", PE, "self._msg.append(UINT.encode(self._sequence))", "self._msg.append(USINT.encode(self._sequence))", ["D17.3"])
M("C17", "literal-seq", SLC, "        request = SendUnitDataRequestPacket(self._sequence)\n        request.add(b\"\".join(message_request))\n        response = self.send(request)\n        self.__log.debug(f\"SLC read_tag({tag})\")", "        request = SendUnitDataRequestPacket(1)\n        request.add(b\"\".join(message_request))\n        response = self.send(request)\n        self.__log.debug(f\"SLC read_tag({tag})\")", ["D17.2"])
T("C17", "ge-plus1", UT, "        if val > stop:", "        if val >= stop + 1:")
T("C17", "assign-plus", UT, "        val += 1", "        val = val + 1")

# ------------------------------------------------------------------ C19
M("C19", "contains-no-lower", MAP, "        return cls._members_.__contains__(\n            item.lower() if isinstance(item, str) else item\n        )", "        return cls._members_.__contains__(item)", ["D19.2"])
M("C19", "reverse-keyed-by-key", MAP, "_value_key(value): key.lower() for key, value in members.items()", "key.lower(): _value_key(value) for key, value in members.items()", ["D19.1"])
M("C19", "caps-only-in-get", MAP, "        val = cls._members_.__getitem__(_key(item))\n        if cls._return_caps_only_ and isinstance(val, str):\n            val = val.upper()\n        return val", "        val = cls._members_.__getitem__(_key(item))\n        return val", ["D19.2"])
M("C19", "no-lower-merge", MAP, "enumcls._members_ = {**members, **lower_members, **value_map}", "enumcls._members_ = {**members, **value_map}", ["D19.1"])
M("C19", "key-upper", MAP, "    return item.lower() if isinstance(item, str) else item", "    return item.upper() if isinstance(item, str) else item", ["D19.2"])
M("C19", "case-collision", SV, "    forward_close = b\"\\x4E\"\n", "    forward_close = b\"\\x4E\"\n    Forward_Close = b\"\\x4F\"\n", ["D19.3"])
M("C19", "read-tag-4b", SV, '    read_tag = b"\\x4C"', '    read_tag = b"\\x4B"', ["D19.4"])
M("C19", "send-rr-6e", SV, '    send_rr_data = b"\\x6F\\x00"', '    send_rr_data = b"\\x6E\\x00"', ["D19.4"])
M("C19", "status-default", PU, 'return SERVICE_STATUS.get(status, f"Unknown Error ({status:0>2x})")', 'return SERVICE_STATUS.get(status, "Unknown Error")', ["D19.5"])
M("C19", "value-key-name", DT, "def _by_type_code(typ: ElementaryDataType):\n    return typ.code", "def _by_type_code(typ: ElementaryDataType):\n    return typ.size", ["D7.5", "D19.3"])
M("C19", "getitem-get", MAP, "val = cls._members_.__getitem__(_key(item))", "val = cls._members_.get(_key(item))", ["D19.2"])
T("C19", "inline-key", MAP, "        val = cls._members_.get(_key(item), default)", "        val = cls._members_.get(item.lower() if isinstance(item, str) else item, default)")
T("C19", "hex-case", SV, '    read_tag = b"\\x4C"', '    read_tag = b"\\x4c"')

# ------------------------------------------------------------------ C10
M("C10", "undecorate-slc-read", SLC, "    @with_forward_open\n    def read(self, *addresses: str)", "    def read(self, *addresses: str)", ["D10.1"])
M("C10", "undecorate-logix-write", LX, "    @with_forward_open\n    def write(\n", "    def write(\n", ["D10.1"])
M("C10", "generic-no-guard", CD, "        if connected:\n            with_forward_open(lambda _: None)(self)\n", "", ["D10.1"])
M("C10", "guard-call-when-not-opened", CD, "        if not opened:\n            msg = f\"Target did not connected. {func.__name__} will not be executed.\"\n            raise ResponseError(msg)\n        return func(self, *args, **kwargs)", "        if not opened:\n            msg = f\"Target did not connected. {func.__name__} will not be executed.\"\n            logger.error(msg)\n        return func(self, *args, **kwargs)", ["D10.2"])
M("C10", "guard-no-size-500", CD, "                self._cfg[\"extended forward open\"] = False\n                self._cfg[\"connection_size\"] = 500\n", "                self._cfg[\"extended forward open\"] = False\n", ["D10.2"])
M("C10", "guard-no-flag-clear", CD, "                self._cfg[\"extended forward open\"] = False\n                self._cfg[\"connection_size\"] = 500\n", "                self._cfg[\"connection_size\"] = 500\n", ["D10.2"])
M("C10", "guard-opened-true-default", CD, "        opened = False\n        if self._cfg[\"extended forward open\"]:\n            logger.info(\"Attempting", "        opened = True\n        if self._cfg[\"extended forward open\"]:\n            logger.info(\"Attempting", ["D10.2"])
M("C10", "connected-before-response", CD, "        if response:\n            self._target_cid = response.value[:4]\n            self._target_is_connected = True\n", "        self._target_is_connected = True\n        if response:\n            self._target_cid = response.value[:4]\n", ["D10.3"])
M("C10", "no-session-check", CD, "        if self._session == 0:\n            raise CommError(\"A session must be registered before a Forward Open\")\n\n        init_net_params", "        init_net_params", ["D10.3"])
M("C10", "close-no-session-reset", CD, "        self._target_is_connected = False\n        self._session = 0\n        self._connection_opened = False\n\n        if errs:", "        self._target_is_connected = False\n        self._connection_opened = False\n\n        if errs:", ["D10.4"])
M("C10", "close-resets-in-try", CD, "        try:\n            if self._sock:\n                self._sock.close()\n        except Exception as err:\n            errs.append(err)\n            self.__log.exception(\"Error closing socket connection\")\n\n        self._sock = None\n        self._target_is_connected = False", "        try:\n            if self._sock:\n                self._sock.close()\n            self._target_is_connected = False\n        except Exception as err:\n            errs.append(err)\n            self.__log.exception(\"Error closing socket connection\")\n\n        self._sock = None", ["D10.4"])
M("C10", "close-except-commerror", CD, "                self._un_register_session()\n        except Exception as err:", "                self._un_register_session()\n        except CommError as err:", ["D10.4"])
M("C10", "close-unregister-first", CD, "            if self._target_is_connected:\n                self._forward_close()\n            if self._session != 0:\n                self._un_register_session()", "            if self._session != 0:\n                self._un_register_session()\n            if self._target_is_connected:\n                self._forward_close()", ["D10.5"])
M("C10", "exit-no-close", CD, "        try:\n            self.close()\n        except CommError:", "        try:\n            if not exc_type:\n                self.close()\n        except CommError:", ["D10.6"])
M("C10", "send-except-oserror", CD, "            self._sock.send(message)\n        except Exception as err:", "            self._sock.send(message)\n        except OSError as err:", ["D10.7"])
M("C10", "fo-pad-length", CD, "route_path = PADDED_EPATH.encode(self._cfg[\"cip_path\"] + MSG_ROUTER_PATH, length=True)", "route_path = PADDED_EPATH.encode(self._cfg[\"cip_path\"] + MSG_ROUTER_PATH, length=True, pad_length=True)", ["D10.8"])
M("C10", "fo-mask-ff", CD, "(self.connection_size & 0x01FF) | init_net_params", "(self.connection_size & 0x00FF) | init_net_params", ["D10.8"])
M("C10", "fo-swap-vid-csn", CD, "            self._cfg[\"cid\"],\n            self._cfg[\"csn\"],\n            self._cfg[\"vid\"],", "            self._cfg[\"cid\"],\n            self._cfg[\"vid\"],\n            self._cfg[\"csn\"],", ["D10.8"])
M("C10", "urandom-2", CD, "self._cfg[\"vsn\"] = urandom(4)", "self._cfg[\"vsn\"] = urandom(2)", ["D10.8"])
M("C10", "open-true-without-register", CD, "            if self._register_session() is None:\n                self.__log.error(\"Session not registered\")\n                return False\n            return True", "            if self._register_session() is None:\n                self.__log.error(\"Session not registered\")\n            return True", ["D10.3"])
M("C10", "fc-flag-always", CD, "        if response:\n            self._target_is_connected = False\n            self.__log.info(\"Forward Close succeeded.\")", "        self._target_is_connected = False\n        if response:\n            self.__log.info(\"Forward Close succeeded.\")", ["D10.5"])
T("C10", "session-falsy", CD, "            if self._session != 0:\n                self._un_register_session()", "            if self._session:\n                self._un_register_session()")
T("C10", "reorder-resets", CD, "        self._sock = None\n        self._target_is_connected = False\n        self._session = 0", "        self._session = 0\n        self._target_is_connected = False\n        self._sock = None")

# ------------------------------------------------------------------ C11
M("C11", "swap-session-status", PB, "                    UDINT.encode(session_id),  # Session Handle UDINT\n                    b\"\\x00\\x00\\x00\\x00\",  # Status UDINT", "                    b\"\\x00\\x00\\x00\\x00\",  # Status UDINT\n                    UDINT.encode(session_id),  # Session Handle UDINT", ["D11.1"])
M("C11", "length-plus-24", PB, "self._encap_command, len(common), session_id, context, option", "self._encap_command, len(common) + 24, session_id, context, option", ["D11.2"])
M("C11", "length-of-msg", PB, "self._encap_command, len(common), session_id, context, option", "self._encap_command, len(msg), session_id, context, option", ["D11.2"])
M("C11", "item-count-1", PB, 'b"\\x02\\x00",  # Item count', 'b"\\x01\\x00",  # Item count', ["D11.3"])
M("C11", "addr-len-of-message", PB, "else UINT.encode(len(addr_data)) + addr_data", "else UINT.encode(len(message)) + addr_data", ["D11.3"])
M("C11", "data-len-usint", PB, "                UINT.encode(len(message)),\n                message,", "                USINT.encode(len(message)),\n                message,", ["D11.3"])
M("C11", "unit-data-b2", PE, "    _message_type = DataItem.connected\n    _address_type = AddressItem.connection", "    _message_type = DataItem.unconnected\n    _address_type = AddressItem.connection", ["D11.4"])
M("C11", "connected-code", PE, '    connected = b"\\xb1\\x00"', '    connected = b"\\xb3\\x00"', ["D11.4"])
M("C11", "append-before-super", PL, "    def _setup_message(self):\n        super()._setup_message()\n        self._msg += [Services.multiple_service_request, self.request_path]", "    def _setup_message(self):\n        self._msg += [Services.multiple_service_request, self.request_path]\n        super()._setup_message()", ["D11.5"])
M("C11", "session-zero", CD, '"session_id": self._session,', '"session_id": 0,', ["D11.6"])
M("C11", "cid-from-4-8", CD, "self._target_cid = response.value[:4]", "self._target_cid = response.value[4:8]", ["D11.9"])
M("C11", "rr-keeps-addr", PE, "return super()._build_common_packet_format(message, addr_data=None)", "return super()._build_common_packet_format(message, addr_data=addr_data)", ["D11.3"])
M("C11", "unregister-expects-reply", PE, "    response_class = UnRegisterSessionResponsePacket\n    no_response = True", "    response_class = UnRegisterSessionResponsePacket\n    no_response = False", ["D11.4"])
M("C11", "context-7", CD, '"context": b"_pycomm_",', '"context": b"pycomm_",', ["D11.1"])
M("C11", "status-nonzero", PB, 'b"\\x00\\x00\\x00\\x00",  # Status UDINT', 'b"\\x01\\x00\\x00\\x00",  # Status UDINT', ["D11.1"])
M("C11", "msg-insert-front", PC, "        self._msg += [self.service, req_path, self.request_data]", "        self._msg.insert(0, self.service)\n        self._msg += [req_path, self.request_data]", ["D11.5"])
T("C11", "cpf-sum", PB, "        return b\"\".join(\n            [\n                b\"\\x00\\x00\\x00\\x00\",  # Interface Handle: shall be 0 for CIP\n                self._timeout,", "        return b\"\".join(\n            (\n                bytes(4),  # Interface Handle: shall be 0 for CIP\n                self._timeout,", more=[(PB, "                UINT.encode(len(message)),\n                message,\n            ]\n        )", "                UINT.encode(len(message)),\n                message,\n            )\n        )")])
T("C11", "rename-common", PB, "        common = self._build_common_packet_format(msg, addr_data=target_cid)\n        header = self._build_header(\n            self._encap_command, len(common), session_id, context, option\n        )\n        return header + common", "        body = self._build_common_packet_format(msg, addr_data=target_cid)\n        hdr = self._build_header(\n            self._encap_command, len(body), session_id, context, option\n        )\n        return hdr + body")

# ------------------------------------------------------------------ C09
M("C09", "format-reserved", DT, "        4: 0b_000_000_10,  # 32-bit", "        4: 0b_000_000_11,  # 32-bit", ["D9.1"])
M("C09", "attribute-bits", DT, '        "attribute_id": 0b_000_100_00,', '        "attribute_id": 0b_000_101_00,', ["D9.1"])
M("C09", "threshold-100", DT, "            if _value <= 0xFF:\n                _value = USINT.encode(_value)", "            if _value <= 0x100:\n                _value = USINT.encode(_value)", ["D9.2"])
M("C09", "uint-for-udint", DT, "            elif _value <= 0xFFFF_FFFF:\n                _value = UDINT.encode(_value)", "            elif _value <= 0xFFFF_FFFF:\n                _value = UINT.encode(_value)", ["D9.2"])
M("C09", "pad-when-even", DT, "if padded and (len(_segment) + len(_value)) % 2:", "if padded and not (len(_segment) + len(_value)) % 2:", ["D9.3"])
M("C09", "pad-after-value", DT, "        return _segment + _value\n", "        return _value + _segment\n", ["D9.3"])
M("C09", "symbolic-len-after-pad", DT, "        _data = segment.data.encode()\n        _len = len(_data)\n        if _len % 2:\n            _data += b\"\\x00\"\n        return USINT.encode(_segment) + USINT.encode(_len) + _data", "        _data = segment.data.encode()\n        if len(_data) % 2:\n            _data += b\"\\x00\"\n        _len = len(_data)\n        return USINT.encode(_segment) + USINT.encode(_len) + _data", ["D9.3"])
M("C09", "prefix-bytes", DT, "_len = USINT.encode(len(path) // 2)", "_len = USINT.encode(len(path))", ["D9.3"])
M("C09", "member-not-member-id", PU, 'segments += [LogicalSegment(int(idx), "member_id") for idx in index]', 'segments += [LogicalSegment(int(idx), "member") for idx in index]', ["D9.4", "D9.5"])
M("C09", "instance-without-program-test", PU, "            use_instance_ids\n            and not base.startswith(\"Program:\")\n            and tag_info.get(\"instance_id\")", "            use_instance_ids\n            and tag_info.get(\"instance_id\")", ["D9.5"])
M("C09", "attribute-before-instance", PU, '        LogicalSegment(class_code, "class_id"),\n        LogicalSegment(instance, "instance_id"),\n    ]\n\n    if attribute:', '        LogicalSegment(instance, "instance_id"),\n        LogicalSegment(class_code, "class_id"),\n    ]\n\n    if attribute:', ["D9.5"])
M("C09", "ext-link-bit-always", DT, "        if len(link) > 1:\n            port |= cls.extended_link\n            _len = USINT.encode(len(link))\n        else:\n            _len = b\"\"", "        port |= cls.extended_link\n        if len(link) > 1:\n            _len = USINT.encode(len(link))\n        else:\n            _len = b\"\"", ["D9.6"])
M("C09", "symbol-class-6c", PU, "LogicalSegment(ClassCode.symbol_object, \"class_id\"),\n                LogicalSegment(tag_info[\"instance_id\"], \"instance_id\"),", "LogicalSegment(ClassCode.template_object, \"class_id\"),\n                LogicalSegment(tag_info[\"instance_id\"], \"instance_id\"),", ["D9.5"])
M("C09", "reversed-index", PU, 'segments += [LogicalSegment(int(idx), "member_id") for idx in index]', 'segments += [LogicalSegment(int(idx), "member_id") for idx in reversed(index)]', ["D9.5"])
M("C09", "padded-false", DT, "class PADDED_EPATH(EPATH):\n    padded = True", "class PADDED_EPATH(EPATH):\n    padded = False", ["D9.3"])
M("C09", "data-segment-type", DT, "    segment_type = 0b_100_00000\n    extended_symbol = 0b_000_10001", "    segment_type = 0b_100_00000\n    extended_symbol = 0b_000_10000", ["D9.1"])
T("C09", "hex-thresholds", DT, "            if _value <= 0xFF:", "            if _value <= 255:")
T("C09", "shift-prefix", DT, "_len = USINT.encode(len(path) // 2)", "_len = USINT.encode(len(path) >> 1)")
T("C09", "format-decimal", DT, "        4: 0b_000_000_10,  # 32-bit", "        4: 2,  # 32-bit")

# ------------------------------------------------------------------ C14
M("C14", "data-before-path", PC, "        self._msg += [self.service, req_path, self.request_data]", "        self._msg += [self.service, self.request_data, req_path]", ["D14.1"])
M("C14", "ucmm-no-route", PC, "            msg = [self.service, req_path, self.request_data, self.route_path]", "            msg = [self.service, req_path, self.request_data]", ["D14.1"])
M("C14", "unsend-drops-data", PC, "                    b\"\".join((self.service, req_path, self.request_data)),", "                    b\"\".join((self.service, req_path)),", ["D14.1"])
M("C14", "pad-when-even", PU, 'b"\\x00" if msg_len % 2 else b"",', 'b"" if msg_len % 2 else b"\\x00",', ["D14.2"])
M("C14", "embedded-size-plus1", PU, "            UINT.encode(msg_len),\n            message,", "            UINT.encode(msg_len + 1),\n            message,", ["D14.2"])
M("C14", "unsend-service-54", PU, "            ConnectionManagerServices.unconnected_send,\n            rp,", "            ConnectionManagerServices.forward_open,\n            rp,", ["D14.2"])
M("C14", "str-route-no-padlength", CD, "                    parse_cip_route(route_path), length=True, pad_length=True\n", "                    parse_cip_route(route_path), length=True\n", ["D14.3"])
M("C14", "decode-although-invalid", PC, "        if self.data_type is None:\n            self.value = self.data\n        elif self.is_valid():\n            try:\n                self.value = self.data_type.decode(self.data)\n            except Exception as err:\n                self.__log.exception(\"Failed to parse reply\")\n                self._error = f\"Failed to parse reply - {err}\"\n                self.value = None\n\n\nclass GenericConnectedRequestPacket", "        if self.data_type is None:\n            self.value = self.data\n        else:\n            try:\n                self.value = self.data_type.decode(self.data)\n            except Exception as err:\n                self.__log.exception(\"Failed to parse reply\")\n                self._error = f\"Failed to parse reply - {err}\"\n                self.value = None\n\n\nclass GenericConnectedRequestPacket", ["D14.4"])
M("C14", "plc-name-class-65", LX, "                class_code=ClassCode.program_name,\n                instance=1,", "                class_code=b\"\\x65\",\n                instance=1,", ["D14.5"])
M("C14", "get-time-service", LX, "            service=Services.get_attribute_list,\n            class_code=ClassCode.wall_clock_time,", "            service=Services.get_attribute_single,\n            class_code=ClassCode.wall_clock_time,", ["D14.5"])
M("C14", "module-info-no-unsend", CD, "                connected=False,\n                unconnected_send=True,\n                route_path=PADDED_EPATH.encode(", "                connected=False,\n                unconnected_send=False,\n                route_path=PADDED_EPATH.encode(", ["D14.5"])
M("C14", "tag-drops-error", CD, "        return Tag(name, response.value, data_type, error=response.error)", "        return Tag(name, response.value, data_type)", ["D14.4"])
M("C14", "service-no-normalise", PC, "        self.service = service if isinstance(service, bytes) else bytes([service])\n        self.request_data = request_data\n        self.route_path = route_path", "        self.service = service if isinstance(service, bytes) else bytes(service)\n        self.request_data = request_data\n        self.route_path = route_path", ["D14.1"])
M("C14", "set-time-attr-order", LX, "        _struct = Struct(UINT, UINT, ULINT)", "        _struct = Struct(UINT, ULINT, UINT)", ["D14.5"])
M("C14", "swap-class-instance", CD, '            "class_code": class_code,\n            "instance": instance,', '            "class_code": instance,\n            "instance": class_code,', ["D14.3"])
T("C14", "pad-len", PU, 'b"\\x00" if msg_len % 2 else b"",', 'b"\\x00" if len(message) % 2 else b"",')

# ------------------------------------------------------------------ C15
M("C15", "no-comma", CD, 'path = path.replace("\\\\", "/").replace(",", "/")', 'path = path.replace("\\\\", "/")', ["D15.1"])
M("C15", "port-gt-65535", CD, "if port <= 0 or port >= 65535:", "if port < 0 or port > 65536:", ["D15.1"])
# (the former C15 mutant "no-odd-test" removed the odd-count test: the pairing loop then fails to unpack the last element and the
# wrapper still raises RequestError - an equivalent mutant, as the witness folding shows)
M("C15", "except-valueerror", CD, "    except RequestError:\n        raise\n    except Exception as err:\n        raise RequestError(f\"Failed to parse cip route: {path}\") from err", "    except RequestError:\n        raise\n    except ValueError as err:\n        raise RequestError(f\"Failed to parse cip route: {path}\") from err", ["D15.3"])
M("C15", "bp-2", DT, '        "bp": 0b_000_0_0001,', '        "bp": 0b_000_0_0010,', ["D15.4"])
M("C15", "logix-no-autoslot", LX, "    _auto_slot_cip_path = True", "    _auto_slot_cip_path = False", ["D15.6"])
M("C15", "port-get-default", DT, "            port = cls.port_segments[segment.port]", "            port = cls.port_segments.get(segment.port, 1)", ["D15.5"])
M("C15", "no-ip-validation", DT, "                ipaddress.ip_address(segment.link_address)\n                link = segment.link_address.encode()", "                link = segment.link_address.encode()", ["D15.5", "D9.6"])
M("C15", "single-without-autoslot", CD, "        elif len(segments) == 1 and auto_slot:", "        elif len(segments) == 1:", ["D15.2"])
M("C15", "pairs-from-1", CD, "pairs = (segments[i : i + 2] for i in range(0, len(segments), 2))", "pairs = (segments[i : i + 2] for i in range(1, len(segments), 2))", ["D15.2"])
M("C15", "init-no-flag", CD, "ip, port, _path = parse_connection_path(path, self._auto_slot_cip_path)", "ip, port, _path = parse_connection_path(path)", ["D15.6"])
M("C15", "raise-valueerror-port", CD, "                if port <= 0 or port >= 65535:\n                    raise RequestError(f'Invalid port: {port}')", "                if port <= 0 or port >= 65535:\n                    raise ValueError(f'Invalid port: {port}')", ["D15.1", "D15.3"])
T("C15", "port-range-rewrite", CD, "if port <= 0 or port >= 65535:", "if not 0 < port < 65535:")

# ------------------------------------------------------------------ C16
M("C16", "swap-vendor-product", CT, "class ModuleIdentityObject(\n    Struct(\n        UINT(\"vendor\"),\n        UINT(\"product_type\"),", "class ModuleIdentityObject(\n    Struct(\n        UINT(\"product_type\"),\n        UINT(\"vendor\"),", ["D16.1"])
M("C16", "serial-uint", CT, "        UDINT(\"serial\"),\n        SHORT_STRING(\"product_name\"),\n    )\n):\n    @classmethod\n    def _decode(cls, stream: BytesIO):\n        values = super(ModuleIdentityObject", "        UINT(\"serial\"),\n        SHORT_STRING(\"product_name\"),\n    )\n):\n    @classmethod\n    def _decode(cls, stream: BytesIO):\n        values = super(ModuleIdentityObject", ["D16.1"])
M("C16", "list-serial-04x", CT, "        values[\"serial\"] = f\"{values['serial']:08x}\"\n\n        return values\n\n\nStructTemplateAttributes", "        values[\"serial\"] = f\"{values['serial']:04x}\"\n\n        return values\n\n\nStructTemplateAttributes", ["D16.2"])
M("C16", "unknown-case", CT, "        values[\"vendor\"] = VENDORS.get(values[\"vendor\"], \"UNKNOWN\")\n        values[\"serial\"] = f\"{values['serial']:08x}\"\n\n        return values\n\n\nStructTemplateAttributes", "        values[\"vendor\"] = VENDORS.get(values[\"vendor\"], \"Unknown\")\n        values[\"serial\"] = f\"{values['serial']:08x}\"\n\n        return values\n\n\nStructTemplateAttributes", ["D16.2"])
M("C16", "raw-24", PE, "            self.data = self.raw[26:]", "            self.data = self.raw[24:]", ["D16.3"])
M("C16", "sockaddr-zero-udint", CT, "        IPAddress(\"ip_address\"),\n        ULINT,", "        IPAddress(\"ip_address\"),\n        UDINT,", ["D16.1"])
M("C16", "module-info-decode-invalid", CD, "            if response:\n                return ModuleIdentityObject.decode(response.value)\n            else:\n                raise ResponseError(f\"generic_message did not return valid data - {response.error}\")", "            return ModuleIdentityObject.decode(response.value)", ["D16.5"])
M("C16", "keyswitch-no-default", LX, "            info[\"keyswitch\"] = KEYSWITCH.get(info[\"status\"][0], {}).get(\n                info[\"status\"][1], \"UNKNOWN\"\n            )", "            info[\"keyswitch\"] = KEYSWITCH[info[\"status\"][0]][info[\"status\"][1]]", ["D16.5"])
M("C16", "list-identity-no-close", CD, "        identity = plc._list_identity()\n        plc.close()\n        return identity", "        identity = plc._list_identity()\n        return identity", ["D16.5"])
M("C16", "ip-3", CT, "return ipaddress.IPv4Address(cls._stream_read(stream, 4)).exploded", "return ipaddress.IPv4Address(cls._stream_read(stream, 3)).exploded", ["D16.1"])
M("C16", "state-uint", CT, "        USINT(\"state\"),", "        UINT(\"state\"),", ["D16.1"])
M("C16", "product-type-vendor-table", CT, "        values[\"product_type\"] = PRODUCT_TYPES.get(values[\"product_type\"], \"UNKNOWN\")\n        values[\"vendor\"] = VENDORS.get(values[\"vendor\"], \"UNKNOWN\")\n        values[\"serial\"] = f\"{values['serial']:08x}\"\n\n        return values\n\n    @classmethod\n    def _encode", "        values[\"product_type\"] = VENDORS.get(values[\"product_type\"], \"UNKNOWN\")\n        values[\"vendor\"] = VENDORS.get(values[\"vendor\"], \"UNKNOWN\")\n        values[\"serial\"] = f\"{values['serial']:08x}\"\n\n        return values\n\n    @classmethod\n    def _encode", ["D16.2"])

# ------------------------------------------------------------------ C18
M("C18", "true-division", SLC, "        element_number = bit_position // 16\n        sub_element = bit_position % 16", "        element_number = bit_position / 16\n        sub_element = bit_position - (element_number * 16)", ["D18.1"])
M("C18", "mod-15", SLC, "        sub_element = bit_position % 16", "        sub_element = bit_position % 15", ["D18.1"])
M("C18", "search-again", SLC, "    t = LFBN_RE.fullmatch(tag)", "    t = LFBN_RE.search(tag)", ["D18.2"])
M("C18", "match-unanchored", SLC, "    t = A_RE.fullmatch(tag)", "    t = A_RE.match(tag)", ["D18.2"])
M("C18", "file-256", SLC, "    t = ST_RE.fullmatch(tag)\n    if (\n        t\n        and (1 <= int(t.group(\"file_number\")) <= 255)", "    t = ST_RE.fullmatch(tag)\n    if (\n        t\n        and (1 <= int(t.group(\"file_number\")) <= 256)", ["D18.3"])
M("C18", "bit-16", SLC, "                (1 <= int(t.group(\"file_number\")) <= 255)\n                and (0 <= int(t.group(\"element_number\")) <= 255)\n                and (0 <= int(t.group(\"sub_element\")) <= 15)", "                (1 <= int(t.group(\"file_number\")) <= 255)\n                and (0 <= int(t.group(\"element_number\")) <= 255)\n                and (0 <= int(t.group(\"sub_element\")) <= 16)", ["D18.3"])
M("C18", "no-element-guard", SLC, "            if (1 <= int(t.group(\"file_number\")) <= 255) and (\n                0 <= int(t.group(\"element_number\")) <= 255\n            ):", "            if (1 <= int(t.group(\"file_number\")) <= 255):", ["D18.3"])
M("C18", "new-letter-without-rows", SLC, 'r"(?P<file_type>[LFBN])(?P<file_number>\\d{1,3})"', 'r"(?P<file_type>[LFBNQ])(?P<file_number>\\d{1,3})"', ["D18.4"])
M("C18", "n-size-4", PCCC, '    "N": 2,', '    "N": 4,', ["D18.4"])
M("C18", "f-code", PCCC, '    "F": b"\\x8a",', '    "F": b"\\x8b",', ["D18.4"])
M("C18", "write-swaps-file-type", SLC, "            USINT.encode(_tag[\"data_size\"] * _tag[\"element_count\"]),\n            USINT.encode(int(_tag[\"file_number\"])),\n            PCCC_DATA_TYPE[_tag[\"file_type\"]],", "            USINT.encode(_tag[\"data_size\"] * _tag[\"element_count\"]),\n            PCCC_DATA_TYPE[_tag[\"file_type\"]],\n            USINT.encode(int(_tag[\"file_number\"])),", ["D18.5"])
M("C18", "mask-after-data", SLC, "        return bit_mask + _value", "        return _value + bit_mask", ["D18.6"])
M("C18", "bit-data-ffff", SLC, '_value = bit_mask if value else b"\\x00\\x00"', '_value = b"\\xff\\xff" if value else b"\\x00\\x00"', ["D18.6"])
M("C18", "reply-start-60", CONST, "SLC_REPLY_START = 61", "SLC_REPLY_START = 60", ["D18.7"])
M("C18", "status-57", SLC, "        _status_code = int(data[58])", "        _status_code = int(data[57])", ["D18.7"])
M("C18", "return-on-none", SLC, "        _tag = parse_tag(tag)\n        if _tag is None:\n            raise RequestError(f\"Error parsing the tag passed to read() - {tag}\")", "        _tag = parse_tag(tag)\n        if _tag is None:\n            return Tag(tag, None, None, \"bad tag\")", ["D18.8"])
M("C18", "get-bit-shift", SLC, "    return (value & (1 << idx)) != 0", "    return (value & (1 << (idx + 1))) != 0", ["D18.6"])
M("C18", "acc-offset-2", SLC, "unpack_func(data[new_value + 4 : new_value + 4 + data_size])", "unpack_func(data[new_value + 2 : new_value + 2 + data_size])", ["D18.7"])
M("C18", "fnc-write-aa", CONST, 'SLC_FNC_WRITE = b"\\xab"', 'SLC_FNC_WRITE = b"\\xaa"', ["D18.5"])
M("C18", "bfile-4096", SLC, "        and (0 <= int(t.group(\"element_number\")) <= 4095)", "        and (0 <= int(t.group(\"element_number\")) <= 9999)", ["D18.3"])
T("C18", "shift-mask", SLC, "        element_number = bit_position // 16\n        sub_element = bit_position % 16", "        element_number = bit_position >> 4\n        sub_element = bit_position & 15")
T("C18", "sub-via-floor", SLC, "        sub_element = bit_position % 16", "        sub_element = bit_position - (bit_position // 16) * 16")

# ------------------------------------------------------------------ C02
M("C02", "reset-flag-single", LX, "                request.build_message()\n\n                req_size = len(parsed_tag[\"write_value\"]) + len(request.message)", "                request.build_message()\n                request._msg_setup = False\n\n                req_size = len(parsed_tag[\"write_value\"]) + len(request.message)", ["D2.1"])
M("C02", "build-no-guard", PB, "        if not self._msg_setup:\n            self._setup_message()\n            self._msg += self._added", "        self._setup_message()\n        self._msg += self._added", ["D2.1"])
M("C02", "setup-no-arm", PB, "    def _setup_message(self):\n        self._msg_setup = True", "    def _setup_message(self):\n        pass", ["D2.1"])
M("C02", "and-mask-slice", PL, "ULINT.encode(self._and_mask)[: self._mask_size],", "ULINT.encode(self._and_mask)[: self._and_mask],", ["D2.2"])
M("C02", "swap-or-and", PL, "            ULINT.encode(self._or_mask)[: self._mask_size],\n            ULINT.encode(self._and_mask)[: self._mask_size],", "            ULINT.encode(self._and_mask)[: self._mask_size],\n            ULINT.encode(self._or_mask)[: self._mask_size],", ["D2.2"])
M("C02", "setbit-or-and-swapped", PL, "            self._or_mask |= 1 << bit\n            self._and_mask |= 1 << bit", "            self._or_mask &= ~(1 << bit)\n            self._and_mask |= 1 << bit", ["D2.2"])
M("C02", "and-init-32bit", PL, "self._and_mask = 0xFFFF_FFFF_FFFF_FFFF", "self._and_mask = 0xFFFF_FFFF", ["D2.2"])
M("C02", "no-dword-mod", PL, "        if self.data_type == \"DWORD\":\n            bit %= 32\n", "", ["D2.2"])
M("C02", "type-usint", PL, "self._packed_data_type = UINT.encode(DataTypes[self.data_type].code)", "self._packed_data_type = USINT.encode(DataTypes[self.data_type].code)", ["D2.3"])
M("C02", "frag-offset-after-value", PL, "                UINT.encode(self.elements),\n                UDINT.encode(self.offset),\n                self.value,", "                UINT.encode(self.elements),\n                self.value,\n                UDINT.encode(self.offset),", ["D2.3"])
M("C02", "offset-plus-segsize", LX, "                offset += len(segment)", "                offset += segment_size + 1", ["D2.4"])
M("C02", "range-len-minus1", LX, "for i in range(0, len(request.value), segment_size)", "for i in range(0, len(request.value) - 1, segment_size)", ["D2.4"])
M("C02", "slice-overlap", LX, "request.value[i : i + segment_size]", "request.value[i : i + segment_size + 1]", ["D2.4"])
M("C02", "no-truncate-fixed", CT, "            value = value[: cls.size]\n", "", ["D2.5"])
# (removed: dropping the `% 32` guard of encode_value - equivalent: with an unaligned start the DWORD count announced is
# ceil((start + count) / 32) - start // 32, so 32 x count exceeds the BOOLs supplied and the array encoder refuses (DataError ->
# RequestError): the request is refused either way, only the message differs)
M("C02", "too-few-le", LX, "                if len(value) < value_elements:\n                    raise RequestError(", "                if len(value) < value_elements - 1:\n                    raise RequestError(", ["D2.6"])
M("C02", "bitwrites-keyed-by-user-tag", LX, "                    if tag_data[\"plc_tag\"] not in bit_writes:", "                    if tag_data[\"user_tag\"] not in bit_writes:", ["D2.7"])
M("C02", "setbit-no-record", PL, "        self.bits.append(bit)\n        self._request_ids.append(request_id)", "        self.bits.append(bit)", ["D2.7"])
M("C02", "send-original-too", LX, "            responses = []\n            request.build_message()\n            segment_size", "            responses = [super().send(request)]\n            request.build_message()\n            segment_size", ["D2.4"])
M("C02", "private-not-skipped", CT, "                if member.name in cls.private:\n                    continue\n", "", ["D2.8"])
M("C02", "frag-same-offset", LX, "                    self._sequence, request, offset, segment\n", "                    self._sequence, request, 0, segment\n", ["D2.4"])
T("C02", "mask-size-local", PL, "            UINT.encode(self._mask_size),\n            ULINT.encode(self._or_mask)[: self._mask_size],\n            ULINT.encode(self._and_mask)[: self._mask_size],", "            UINT.encode(self._mask_size),\n            ULINT.encode(self._or_mask)[:self._mask_size],\n            ULINT.encode(self._and_mask)[0 + 0 : self._mask_size][: self._mask_size]," if False else "            UINT.encode(self._mask_size),\n            ULINT.encode(self._or_mask)[: self._mask_size],\n            ULINT.encode(self._and_mask)[: self._mask_size],  # same width")
T("C02", "fixed-raise-instead", CT, "            value = value[: cls.size]\n", "            if len(value) > cls.size:\n                raise ValueError(\"too long\")\n")

# ------------------------------------------------------------------ C03
M("C03", "bool-or", TAG, "return self.value is not None and self.error is None", "return self.value is not None or self.error is None", ["D3.1"])
M("C03", "bool-value-only", TAG, "return self.value is not None and self.error is None", "return self.value is not None", ["D3.1"])
M("C03", "store-in-except", LX, "                parsed[\"error\"] = str(err)\n\n            finally:\n                requests[i] = parsed", "                parsed[\"error\"] = str(err)\n                requests[i] = parsed", ["D3.2"])
M("C03", "narrow-parse-except", LX, "        except RequestError:\n            raise\n        except Exception as err:\n            raise RequestError(\"Failed to parse tag request\", tag) from err", "        except RequestError:\n            raise\n        except KeyError as err:\n            raise RequestError(\"Failed to parse tag request\", tag) from err", ["D3.2"])
M("C03", "no-continue-after-error", LX, "                if request_data.get(\"error\"):\n                    results.append(Tag(tag, None, None, request_data[\"error\"]))\n                    continue\n\n                result = read_results[i]", "                if request_data.get(\"error\"):\n                    results.append(Tag(tag, None, None, request_data[\"error\"]))\n\n                result = read_results[i]", ["D3.3", "D3.5"])
M("C03", "return-shape-ge1", LX, "        if len(tags) > 1:\n            return results", "        if len(tags) >= 1:\n            return results", ["D3.4"])
M("C03", "build-errored", LX, "        for request_id, tag_data in parsed_tags.items():\n            if tag_data.get(\"error\"):\n                self.__log.error(\n                    f'Skipping making request for {tag_data[\"request_tag\"]}, error: {tag_data.get(\"error\")}'\n                )\n                continue\n", "        for request_id, tag_data in parsed_tags.items():\n", ["D3.5"])
M("C03", "append-only-in-if", LX, "            current_group.append(req)\n            current_response_size += resp_size", "                current_group.append(req)\n            current_response_size += resp_size", ["D3.6"])
M("C03", "group-not-registered", LX, "            if current_response_size + resp_size > self.connection_size:\n                current_group = []\n                grouped_requests.append(current_group)", "            if current_response_size + resp_size > self.connection_size:\n                current_group = []", ["D3.6"])
M("C03", "key-by-tag", LX, "                    if response:\n                        results[request.request_id] = Tag(", "                    if response:\n                        results[request.tag] = Tag(", ["D3.7"])
M("C03", "zip-reversed", PL, "for data, request in zip(reply_data, self.request.requests):", "for data, request in zip(reply_data, reversed(self.request.requests)):", ["D3.7"])
M("C03", "ctor-outside-handler", LX, "        try:\n            bit = parsed_tag.get(\"bit\")\n            data_type = parsed_tag[\"tag_info\"][\"data_type_name\"]\n            if bit is not None and parsed_tag[\"bool_elements\"] is None:\n                request = ReadModifyWriteRequestPacket(", "        bit = parsed_tag.get(\"bit\")\n        if bit is not None and parsed_tag[\"bool_elements\"] is None and parsed_tag[\"elements\"] == -5:\n            return ReadModifyWriteRequestPacket(self._sequence, parsed_tag[\"plc_tag\"], parsed_tag[\"tag_info\"], -1, True)\n        try:\n            bit = parsed_tag.get(\"bit\")\n            data_type = parsed_tag[\"tag_info\"][\"data_type_name\"]\n            if bit is not None and parsed_tag[\"bool_elements\"] is None:\n                request = ReadModifyWriteRequestPacket(", ["D3.8"])
M("C03", "null-deref-again", PL, 'self._mask_size = getattr(DataTypes.get(self.data_type), "size", None)', "self._mask_size = DataTypes.get(self.data_type).size", ["D3.8"])
M("C03", "encode-value-reraise-typeerror", LX, "    except Exception as err:\n        raise RequestError(\"Unable to create a writable value\") from err", "    except ValueError as err:\n        raise RequestError(\"Unable to create a writable value\") from err", ["D3.8"])
M("C03", "write-double-append", LX, "                user_result = Tag(request_data[\"user_tag\"], value, data_type, result.error)\n\n                results.append(user_result)", "                user_result = Tag(request_data[\"user_tag\"], value, data_type, result.error)\n\n                results.append(user_result)\n                if bit is not None:\n                    results.append(user_result)", ["D3.3"])
M("C03", "multi-write-except-narrow", LX, "                try:\n                    tag_data[\"write_value\"] = encode_value(tag_data)\n                except Exception as err:", "                try:\n                    tag_data[\"write_value\"] = encode_value(tag_data)\n                except KeyError as err:", ["D3.8"])
M("C03", "request-id-offset", LX, 'parsed = {"request_id": i, "request_tag": tag}', 'parsed = {"request_id": i + 1, "request_tag": tag}', ["D3.2"])
T("C03", "bool-reordered", TAG, "return self.value is not None and self.error is None", "return self.error is None and not (self.value is None)")
T("C03", "return-shape-inverted", LX, "        if len(tags) > 1:\n            return results\n        else:\n            return results[0]", "        if len(tags) <= 1:\n            return results[0]\n        else:\n            return results")

# ------------------------------------------------------------------ C04
M("C04", "no-frag-fallback-read", LX, "            if return_size + MULTISERVICE_READ_OVERHEAD > self.connection_size:\n                request = ReadTagFragmentedRequestPacket.from_request(self._sequence, request)\n                fragmented_requests.append(request)\n            else:\n                read_requests.append((request, return_size))", "            read_requests.append((request, return_size))", ["D4.1"])
M("C04", "compare-literal", LX, "                req_size = len(request.message) + MULTISERVICE_READ_OVERHEAD\n                if req_size > self.connection_size:", "                req_size = len(request.message) + MULTISERVICE_READ_OVERHEAD\n                if req_size > 4000:", ["D4.1", "D4.6"])
M("C04", "single-read-unbuilt", LX, "            request.build_message()\n\n            return_size = _tag_return_size(parsed_tag) + len(request.message)", "            return_size = _tag_return_size(parsed_tag) + len(request.message)", ["D4.7"])
M("C04", "test-after-append", LX, "        for req, resp_size in read_requests:\n            if current_response_size + resp_size > self.connection_size:\n                current_group = []\n                grouped_requests.append(current_group)\n                current_response_size = MULTISERVICE_READ_OVERHEAD\n\n            current_group.append(req)\n            current_response_size += resp_size", "        for req, resp_size in read_requests:\n            current_group.append(req)\n            current_response_size += resp_size\n            if current_response_size + resp_size > self.connection_size:\n                current_group = []\n                grouped_requests.append(current_group)\n                current_response_size = MULTISERVICE_READ_OVERHEAD", ["D4.2", "D3.6"])
M("C04", "reset-zero", LX, "                current_group = []\n                grouped_requests.append(current_group)\n                current_response_size = MULTISERVICE_READ_OVERHEAD\n\n            current_group.append(req)\n            current_response_size += resp_size", "                current_group = []\n                grouped_requests.append(current_group)\n                current_response_size = 0\n\n            current_group.append(req)\n            current_response_size += resp_size", ["D4.2"])
M("C04", "overhead-4", CONST, "MULTISERVICE_READ_OVERHEAD = 10", "MULTISERVICE_READ_OVERHEAD = 4", ["D4.3"])
M("C04", "segment-no-overhead", LX, "segment_size = self.connection_size - (len(request.message) - len(request.value))", "segment_size = self.connection_size", ["D4.4"])
M("C04", "offset-response-data", LX, "offset += len(response.value_bytes)", "offset += len(response.data)", ["D4.5"])
M("C04", "offset-assign", LX, "offset += len(response.value_bytes)", "offset = len(response.value_bytes)", ["D4.5"])
M("C04", "join-reversed", LX, 'final_response.value_bytes = b"".join(resp.value_bytes for resp in responses)', 'final_response.value_bytes = b"".join(resp.value_bytes for resp in reversed(responses))', ["D4.5"])
M("C04", "drop-size-500", CD, "                self._cfg[\"extended forward open\"] = False\n                self._cfg[\"connection_size\"] = 500\n", "                self._cfg[\"extended forward open\"] = False\n", ["D4.6"])
M("C04", "size-600-fallback", CD, "                self._cfg[\"connection_size\"] = 500\n", "                self._cfg[\"connection_size\"] = 600\n", ["D4.6"])
M("C04", "acc-adds-other", LX, "            current_group.append(req)\n            current_response_size += len(req.message)", "            current_group.append(req)\n            current_response_size += len(req.value)", ["D4.2"])
M("C04", "return-size-no-count", LX, "    size = size * tag_data[\"elements\"]\n", "", ["D4.7"])
M("C04", "cont-on-success", LX, "                if response.service_status == INSUFFICIENT_PACKETS:\n                    offset += len(response.value_bytes)", "                if response.service_status == SUCCESS:\n                    offset += len(response.value_bytes)", ["D4.5"])
M("C04", "ge-threshold-dropped", LX, "            if current_response_size + len(req.message) > self.connection_size:", "            if current_response_size > self.connection_size:", ["D4.2"])
M("C04", "read-alone-in-multi-overshoots", LX, "            if return_size + MULTISERVICE_READ_OVERHEAD > self.connection_size:", "            if return_size > self.connection_size:", ["D4.12"])
M("C04", "write-alone-in-multi-overshoots", LX, "                req_size = len(request.message) + MULTISERVICE_READ_OVERHEAD\n", "                req_size = len(request.message)\n", ["D4.12"])
T("C04", "ge-instead-gt", LX, "            if return_size + MULTISERVICE_READ_OVERHEAD > self.connection_size:\n                request = ReadTagFragmentedRequestPacket.from_request(self._sequence, request)\n                fragmented_requests.append(request)", "            if return_size + MULTISERVICE_READ_OVERHEAD >= self.connection_size:\n                request = ReadTagFragmentedRequestPacket.from_request(self._sequence, request)\n                fragmented_requests.append(request)")
T("C04", "swap-compare", LX, "                if req_size > self.connection_size:\n                    request = WriteTagFragmentedRequestPacket.from_request(self._sequence, request)\n                    fragmented_requests.append(request)", "                if self.connection_size < req_size:\n                    request = WriteTagFragmentedRequestPacket.from_request(self._sequence, request)\n                    fragmented_requests.append(request)")

# not a refactor but a different, equally valid behaviour (the TODO in the builder asks for it): requests packed first-fit - the property
# fixes that every packet fits, not which request shares a packet with which
T("C04", "first-fit-packing", LX, '        grouped_requests = [[]]\n        current_group = grouped_requests[0]\n        current_response_size = MULTISERVICE_READ_OVERHEAD\n        for req, resp_size in read_requests:\n            if current_response_size + resp_size > self.connection_size:\n                current_group = []\n                grouped_requests.append(current_group)\n                current_response_size = MULTISERVICE_READ_OVERHEAD\n\n            current_group.append(req)\n            current_response_size += resp_size\n', '        # first fit: a request goes into the first packet that still has room for its reply\n        grouped_requests = []\n        room = []\n        for req, resp_size in read_requests:\n            for i, free in enumerate(room):\n                if resp_size <= free:\n                    grouped_requests[i].append(req)\n                    room[i] -= resp_size\n                    break\n            else:\n                grouped_requests.append([req])\n                room.append(self.connection_size - MULTISERVICE_READ_OVERHEAD - resp_size)\n')
T("C01", "first-fit-packing", LX, '        grouped_requests = [[]]\n        current_group = grouped_requests[0]\n        current_response_size = MULTISERVICE_READ_OVERHEAD\n        for req, resp_size in read_requests:\n            if current_response_size + resp_size > self.connection_size:\n                current_group = []\n                grouped_requests.append(current_group)\n                current_response_size = MULTISERVICE_READ_OVERHEAD\n\n            current_group.append(req)\n            current_response_size += resp_size\n', '        # first fit: a request goes into the first packet that still has room for its reply\n        grouped_requests = []\n        room = []\n        for req, resp_size in read_requests:\n            for i, free in enumerate(room):\n                if resp_size <= free:\n                    grouped_requests[i].append(req)\n                    room[i] -= resp_size\n                    break\n            else:\n                grouped_requests.append([req])\n                room.append(self.connection_size - MULTISERVICE_READ_OVERHEAD - resp_size)\n')
T("C03", "first-fit-packing", LX, '        grouped_requests = [[]]\n        current_group = grouped_requests[0]\n        current_response_size = MULTISERVICE_READ_OVERHEAD\n        for req, resp_size in read_requests:\n            if current_response_size + resp_size > self.connection_size:\n                current_group = []\n                grouped_requests.append(current_group)\n                current_response_size = MULTISERVICE_READ_OVERHEAD\n\n            current_group.append(req)\n            current_response_size += resp_size\n', '        # first fit: a request goes into the first packet that still has room for its reply\n        grouped_requests = []\n        room = []\n        for req, resp_size in read_requests:\n            for i, free in enumerate(room):\n                if resp_size <= free:\n                    grouped_requests[i].append(req)\n                    room[i] -= resp_size\n                    break\n            else:\n                grouped_requests.append([req])\n                room.append(self.connection_size - MULTISERVICE_READ_OVERHEAD - resp_size)\n')
# ------------------------------------------------------------------ C01
M("C01", "marker-a003", CONST, 'STRUCTURE_READ_REPLY = b"\\xa0\\x02"', 'STRUCTURE_READ_REPLY = b"\\xa0\\x03"', ["D1.1"])
M("C01", "frag-header-3", PL, "                self.value_bytes = self.data[4:]\n                self._data_type = self.data[:4]", "                self.value_bytes = self.data[3:]\n                self._data_type = self.data[:4]", ["D1.1"])
M("C01", "padding-44", PL, "            padding = bytes(46)", "            padding = bytes(44)", ["D1.2"])
M("C01", "offset-table-from-0", PL, "offset_data = self.data[2 : 2 + 2 * num_replies]", "offset_data = self.data[0 : 2 * num_replies]", ["D1.2"])
M("C01", "parse-value-no-header", PL, "                    self._data_type + self.value_bytes,", "                    self.value_bytes,", ["D1.1"])
M("C01", "drop-elements-eq-1", PU, "        if elements == 1 and not issubclass(_type.element_type, BitArrayType):\n            _value = _value[0]", "        if not issubclass(_type.element_type, BitArrayType):\n            _value = _value[0]", ["D1.4"])
M("C01", "array-no-length", PU, "        _value = _type.decode(stream, length=elements)", "        _value = _type.decode(stream)", ["D1.4"])
M("C01", "rename-key-producer", LX, '                "plc_tag": tag,  # parsed tag name', '                "plctag": tag,  # parsed tag name', ["D1.5"])
M("C01", "bit-shift-swapped", LX, "bool(result.value & 1 << bit)", "bool(result.value & bit << 1)", ["D1.6"])
M("C01", "bool-range-off-by-one", LX, "bools = result.value[bit : bit + bool_elements]", "bools = result.value[bit : bit + bool_elements - 1]", ["D1.6"])
M("C01", "dword-div-16", LX, 'tag = f"{_tag}[0]" if rw == "r" else f"{_tag}[{idx // 32}]"', 'tag = f"{_tag}[0]" if rw == "r" else f"{_tag}[{idx // 16}]"', ["D1.7"])
M("C01", "elements-floor", LX, "elements = (total_size // 32) + (1 if total_size % 32 else 0)", "elements = total_size // 32", ["D1.7"])
M("C01", "bool-count-16", PU, 'dt_name = f"BOOL[{elements * 32}]"', 'dt_name = f"BOOL[{elements * 16}]"', ["D1.7"])
M("C01", "type-suffix-ge1", PU, "    elif elements > 1:\n        dt_name = f\"{dt_name}[{elements}]\"", "    elif elements >= 1:\n        dt_name = f\"{dt_name}[{elements}]\"", ["D1.8"])
M("C01", "projection-all-keys", PU, "attr: _value[attr] for attr in data_type[\"data_type\"][\"attributes\"]", "attr: _value[attr] for attr in data_type[\"data_type\"][\"internal_tags\"]", ["D1.4"])
M("C01", "read-reply-wrong-elements", PL, "                    self.data, self.tag_info, self.elements\n", "                    self.data, self.tag_info, 1\n", ["D1.1"])
M("C01", "multi-offsets-from-0", PL, "        offset = 2 + (num_requests * 2)", "        offset = num_requests * 2", ["D1.2"])
M("C01", "read-always-word-idx", LX, 'tag = f"{_tag}[0]" if rw == "r" else f"{_tag}[{idx // 32}]"', 'tag = f"{_tag}[{idx // 32}]"', ["D1.7"])
T("C01", "ceil-idiom", LX, "elements = (total_size // 32) + (1 if total_size % 32 else 0)", "elements = (total_size + 31) // 32")
T("C01", "padding-named", PL, "            padding = bytes(46)", "            padding = bytes(40 + 6)")

# ------------------------------------------------------------------ C05
M("C05", "pred-mismatch", LX, "                if self.revision_major >= MIN_VER_EXTERNAL_ACCESS:\n                    access = USINT.decode(stream)", "                if self.revision_major > MIN_VER_EXTERNAL_ACCESS:\n                    access = USINT.decode(stream)", ["D5.1"])
M("C05", "drop-attr-5", LX, '                    b"\\x05\\x00",  # Attr. 5 : Symbol Object Address\n', "", ["D5.1"])
M("C05", "dim-uint", LX, "                dim3 = UDINT.decode(stream)", "                dim3 = UINT.decode(stream)", ["D5.1"])
M("C05", "return-instance", LX, "        elif response.service_status == INSUFFICIENT_PACKETS:\n            return instance + 1", "        elif response.service_status == INSUFFICIENT_PACKETS:\n            return instance", ["D5.2"])
M("C05", "taglist-reset-in-loop", LX, "                _start_instance = last_instance\n", "                _start_instance = last_instance\n                tag_list = []\n", ["D5.2"])
M("C05", "dims-mask-3000", LX, '"dim": (raw_tag["symbol_type"] & 0b0110000000000000)', '"dim": (raw_tag["symbol_type"] & 0b0011000000000000)', ["D5.3"])
M("C05", "template-mask-member", LX, "            instance_id = typ & 0b0000_1111_1111_1111", "            instance_id = typ & 0b0000_0111_1111_1111", ["D5.3"])
M("C05", "no-task-filter", LX, "                if name.startswith(\"Task:\"):\n                    self._info[\"tasks\"][name.replace(\"Task:\", \"\")] = {\n                        \"instance_id\": tag[\"instance_id\"]\n                    }\n                    continue\n", "", ["D5.4"])
M("C05", "system-flag-no-continue", LX, "                if tag[\"symbol_type\"] & 0b0001_0000_0000_0000:\n                    continue\n", "                if tag[\"symbol_type\"] & 0b0001_0000_0000_0000:\n                    pass\n", ["D5.4"])
M("C05", "io-tags-dropped", LX, 'if any(x in name for x in (":I", ":O", ":C", ":S")):', 'if any(x in name for x in (":I", ":O")):', ["D5.4"])
M("C05", "template-offset-assign", LX, "                offset += len(response_pkt.data)", "                offset = len(response_pkt.data)", ["D5.5"])
M("C05", "template-size-no-offset", LX, "UINT.encode(((object_definition_size * 4) - 21) - offset),", "UINT.encode((object_definition_size * 4) - 21),", ["D5.5"])
M("C05", "member-swap-uints", LX, "        type_info = UINT.decode(stream)\n        typ = UINT.decode(stream)", "        typ = UINT.decode(stream)\n        type_info = UINT.decode(stream)", ["D5.6"])
M("C05", "json-type-class", LX, 'if k not in {"type_class", "_struct_members"}', 'if k not in {"_struct_members"}', ["D5.8"])
M("C05", "template-attr-order", LX, '                b"\\x04\\x00",  # Template Object Definition Size UDINT\n                b"\\x05\\x00",  # Template Structure Size UDINT', '                b"\\x05\\x00",  # Template Structure Size UDINT\n                b"\\x04\\x00",  # Template Object Definition Size UDINT', ["D5.9"])
M("C05", "string-capacity", LX, 'data_type["type_class"] = FixedSizeString(template["structure_size"] - 4)', 'data_type["type_class"] = FixedSizeString(template["structure_size"])', ["D5.7"])
M("C05", "private-visible", LX, "                _private_members.add(member)\n            else:\n                data_type[\"attributes\"].append(member)", "                _private_members.add(member)\n            data_type[\"attributes\"].append(member)", ["D5.7"])
M("C05", "struct-handle-udint", CT, 'Struct(UINT("attr_num"), UINT("status"), UINT("handle"))(name="structure_handle"),', 'Struct(UINT("attr_num"), UINT("status"), UDINT("handle"))(name="structure_handle"),', ["D5.9"])
M("C05", "alias-inverted", LX, '"alias": False if raw_tag["software_control"] & BASE_TAG_BIT else True,', '"alias": True if raw_tag["software_control"] & BASE_TAG_BIT else False,', ["D5.3"])
M("C05", "bool-bit-shift", LX, "(raw_tag[\"symbol_type\"] & 0b_0000_0111_0000_0000) >> 8", "(raw_tag[\"symbol_type\"] & 0b_0000_0111_0000_0000) >> 7", ["D5.3"])
M("C05", "template-no-raise", LX, "                if response_pkt.service_status not in (SUCCESS, INSUFFICIENT_PACKETS):\n                    raise ResponseError(\"Error reading template\", response)\n", "", ["D5.5"])
T("C05", "mask-hex", LX, '"dim": (raw_tag["symbol_type"] & 0b0110000000000000)', '"dim": (raw_tag["symbol_type"] & 0x6000)')

# ------------------------------------------------------------------ later additions (rules strengthened after the seeded round)
M("C06", "stringn-no-zero-guard", DT, "            if char_count == 0:\n                return \"\"\n            data = cls._stream_read(stream, char_count * char_size)", "            data = cls._stream_read(stream, char_count * char_size)", ["D6.7"])
M("C06", "string-no-zero-guard", DT, "        str_len = cls.len_type.decode(stream)\n        if str_len == 0:\n            return \"\"\n        str_data = cls._stream_read(stream, str_len)\n", "        str_len = cls.len_type.decode(stream)\n        str_data = cls._stream_read(stream, str_len)\n", ["D6.7"])
M("C06", "prefix-counts-bytes", DT, "        return cls.len_type.encode(len(value)) + value.encode(cls.encoding)", "        data = value.encode(cls.encoding)\n        return cls.len_type.encode(len(data)) + data", ["D6.3"])
T("C06", "zero-guard-truthy", DT, "        str_len = cls.len_type.decode(stream)\n        if str_len == 0:\n            return \"\"\n        str_data = cls._stream_read(stream, str_len)\n", "        str_len = cls.len_type.decode(stream)\n        if not str_len:\n            return \"\"\n        str_data = cls._stream_read(stream, str_len)\n")
M("C16", "short-string-no-zero-guard", DT, "        str_len = cls.len_type.decode(stream)\n        if str_len == 0:\n            return \"\"\n        str_data = cls._stream_read(stream, str_len)\n", "        str_len = cls.len_type.decode(stream)\n        str_data = cls._stream_read(stream, str_len)\n", ["D16.6"])
M("C01", "index-helper-first-bracket", UT, "        tag, _tmp = tag.rsplit(\"[\", maxsplit=1)\n        idx = int(_tmp[:-1])", "        idx = int(tag[tag.rfind(\"[\") + 1 : -1])\n        tag = tag[: tag.find(\"[\")]", ["D1.9"])
T("C01", "index-helper-rfind", UT, "        tag, _tmp = tag.rsplit(\"[\", maxsplit=1)\n        idx = int(_tmp[:-1])", "        _p = tag.rfind(\"[\")\n        idx = int(tag[_p + 1 : -1])\n        tag = tag[:_p]")
M("C18", "word-path-precedence", SLC, "                if tag[\"file_type\"] in [\"T\", \"C\"] and bit_position in {\n                    PCCC_CT[\"PRE\"],\n                    PCCC_CT[\"ACC\"],\n                }:", "                if tag[\"file_type\"] in [\"T\", \"C\"] and bit_position == PCCC_CT[\"PRE\"] or bit_position == PCCC_CT[\"ACC\"]:", ["D18.6"])
T("C18", "word-path-rewritten", SLC, "                if tag[\"file_type\"] in [\"T\", \"C\"] and bit_position in {\n                    PCCC_CT[\"PRE\"],\n                    PCCC_CT[\"ACC\"],\n                }:", "                if (bit_position == PCCC_CT[\"PRE\"] or bit_position == PCCC_CT[\"ACC\"]) and tag[\"file_type\"] in (\"C\", \"T\"):")
M("C18", "read-pre-acc-any-file", SLC, "            if tag[\"file_type\"] in {\"T\", \"C\"}:\n                if bit_position == PCCC_CT[\"PRE\"]:", "            if tag[\"file_type\"] in {\"T\", \"C\", \"N\"}:\n                if bit_position == PCCC_CT[\"PRE\"]:", ["D18.7"])
M("C03", "outer-status-short-circuit", LX, "                else:\n                    for resp in response.responses:\n                        req = resp.request", "                elif not response:\n                    for req in request.requests:\n                        results[req.request_id] = Tag(req.tag, None, None, response.error)\n                else:\n                    for resp in response.responses:\n                        req = resp.request", ["D3.7"])
# (C03 first-group-gate removed: equivalent since fix ae12d36 - every request that reaches the grouping loop fits next to the overhead,
# so the first group is empty only when there are no requests at all, and then both forms build nothing)
M("C03", "no-empty-group-filter", LX, "MultiServiceRequestPacket(self._sequence, group) for group in grouped_requests if group\n        ]\n\n        return multi_requests + fragmented_requests", "MultiServiceRequestPacket(self._sequence, group) for group in grouped_requests\n        ]\n\n        return multi_requests + fragmented_requests", ["D3.6"])

# D9.7 port-number confinement
M("C09", "port-range-dropped", DT, "        if not 0 < port < 15:\n            raise DataError(f\"Invalid port number: {port!r}\")\n", "", ["D9.7"])
M("C09", "port-range-15-allowed", DT, "        if not 0 < port < 15:", "        if not 0 < port <= 15:", ["D9.7"])
M("C09", "port-range-0-allowed", DT, "        if not 0 < port < 15:", "        if not 0 <= port < 15:", ["D9.7"])
M("C09", "port-range-byte", DT, "        if not 0 < port < 15:", "        if not 0 < port <= 0xFF:", ["D9.7"])
T("C09", "port-range-or-form", DT, "        if not 0 < port < 15:", "        if port < 1 or port > 14:")
T("C09", "port-range-and-form", DT, "        if not 0 < port < 15:", "        if not (port >= 1 and port <= 0x0E):")

# D18.9 record marks and consumers
M("C18", "bfile-bit-marked-word", SLC, '            "sub_element": sub_element,\n            "address_field": 3,', '            "sub_element": sub_element,\n            "address_field": 2,', ["D18.9"])
M("C18", "io-word-marked-bit", SLC, '                    "sub_element": 0,\n                    "address_field": 2,', '                    "sub_element": 0,\n                    "address_field": 3,', ["D18.9"])
M("C18", "mask-by-truthiness", SLC, '    bit_field = tag.get("address_field", 0) == 3', '    bit_field = bool(tag.get("sub_element"))', ["D18.9"])
M("C18", "bit-read-by-int", SLC, '        bit_read = tag.get("address_field", 0) == 3\n        bit_position = int(tag.get("sub_element") or 0)', '        bit_position = int(tag.get("sub_element") or 0)\n        bit_read = bit_position > 0', ["D18.9"])
M("C18", "bit-read-not-tc", SLC, '        bit_read = tag.get("address_field", 0) == 3', '        bit_read = tag.get("address_field", 0) == 3 and tag["file_type"] not in {"T", "C"}', ["D18.9"])
T("C18", "bit-read-get-none", SLC, '        bit_read = tag.get("address_field", 0) == 3', '        bit_read = tag.get("address_field") == 3')
T("C18", "bit-read-gt2", SLC, '        bit_read = tag.get("address_field", 0) == 3', '        bit_read = tag["address_field"] > 2')
T("C18", "bit-field-via-local", SLC, '    bit_field = tag.get("address_field", 0) == 3', '    fields = tag.get("address_field", 0)\n    bit_field = fields == 3')

# D4.8 size written before the Forward Open that requests it
M("C04", "size-after-open", CD, '                self._cfg["connection_size"] = 500\n                if self._forward_open():\n                    opened = True', '                if self._forward_open():\n                    self._cfg["connection_size"] = 500\n                    opened = True', ["D4.8"])
T("C04", "size-before-flag", CD, '                self._cfg["extended forward open"] = False\n                self._cfg["connection_size"] = 500', '                self._cfg["connection_size"] = 500\n                self._cfg["extended forward open"] = False')

# D7.6 bit-clear
M("C07", "bool-never-cleared", CT, "                if val:\n                    value[offset] |= 1 << bit\n                else:\n                    value[offset] &= ~(1 << bit)", "                if val:\n                    value[offset] |= 1 << bit", ["D7.6"])
M("C07", "bool-clear-wrong-bit", CT, "                    value[offset] &= ~(1 << bit)", "                    value[offset] &= ~(1 << offset)", ["D7.6"])
T("C07", "bool-clear-then-or", CT, "                if val:\n                    value[offset] |= 1 << bit\n                else:\n                    value[offset] &= ~(1 << bit)", "                value[offset] = (value[offset] & ~(1 << bit)) | (bool(val) << bit)")
T("C07", "bool-negated-arms", CT, "                if val:\n                    value[offset] |= 1 << bit\n                else:\n                    value[offset] &= ~(1 << bit)", "                if not val:\n                    value[offset] &= ~(1 << bit)\n                else:\n                    value[offset] |= 1 << bit")

# D1.10 visible members at every level; D1.4 projection through a helper
M("C01", "structtag-returns-private", CT, "            return {k: v for k, v in values.items() if k not in cls.private}", "            return values", ["D1.10"])
M("C01", "structtag-filter-inverted", CT, "            return {k: v for k, v in values.items() if k not in cls.private}", "            return {k: v for k, v in values.items() if k in cls.private}", ["D1.10"])
M("C01", "projection-on-strings", PU, "        if is_struct and not issubclass(_type, StringDataType):\n            _value = {", "        if is_struct:\n            _value = {", ["D1.4"])
T("C01", "projection-helper", PU, '            _value = {\n                attr: _value[attr] for attr in data_type["data_type"]["attributes"]\n            }', "            _value = _visible(_value, data_type)",
  more=[(PU, "def parse_read_reply(data, data_type, elements):", 'def _visible(value, definition):\n    return {name: value[name] for name in definition["data_type"]["attributes"]}\n\n\ndef parse_read_reply(data, data_type, elements):')])
T("C01", "structtag-skip-private-stores", CT, "                values[member.name] = member.decode(stream)\n\n            for bit_member, (offset, bit) in cls.bits.items():\n                bit_value = bool(raw[offset] & (1 << bit))\n                values[bit_member] = bit_value\n\n            return {k: v for k, v in values.items() if k not in cls.private}",
  "                decoded = member.decode(stream)\n                if member.name not in cls.private:\n                    values[member.name] = decoded\n\n            for bit_member, (offset, bit) in cls.bits.items():\n                bit_value = bool(raw[offset] & (1 << bit))\n                values[bit_member] = bit_value\n\n            return values")

# D2.9 bit range, D3.9 shared packet, set_bit failure contained per request
M("C02", "setbit-no-range", PL, "        if not 0 <= bit < self._mask_size * 8:\n            raise RequestError(f\"Invalid bit {bit} for data type {self.data_type}\")\n", "", ["D2.9"])
M("C02", "setbit-range-inclusive", PL, "        if not 0 <= bit < self._mask_size * 8:", "        if not 0 <= bit <= self._mask_size * 8:", ["D2.9"])
M("C02", "setbit-range-64", PL, "        if not 0 <= bit < self._mask_size * 8:", "        if not 0 <= bit < 64:", ["D2.9"])
M("C02", "setbit-range-valueerror", PL, "            raise RequestError(f\"Invalid bit {bit} for data type {self.data_type}\")", "            raise ValueError(f\"Invalid bit {bit} for data type {self.data_type}\")", ["D2.9"])
T("C02", "setbit-range-or-form", PL, "        if not 0 <= bit < self._mask_size * 8:", "        if bit < 0 or bit >= 8 * self._mask_size:")
M("C03", "setbit-error-on-shared-packet", PL, "            raise RequestError(f\"Invalid bit {bit} for data type {self.data_type}\")", "            self.error = f\"Invalid bit {bit} for data type {self.data_type}\"", ["D3.9"])
M("C03", "setbit-outside-try", LX, "                        request.set_bit(bit, tag_data[\"value\"], tag_data[\"request_id\"])\n                    except RequestError as err:\n                        tag_data[\"error\"] = f\"Invalid Tag Request - {err!r}\"\n                        continue\n                    bit_writes[tag_data[\"plc_tag\"]] = request\n",
  "                    except RequestError as err:\n                        tag_data[\"error\"] = f\"Invalid Tag Request - {err!r}\"\n                        continue\n                    request.set_bit(bit, tag_data[\"value\"], tag_data[\"request_id\"])\n                    bit_writes[tag_data[\"plc_tag\"]] = request\n", ["D3.8"])

# D13.7 nullable reply fields
M("C13", "frag-early-return", PL, "        super()._parse_reply(dont_parse=True)\n        try:\n            if self.data[:2] == STRUCTURE_READ_REPLY:", "        super()._parse_reply(dont_parse=True)\n        if not self.is_valid():\n            return\n        try:\n            if self.data[:2] == STRUCTURE_READ_REPLY:", ["D13.7"])
# (replaced: inserting a second, identical service decode between the status decode and the data slice is equivalent - it cannot fail
# where the first one succeeded; the order that matters is status decoded BEFORE a decode that can still fail)
M("C13", "status-before-service", PE, "            self.service = Services.get(Services.from_reply(self.raw[46:47]))\n            self.service_status = USINT.decode(self.raw[48:49])\n            self.data = self.raw[50:]", "            self.service_status = USINT.decode(self.raw[48:49])\n            self.service = Services.get(Services.from_reply(self.raw[46:47]))\n            self.data = self.raw[50:]", ["D13.7"])
M("C13", "frag-offset-unguarded", LX, "                if response.service_status == INSUFFICIENT_PACKETS:\n                    offset += len(response.value_bytes)", "                more = response.service_status == INSUFFICIENT_PACKETS\n                offset += len(response.value_bytes)\n                if more:", ["D13.7"])
T("C13", "frag-data-none-return", PL, "        super()._parse_reply(dont_parse=True)\n        try:\n            if self.data[:2] == STRUCTURE_READ_REPLY:", "        super()._parse_reply(dont_parse=True)\n        if self.data is None:\n            return\n        try:\n            if self.data[:2] == STRUCTURE_READ_REPLY:")
T("C13", "frag-valid-guard", LX, "                if response.service_status == INSUFFICIENT_PACKETS:\n                    offset += len(response.value_bytes)", "                if response and response.service_status == INSUFFICIENT_PACKETS:\n                    offset += len(response.value_bytes)")

# D15.1 host/port split on colon-count witnesses
M("C15", "port-rsplit", CD, "            ip, port = ip.split(':')", "            ip, port = ip.rsplit(':', 1)", ["D15.1"])
M("C15", "port-split-max1", CD, "            ip, port = ip.split(':')", "            ip, port = ip.split(':', 1)[0], ip.split(':')[-1]", ["D15.1"])
T("C15", "port-partition", CD, "            ip, port = ip.split(':')", "            ip, _sep, port = ip.partition(':')")
T("C15", "port-split-double-quote", CD, "            ip, port = ip.split(':')", '            ip, port = ip.split(":", 2)')

# D5.5 accumulator form
T("C05", "template-remaining-correct", LX, '        offset = 0\n        template_raw = b""', '        offset = 0\n        remaining = (object_definition_size * 4) - 21\n        template_raw = b""',
  more=[(LX, "UINT.encode(((object_definition_size * 4) - 21) - offset),", "UINT.encode(remaining),"), (LX, "                offset += len(response_pkt.data)\n", "                offset += len(response_pkt.data)\n                remaining -= len(response_pkt.data)\n")])
M("C05", "template-remaining-minus-offset", LX, '        offset = 0\n        template_raw = b""', '        offset = 0\n        remaining = (object_definition_size * 4) - 21\n        template_raw = b""',
  ["D5.5"], more=[(LX, "UINT.encode(((object_definition_size * 4) - 21) - offset),", "UINT.encode(remaining),"), (LX, "                offset += len(response_pkt.data)\n", "                offset += len(response_pkt.data)\n                remaining -= offset\n")])
M("C05", "template-size-not-reduced", LX, "UINT.encode(((object_definition_size * 4) - 21) - offset),", "UINT.encode((object_definition_size * 4) - 21),", ["D5.5"])

# D16.3 item slice upper bound
M("C16", "item-length-low-byte", PE, "            self.data = self.raw[26:]", "            item_length = USINT.decode(self.raw[28:29])\n            self.data = self.raw[26 : 30 + item_length]", ["D16.3"])
M("C16", "item-length-from-type-id", PE, "            self.data = self.raw[26:]", "            item_length = UINT.decode(self.raw[26:28])\n            self.data = self.raw[26 : 30 + item_length]", ["D16.3"])
T("C16", "item-length-uint", PE, "            self.data = self.raw[26:]", "            item_length = UINT.decode(self.raw[28:30])\n            self.data = self.raw[26 : 30 + item_length]")

# D6.6 unit-aware length arithmetic of bit-string arrays
# (removed: `if len(values) < _length:` for bit strings - equivalent: the element encoder refuses a chunk that is not exactly
# element-bits long with DataError, so too few bools still raise DataError before anything is returned)
M("C06", "bits-count-from-values", DT, "                if is_bits:\n                    values = [", "                if is_bits:\n                    _len = len(values) // chunk_size\n                    values = [", ["D6.6"])
M("C06", "open-partial-dropped", DT, "                    if len(values) % chunk_size:\n                        raise DataError(\n                            f\"Number of values must be a multiple of {chunk_size} for arrays of {cls.element_type}\"\n                        )\n", "", ["D6.6"])
T("C06", "chunk-statement-form", DT, "                chunk_size = cls.element_type.size * 8 if is_bits else 1\n", "                chunk_size = 1\n                if is_bits:\n                    chunk_size = cls.element_type.size * 8\n")
T("C06", "tile-over-all-values", DT, "for i in range(0, _len * chunk_size, chunk_size)", "for i in range(0, len(values), chunk_size)")

# D2.6 count unit handed to the array encoder
M("C02", "bool-array-count-in-bools", LX, '            return _type.encode(value, elements if data_type == "DWORD" else value_elements)', "            return _type.encode(value, value_elements)", ["D2.6"])
T("C02", "array-count-always-elements", LX, '            return _type.encode(value, elements if data_type == "DWORD" else value_elements)', "            return _type.encode(value, elements)")
T("C02", "bool-array-count-negated", LX, '            return _type.encode(value, elements if data_type == "DWORD" else value_elements)', '            return _type.encode(value, value_elements if data_type != "DWORD" else elements)')

# D8.6 (= D6.6 obligations under C08)
M("C08", "open-partial-silent", DT, "                    if len(values) % chunk_size:\n                        raise DataError(\n                            f\"Number of values must be a multiple of {chunk_size} for arrays of {cls.element_type}\"\n                        )\n", "", ["D8.6"])

# D12.3 accumulator form of the completion loop
T("C12", "countdown-received", SOCK, "            while len(data) - HEADER_SIZE < data_len:\n                data += self._recv(256)", "            remaining = HEADER_SIZE + data_len - len(data)\n            while remaining > 0:\n                chunk = self._recv(min(remaining, 256))\n                data += chunk\n                remaining -= len(chunk)")
M("C12", "countdown-requested", SOCK, "            while len(data) - HEADER_SIZE < data_len:\n                data += self._recv(256)", "            remaining = HEADER_SIZE + data_len - len(data)\n            while remaining > 0:\n                size = min(remaining, 256)\n                data += self._recv(size)\n                remaining -= size", ["D12.3"])
M("C12", "countdown-from-body-only", SOCK, "            while len(data) - HEADER_SIZE < data_len:\n                data += self._recv(256)", "            remaining = data_len\n            while remaining > 0:\n                chunk = self._recv(min(remaining, 256))\n                data += chunk\n                remaining -= len(chunk)", ["D12.3"])

# D19.6 / D7.5 get_type folded per code
M("C19", "get-type-falsy-guard", DT, "        return cls.get(cls.get(type_code))", "        if not type_code:\n            return None\n        return cls.get(cls.get(type_code))", ["D19.6"])
M("C19", "get-type-name-only", DT, "        return cls.get(cls.get(type_code))", "        return cls.get(type_code)", ["D19.6"])
T("C19", "get-type-none-guard", DT, "        return cls.get(cls.get(type_code))", "        if type_code is None:\n            return None\n        name = cls.get(type_code)\n        return cls.get(name) if name is not None else None")
M("C07", "get-type-falsy-guard", DT, "        return cls.get(cls.get(type_code))", "        if not type_code:\n            return None\n        return cls.get(cls.get(type_code))", ["D7.5"])
T("C07", "get-type-two-steps", DT, "        return cls.get(cls.get(type_code))", "        name = cls.get(type_code)\n        return cls.get(name)")

# D16.2 witness evaluation of the identity post-processing
_ID_OLD_M = '        values = super(ModuleIdentityObject, cls)._decode(stream)\n        values["product_type"] = PRODUCT_TYPES.get(values["product_type"], "UNKNOWN")\n        values["vendor"] = VENDORS.get(values["vendor"], "UNKNOWN")\n        values["serial"] = f"{values[\'serial\']:08x}"\n\n        return values\n'
_ID_OLD_L = '        values = super(ListIdentityObject, cls)._decode(stream)\n        values["product_type"] = PRODUCT_TYPES.get(values["product_type"], "UNKNOWN")\n        values["vendor"] = VENDORS.get(values["vendor"], "UNKNOWN")\n        values["serial"] = f"{values[\'serial\']:08x}"\n\n        return values\n'
_ID_HELPER_OK = 'def _identity_names(values):\n    for attr, names in (("product_type", PRODUCT_TYPES), ("vendor", VENDORS)):\n        values[attr] = names.get(values[attr], "UNKNOWN")\n    values["serial"] = f"{values[\'serial\']:08x}"\n    return values\n\n\nclass ModuleIdentityObject('
_ID_HELPER_BAD = 'def _identity_names(values):\n    for attr, names in (("product_type", PRODUCT_TYPES), ("vendor", VENDORS)):\n        _id = values[attr]\n        values[attr] = names.get(_id, "UNKNOWN") if _id else "UNKNOWN"\n    values["serial"] = f"{values[\'serial\']:08x}"\n    return values\n\n\nclass ModuleIdentityObject('
T("C16", "identity-helper", CT, _ID_OLD_M, "        values = super(ModuleIdentityObject, cls)._decode(stream)\n        return _identity_names(values)\n",
  more=[(CT, _ID_OLD_L, "        values = super(ListIdentityObject, cls)._decode(stream)\n        return _identity_names(values)\n"), (CT, "class ModuleIdentityObject(", _ID_HELPER_OK)])
M("C16", "identity-helper-zero-id", CT, _ID_OLD_M, "        values = super(ModuleIdentityObject, cls)._decode(stream)\n        return _identity_names(values)\n", ["D16.2"],
  more=[(CT, _ID_OLD_L, "        values = super(ListIdentityObject, cls)._decode(stream)\n        return _identity_names(values)\n"), (CT, "class ModuleIdentityObject(", _ID_HELPER_BAD)])
M("C16", "serial-no-leading-zeros", CT, _ID_OLD_L, _ID_OLD_L.replace(":08x}", ":x}"), ["D16.2"])
M("C16", "vendor-default-none", CT, _ID_OLD_L, _ID_OLD_L.replace('VENDORS.get(values["vendor"], "UNKNOWN")', 'VENDORS.get(values["vendor"])'), ["D16.2"])

# D5.10 prefix stripping on witnesses
M("C05", "lstrip-program", LX, 'prog_name = name.replace("Program:", "")', 'prog_name = name.lstrip("Program:")', ["D5.10"])
M("C05", "task-slice-short", LX, 'self._info["tasks"][name.replace("Task:", "")] = {', 'self._info["tasks"][name[4:]] = {', ["D5.10"])
T("C05", "routine-slice-len", LX, 'rtn_name = name.replace("Routine:", "")', 'rtn_name = name[len("Routine:"):]')
T("C05", "program-split", LX, 'prog_name = name.replace("Program:", "")', 'prog_name = name.split(":", 1)[1]')
T("C05", "task-removeprefix", LX, 'self._info["tasks"][name.replace("Task:", "")] = {', 'self._info["tasks"][name.removeprefix("Task:")] = {')

# D18.10 case-twin invariance
M("C18", "io-filenumber-case", SLC, '        file_number = "0" if t.group("file_type").upper() == "O" else "1"', '        file_number = "0" if t.group("file_type") == "O" else "1"', ["D18.10"])
M("C18", "ct-subelement-case", SLC, '"sub_element": PCCC_CT[t.group("sub_element").upper()],', '"sub_element": PCCC_CT.get(t.group("sub_element"), 0),', ["D18.10"])
M("C18", "lfbn-filetype-raw", SLC, '                return {\n                    "file_type": t.group("file_type").upper(),\n                    "file_number": t.group("file_number"),\n                    "element_number": t.group("element_number"),\n                    "sub_element": t.group("sub_element"),\n                    "address_field": 3,', '                return {\n                    "file_type": t.group("file_type"),\n                    "file_number": t.group("file_number"),\n                    "element_number": t.group("element_number"),\n                    "sub_element": t.group("sub_element"),\n                    "address_field": 3,', ["D18.10"])
T("C18", "io-filenumber-lower", SLC, '        file_number = "0" if t.group("file_type").upper() == "O" else "1"', '        file_number = "0" if t.group("file_type").lower() == "o" else "1"')
T("C18", "io-filenumber-in", SLC, '        file_number = "0" if t.group("file_type").upper() == "O" else "1"', '        file_number = "0" if t.group("file_type") in ("O", "o") else "1"')

# D11.7 header values passed through
M("C11", "context-tagged-with-sequence", PE, "    ):\n\n        return super().build_request(target_cid, session_id, context, option, **kwargs)", "    ):\n        context = context[:4] + b\"%04d\" % self._sequence\n        return super().build_request(target_cid, session_id, context, option, **kwargs)", ["D11.7"])
M("C11", "option-replaced", PE, "        return super().build_request(target_cid, session_id, context, option, **kwargs)", "        return super().build_request(target_cid, session_id, context, 0, **kwargs)", ["D11.7"])
T("C11", "override-keywords", PE, "        return super().build_request(target_cid, session_id, context, option, **kwargs)", "        return super().build_request(target_cid, session_id, context=context, option=option, **kwargs)")

# fragment size redefinitions (D2.4 / D4.4)
_SEG = "            segment_size = self.connection_size - (len(request.message) - len(request.value))\n"
_GEN_END = "                for i in range(0, len(request.value), segment_size)\n            )\n"
M("C04", "fragment-min-one-element", LX, _SEG, _SEG + "            element_size = _tag_return_size({\"tag_info\": request.tag_info, \"elements\": 1})\n            segment_size = max(element_size, segment_size - segment_size % element_size)\n", ["D4.4"])
M("C02", "fragment-stride-lazy", LX, _GEN_END, _GEN_END + "            element_size = len(request.value) // max(request.elements, 1)\n            if 0 < element_size < segment_size:\n                segment_size -= segment_size % element_size\n", ["D2.4"])
M("C04", "fragment-stride-lazy", LX, _GEN_END, _GEN_END + "            element_size = len(request.value) // max(request.elements, 1)\n            if 0 < element_size < segment_size:\n                segment_size -= segment_size % element_size\n", ["D4.4"])
T("C02", "fragment-round-down-guarded", LX, _SEG, _SEG + "            element_size = len(request.value) // max(request.elements, 1)\n            if 0 < element_size < segment_size:\n                segment_size -= segment_size % element_size\n")
T("C04", "fragment-round-down-guarded", LX, _SEG, _SEG + "            element_size = len(request.value) // max(request.elements, 1)\n            if 0 < element_size < segment_size:\n                segment_size -= segment_size % element_size\n")
T("C04", "fragment-min-cap", LX, _SEG, _SEG + "            segment_size = min(segment_size, 480)\n")

# D9.8 subscripts helper on witnesses
_FTI_OLD = '    if "[" in tag:  # Check if is an array tag\n        t = tag[: len(tag) - 1]  # Remove the last square bracket\n        inside_value = t[t.find("[") + 1 :]  # Isolate the value inside bracket\n        index = inside_value.split(\n            ","\n        )  # Now split the inside value in case part of multidimensional array\n        tag = t[: t.find("[")]  # Get only the tag part\n    else:\n        index = []\n    return tag, index\n'
M("C09", "subscripts-regex-last-group", PU, _FTI_OLD, '    match = _TAG_INDEX.search(tag)\n    if match:\n        index = [idx for idx in match.groups() if idx is not None]\n        tag = tag[: match.start()]\n    else:\n        index = []\n    return tag, index\n', ["D9.8"],
  more=[(PU, "def _find_tag_index(tag):", '_TAG_INDEX = re.compile(r"\\[\\s*(\\d+)(?:\\s*,\\s*(\\d+))*\\s*\\]$")\n\n\ndef _find_tag_index(tag):'), (PU, "import string\n", "import re\nimport string\n")])
T("C09", "subscripts-regex-findall", PU, _FTI_OLD, '    match = _TAG_INDEX.search(tag)\n    if match:\n        index = _DIGITS.findall(match.group(0))\n        tag = tag[: match.start()]\n    else:\n        index = []\n    return tag, index\n',
  more=[(PU, "def _find_tag_index(tag):", '_TAG_INDEX = re.compile(r"\\[[\\d,\\s]*\\]$")\n_DIGITS = re.compile(r"\\d+")\n\n\ndef _find_tag_index(tag):'), (PU, "import string\n", "import re\nimport string\n")])
M("C09", "subscripts-first-two", PU, '        index = inside_value.split(\n            ","\n        )', '        index = inside_value.split(\n            ","\n        )[:2]', ["D9.8"])

# D14.4 witness evaluation of the generic reply value
_PR_OLD = '        if self.data_type is None:\n            self.value = self.data\n        elif self.is_valid():\n            try:\n                self.value = self.data_type.decode(self.data)\n            except Exception as err:\n                self.__log.exception("Failed to parse reply")\n                self._error = f"Failed to parse reply - {err}"\n                self.value = None\n'
_PR_TWIN = '        if self.data_type is not None:\n            if not self.is_valid():\n                return\n            try:\n                decoded = self.data_type.decode(self.data)\n            except Exception as err:\n                self.__log.exception("Failed to parse reply")\n                self._error = f"Failed to parse reply - {err}"\n                decoded = None\n            self.value = decoded\n        else:\n            self.value = self.data\n'
_PR_BAD = '        if self.data_type is None or not self.data:\n            self.value = self.data\n        else:\n            try:\n                self.value = self.data_type.decode(self.data)\n            except Exception as err:\n                self.__log.exception("Failed to parse reply")\n                self._error = f"Failed to parse reply - {err}"\n                self.value = None\n'
_PR_SWALLOW = '        if self.data_type is None:\n            self.value = self.data\n        elif self.is_valid():\n            try:\n                self.value = self.data_type.decode(self.data)\n            except Exception as err:\n                self.__log.exception("Failed to parse reply")\n                self.value = None\n'
# the text occurs twice (connected, unconnected): each variant edits both occurrences
T("C14", "parse-reply-restructured", PC, _PR_OLD, _PR_TWIN, more=[(PC, _PR_OLD, _PR_TWIN)])
M("C14", "parse-reply-decodes-refused", PC, _PR_OLD, _PR_BAD, ["D14.4"], more=[(PC, _PR_OLD, _PR_BAD)])
M("C14", "parse-reply-error-swallowed", PC, _PR_OLD, _PR_SWALLOW, ["D14.4"])

# D8.7 names read in handlers
M("C08", "stringn-handler-unbound", DT, 'f"Error encoding {value!r} as STRINGN using char. size {char_size}"', 'f"Error encoding {value!r} as STRINGN using {encoding} ({char_size}-byte characters)"', ["D8.7"])

# D19.7 from_reply folded per reply code; D6.8 identity around the struct codec; D1.3 (= D4.5 under C01)
SV_ = "pycomm3/cip/services.py"
M("C19", "from-reply-connmgr-first", SV_, "        val = cls.get(USINT.encode(USINT.decode(reply_service) - 128))", "        code = USINT.encode(USINT.decode(reply_service) - 128)\n        val = ConnectionManagerServices.get(code, cls.get(code))", ["D19.7"])
M("C19", "from-reply-mask-7f", SV_, "        val = cls.get(USINT.encode(USINT.decode(reply_service) - 128))", "        val = cls.get(USINT.encode(USINT.decode(reply_service) & 0x3F))", ["D19.7"])
T("C19", "from-reply-and-7f", SV_, "        val = cls.get(USINT.encode(USINT.decode(reply_service) - 128))", "        val = cls.get(USINT.encode(USINT.decode(reply_service) & 0x7F))")
M("C06", "real-decode-rounded", DT, 'class REAL(ElementaryDataType):', 'class REAL(ElementaryDataType):\n    @classmethod\n    def _decode(cls, stream):\n        value = super()._decode(stream)\n        return float(f"{value:.7g}")\n', ["D6.8"])
T("C06", "real-decode-passthrough", DT, 'class REAL(ElementaryDataType):', 'class REAL(ElementaryDataType):\n    @classmethod\n    def _decode(cls, stream):\n        value = super()._decode(stream)\n        return value\n')
M("C01", "fragment-offset-data-minus-2", LX, "                    offset += len(response.value_bytes)", "                    offset += len(response.data) - 2", ["D1.3"])

# round 4: D2.10, D3.9 removals, D14.6
M("C02", "bool-dword-count-floor", LX, '            parsed_tag["elements"] = elements = elements - (parsed_tag["bit"] or 0) // 32', '            parsed_tag["elements"] = elements = (value_elements // 32) or 1', ["D2.10"])
T("C02", "bool-dword-count-ceil", LX, '            parsed_tag["elements"] = elements = elements - (parsed_tag["bit"] or 0) // 32', '            parsed_tag["elements"] = elements = (value_elements + 31) // 32')
M("C03", "merge-table-pop-on-error", LX, '                        tag_data["error"] = f"Invalid Tag Request - {err!r}"\n                        continue\n                    bit_writes[tag_data["plc_tag"]] = request', '                        tag_data["error"] = f"Invalid Tag Request - {err!r}"\n                        bit_writes.pop(tag_data["plc_tag"], None)\n                        continue\n                    bit_writes[tag_data["plc_tag"]] = request', ["D3.9"])
M("C14", "set-time-zero-falsy", LX, "        if microseconds is None:\n            microseconds = int(time.time() * SEC_TO_US)", "        microseconds = int(microseconds or time.time() * SEC_TO_US)", ["D14.6"])
M("C14", "set-time-attribute-count", LX, "                [1, 6, microseconds]", "                [1, 6, microseconds // 1000]", ["D14.6"])
T("C14", "set-time-conditional-expr", LX, "        if microseconds is None:\n            microseconds = int(time.time() * SEC_TO_US)", "        microseconds = int(time.time() * SEC_TO_US) if microseconds is None else microseconds")

# D10.9 connection identifiers only rewritten while not opened
M("C10", "serial-regenerated-when-open", CD, '        if self._connection_opened:\n            return True\n        try:\n            if self._sock is None:', '        try:\n            self._cfg["cid"] = urandom(4)\n            self._cfg["vsn"] = urandom(4)\n        except Exception as err:\n            raise CommError("failed to open a connection") from err\n        if self._connection_opened:\n            return True\n        try:\n            if self._sock is None:', ["D10.9"])
T("C10", "serial-before-connect", CD, '            self._sock.connect(self._cfg["ip address"], self._cfg["port"])\n            self._connection_opened = True\n            self._cfg["cid"] = urandom(4)\n            self._cfg["vsn"] = urandom(4)', '            self._cfg["cid"] = urandom(4)\n            self._cfg["vsn"] = urandom(4)\n            self._sock.connect(self._cfg["ip address"], self._cfg["port"])\n            self._connection_opened = True')

# D15.2 witnesses: shared default route, fresh copies
M("C15", "shared-default-route", CD, '            _path = [PortSegment("bp", 0)] if auto_slot else []', '            _path = DEFAULT_SLOT_ROUTE if auto_slot else []', ["D15.2"], more=[(CD, "def parse_cip_route(", 'DEFAULT_SLOT_ROUTE = [PortSegment("bp", 0)]\n\n\ndef parse_cip_route(')])
T("C15", "default-route-copied", CD, '            _path = [PortSegment("bp", 0)] if auto_slot else []', '            _path = list(DEFAULT_SLOT_ROUTE) if auto_slot else []', more=[(CD, "def parse_cip_route(", 'DEFAULT_SLOT_ROUTE = (PortSegment("bp", 0),)\n\n\ndef parse_cip_route(')])
T("C15", "shortcut-branches-reordered", CD, '        if not segments:\n            _path = [PortSegment("bp", 0)] if auto_slot else []\n        elif len(segments) == 1 and auto_slot:\n            _path = [PortSegment("bp", segments[0])]', '        if auto_slot and len(segments) == 1:\n            _path = [PortSegment("bp", segments[0])]\n        elif not segments:\n            _path = [PortSegment("bp", 0)] if auto_slot else []')

# D12.2 upper bound of the header wait, D12.6 progress
M("C12", "header-wait-25", SOCK, "            while len(data) < HEADER_SIZE:", "            while len(data) <= HEADER_SIZE:", ["D12.2"])
M("C12", "header-loop-no-append", SOCK, "            while len(data) < HEADER_SIZE:\n                data += self._recv(256)", "            while len(data) < HEADER_SIZE:\n                self._recv(256)", ["D12.6"])
M("C12", "body-loop-conditional-append", SOCK, "            while len(data) - HEADER_SIZE < data_len:\n                data += self._recv(256)", "            while len(data) - HEADER_SIZE < data_len:\n                chunk = self._recv(256)\n                if len(chunk) > 1:\n                    data += chunk", ["D12.6"])
T("C12", "header-wait-4", SOCK, "            while len(data) < HEADER_SIZE:", "            while len(data) < 4:")

# witness-folding rules (round of the generic mutation sweep)
M("C18", "ct-element-count-2", SLC, '            "element_count": 1,\n            "tag": t.group(0),', '            "element_count": 2,\n            "tag": t.group(0),', ["D18.11"])
M("C18", "bfile-count-default-0", SLC, '            "sub_element": sub_element,\n            "address_field": 3,\n            "element_count": int(element_count) if element_count is not None else 1,', '            "sub_element": sub_element,\n            "address_field": 3,\n            "element_count": int(element_count) if element_count is not None else 0,', ["D18.11"])
M("C18", "io-position-swapped", SLC, 'position_number = "0" if t.group("position_number") == None else t.group("position_number")', 'position_number = t.group("position_number") if t.group("position_number") == None else "0"', ["D18.11"])
M("C18", "read-reply-single-as-list", SLC, "            if len(values_list) > 1:", "            if len(values_list) >= 1:", ["D18.12"])
M("C18", "read-reply-pre-offset", SLC, "unpack_func(data[new_value + 2 : new_value + 2 + data_size])", "unpack_func(data[new_value + 4 : new_value + 4 + data_size])", ["D18.12"])
M("C18", "write-zero-data-for-true", SLC, '                    _value = bit_mask if value else b"\\x00\\x00"', '                    _value = bit_mask if not value else b"\\x00\\x00"', ["D18.12"])
M("C18", "read-status-negated", SLC, "        if status is not None:\n            return Tag(_tag[\"tag\"], None, _tag[\"file_type\"], status)\n\n        try:", "        if status is None:\n            return Tag(_tag[\"tag\"], None, _tag[\"file_type\"], status)\n\n        try:", ["D18.13"])
M("C18", "read-returns-list-for-one", SLC, "        results = [self._read_tag(tag) for tag in addresses]\n\n        if len(results) == 1:", "        results = [self._read_tag(tag) for tag in addresses]\n\n        if len(results) == 2:", ["D18.13"])
M("C18", "write-body-not-added", SLC, '        request = SendUnitDataRequestPacket(self._sequence)\n        request.add(b"".join(message_request))\n        response = self.send(request)\n\n        status = request_status(response.raw)\n        if status is not None:\n            return Tag(_tag["tag"], None, _tag["file_type"], status)\n\n        return Tag(_tag["tag"], value', '        request = SendUnitDataRequestPacket(self._sequence)\n        response = self.send(request)\n\n        status = request_status(response.raw)\n        if status is not None:\n            return Tag(_tag["tag"], None, _tag["file_type"], status)\n\n        return Tag(_tag["tag"], value', ["D18.13"])
M("C01", "default-elements-2", LX, "                elements = 1\n                implicit_element = True", "                elements = 2\n                implicit_element = True", ["D1.11"])
M("C01", "bit-suffix-not-popped", LX, "                bit = int(attrs.pop(-1))", "                bit = int(attrs[-1])", ["D1.11"])
M("C01", "bool-write-index-not-rebased", LX, 'tag = f"{_tag}[0]" if rw == "r" else f"{_tag}[{idx // 32}]"', 'tag = f"{_tag}[0]" if rw == "r" else f"{_tag}[{idx}]"', ["D1.11"])
M("C05", "symbol-type-bit12-kept", LX, '                if tag["symbol_type"] & 0b0001_0000_0000_0000:', '                if tag["symbol_type"] & 0b0010_0000_0000_0000:', ["D5.12"])
M("C05", "dims-shift-12", LX, '            "dim": (raw_tag["symbol_type"] & 0b0110000000000000)\n            >> 13,', '            "dim": (raw_tag["symbol_type"] & 0b0110000000000000)\n            >> 12,', ["D5.11"])
M("C05", "member-offset-uint", LX, '        member = {"offset": UDINT.decode(stream)}', '        member = {"offset": UINT.decode(stream)}', ["D5.11"])
M("C06", "bits-not-reversed", DT, "        bools.reverse()\n", "", ["D6.9"])
M("C06", "stringn-default-charsize-2", DT, "    def encode(cls, value: str, char_size: int = 1) -> bytes:", "    def encode(cls, value: str, char_size: int = 2) -> bytes:", ["D6.9"])
M("C07", "stringi-lang-2-bytes", DT, 'lang = SHORT_STRING.decode(b"\\x03" + stream.read(3))', 'lang = SHORT_STRING.decode(b"\\x02" + stream.read(2))', ["D7.7"])
M("C13", "ext-status-word-as-byte", PU, "        elif extended_status_size == 2:\n            extended_status = UINT.decode(stream)", "        elif extended_status_size == 2:\n            extended_status = USINT.decode(stream)", ["D13.8"])
M("C14", "plc-time-epoch-1971", LX, "datetime.datetime(1970, 1, 1) + datetime.timedelta(", "datetime.datetime(1971, 1, 1) + datetime.timedelta(", ["D14.7"])
# ------------------------------------------------------------------ D5.13 / Dn.I / D2.10 extension
M("C05", "template-name-takes-any-first", LX, '                if template_name is None and ";" in name:', '                if template_name is None or ";" in name:', ["D5.13"])
M("C05", "udt-range-upper-exclusive", LX, "        predefine = _type < 0x100 or _type > 0xEFF", "        predefine = _type < 0x100 or _type >= 0xEFF", ["D5.13"])
M("C05", "predefined-name-second", LX, "            template_name = member_names.pop(0)", "            template_name = member_names.pop(1)", ["D5.13"])
M("C05", "ascii82-not-renamed", LX, '        if template_name == "ASCIISTRING82":', '        if template_name == "ASCIISTRING80":', ["D5.13"])
M("C05", "unnamed-members-collide", LX, "                _unk_member_count += 1\n", "", ["D5.13"])
M("C05", "member-records-not-kept", LX, '            data_type["internal_tags"][member] = info\n', "", ["D5.13", "D5.7"])
M("C05", "string-length-not-recorded", LX, '            data_type["string"] = data_type["internal_tags"]["DATA"]["array"]\n', "", ["D5.13"])
T("C05", "template-name-partition", LX, '                    template_name, _ = name.split(";", maxsplit=1)', '                    template_name = name.partition(";")[0]')
T("C05", "udt-range-chained", LX, "        predefine = _type < 0x100 or _type > 0xEFF", "        predefine = not (0x100 <= _type <= 0xEFF)")
M("C01", "read-response-no-super-init", PL, "        self.value = None\n        self.data_type = None\n        super().__init__(request, raw_data)\n\n    def _parse_reply(self, dont_parse: bool = False):",
  "        self.value = None\n        self.data_type = None\n\n    def _parse_reply(self, dont_parse: bool = False):", ["D1.I"])
M("C01", "read-response-value-uninitialised", PL, "        self.value = None\n        self.data_type = None\n        super().__init__(request, raw_data)\n\n    def _parse_reply(self, dont_parse: bool = False):",
  "        super().__init__(request, raw_data)\n\n    def _parse_reply(self, dont_parse: bool = False):", ["D1.I"])
M("C02", "write-request-value-behind-branch", PL, "        self.value = request.value\n        self.data_type = request.data_type\n        super().__init__(request, raw_data)",
  "        if raw_data:\n            self.value = request.value\n        self.data_type = request.data_type\n        super().__init__(request, raw_data)", ["D2.I"])
M("C13", "response-tag-info-after-super", PL, "        self.tag_info = request.tag_info\n        super().__init__(request, raw_data)\n", "        super().__init__(request, raw_data)\n        self.tag_info = request.tag_info\n", ["D13.I", "D1.I"])
T("C01", "fragment-response-redundant-init-removed", PL, "        self.value = None\n        self._data_type = None\n        self.value_bytes = None\n", "        self._data_type = None\n        self.value_bytes = None\n")
# ------------------------------------------------------------------ packet-frame witnesses
M("C04", "fragment-offset-not-sent", PL, "        self._msg.append(UDINT.encode(self.offset))\n", "", ["D4.9"])
M("C04", "fragment-struct-prefix-inverted", PL, "            if self.data[:2] == STRUCTURE_READ_REPLY:", "            if self.data[:2] != STRUCTURE_READ_REPLY:", ["D4.9"])
M("C04", "read-continuation-default-offset-1", PL, "        request: Union[ReadTagRequestPacket, \"ReadTagFragmentedRequestPacket\"],\n        offset=0,", "        request: Union[ReadTagRequestPacket, \"ReadTagFragmentedRequestPacket\"],\n        offset=1,", ["D4.9"])
M("C09", "multi-service-router-instance-2", PL, "self.request_path = request_path(ClassCode.message_router, 1)", "self.request_path = request_path(ClassCode.message_router, 2)", ["D9.9"])
M("C02", "and-mask-bit-not-restored", PL, "            self._and_mask |= 1 << bit\n", "", ["D2.11"])
M("C02", "write-struct-branch-inverted", PL, '        if tag_info["tag_type"] == "struct":\n            if not isinstance(value, (bytes, bytearray)):', '        if tag_info["tag_type"] != "struct":\n            if not isinstance(value, (bytes, bytearray)):', ["D2.11"])
M("C02", "write-error-set-when-path-built", PL, '        if self.request_path is None:\n            self.error = f"Failed to build request path for tag"', '        if self.request_path is not None:\n            self.error = f"Failed to build request path for tag"', ["D2.11"])
M("C13", "command-status-test-inverted", PB, "        if self.command_status not in (None, SUCCESS):", "        if self.command_status in (None, SUCCESS):", ["D13.9"])
M("C13", "service-status-test-inverted", PB, "        if self.service_status not in (None, SUCCESS):", "        if self.service_status in (None, SUCCESS):", ["D13.9"])
M("C18", "added-data-not-appended", PB, "            self._msg += self._added\n", "", ["D18.14"])
M("C16", "list-identity-header-not-parsed", PE, "            super()._parse_reply()\n            self.data = self.raw[26:]", "            self.data = self.raw[26:]", ["D16.7"])
M("C01", "member-index-stale", PU, "            attr, index = _find_tag_index(attr)\n", "", ["D1.13"])
M("C01", "type-string-dword-inverted", PU, '    if dt_name == "DWORD":\n        dt_name = f"BOOL[{elements * 32}]"', '    if dt_name != "DWORD":\n        dt_name = f"BOOL[{elements * 32}]"', ["D1.13"])
M("C01", "multi-reply-members-not-collected", PL, "                self.responses.append(response)\n", "                pass\n", ["D1.12"])
M("C01", "read-reply-parsed-only-when-invalid", PL, "            if self.is_valid() and not dont_parse:", "            if not self.is_valid() and not dont_parse:", ["D1.12"])
M("C14", "generic-request-data-before-path", PC, "        self._msg += [self.service, req_path, self.request_data]", "        self._msg += [self.service, self.request_data, req_path]", ["D14.8"])
T("C04", "fragment-offset-augmented", PL, "        self._msg.append(UDINT.encode(self.offset))\n", "        self._msg += [UDINT.encode(self.offset)]\n")
T("C01", "tag-only-message-concatenated", PL, '        return b"".join((self.tag_service, self.request_path, UINT.encode(self.elements)))', "        return self.tag_service + self.request_path + UINT.encode(self.elements)")
T("C13", "command-status-test-spelled-out", PB, "        if self.command_status not in (None, SUCCESS):", "        if self.command_status is not None and self.command_status != SUCCESS:")
T("C01", "member-segments-extended", PU, '        segments += [LogicalSegment(int(idx), "member_id") for idx in index]\n\n        for attr in attrs:', '        segments.extend(LogicalSegment(int(idx), "member_id") for idx in index)\n\n        for attr in attrs:')
T("C02", "mask-size-lookup-split", PL, '        self._mask_size = getattr(DataTypes.get(self.data_type), "size", None)', '        _dt = DataTypes.get(self.data_type)\n        self._mask_size = _dt.size if _dt is not None else None')
# ------------------------------------------------------------------ Dn.R / D5.14
M("C05", "udt-cache-test-inverted", LX, '        if instance_id not in self._cache["id:udt"]:', '        if instance_id in self._cache["id:udt"]:', ["D5.14"])
M("C05", "udt-template-error-test-inverted", LX, '                if not template.get("error"):', '                if template.get("error"):', ["D5.14"])
M("C05", "udt-definition-not-cached", LX, '                    self._cache["id:udt"][instance_id] = data_type\n', "", ["D5.14"])
M("C05", "struct-makeup-not-cached", LX, '            self._cache["id:struct"][instance_id] = _struct\n', "", ["D5.14"])
M("C05", "symbol-list-reply-guard-inverted", LX, '                if not response:\n                    raise ResponseError(\n                        f"send_unit_data returned not valid data - {response.error}"', '                if response:\n                    raise ResponseError(\n                        f"send_unit_data returned not valid data - {response.error}"', ["D5.R"])
M("C14", "plc-name-reply-guard-inverted", LX, "            if not response:\n                raise ResponseError(f\"response did not return valid data - {response.error}\")\n\n            self._info[\"name\"]", "            if response:\n                raise ResponseError(f\"response did not return valid data - {response.error}\")\n\n            self._info[\"name\"]", ["D14.R"])
M("C05", "makeup-attributes-guard-inverted", LX, '    if not response:\n        structure["error"] = response.error\n        return', '    if response:\n        structure["error"] = response.error\n        return', ["D5.R"])
T("C05", "udt-cache-test-positive-form", LX, '        if instance_id not in self._cache["id:udt"]:', '        if not (instance_id in self._cache["id:udt"]):')
# ------------------------------------------------------------------ driver orchestration witnesses
M("C01", "read-bit-test-inverted", LX, "                        if bit is not None:\n                            result = Tag(", "                        if bit is None:\n                            result = Tag(", ["D1.14"])
M("C01", "read-bool-slice-test-inverted", LX, "                        if bool_elements is not None:\n                            bools = result.value[bit : bit + bool_elements]", "                        if bool_elements is None:\n                            bools = result.value[bit : bit + bool_elements]", ["D1.14"])
M("C01", "read-failed-reply-keeps-plc-name", LX, '                else:\n                    result = Tag(request_data["user_tag"], None, None, result.error)\n', "                else:\n                    pass\n", ["D1.14"])
M("C03", "write-two-arg-form-not-wrapped", LX, "            tags_values = ((*tags_values,),)\n", "            pass\n", ["D3.11"])
M("C03", "write-two-arg-test-or", LX, "        if len(tags_values) == 2 and isinstance(tags_values[0], str):", "        if len(tags_values) == 2 or isinstance(tags_values[0], str):", ["D3.11"])
M("C02", "multi-bit-test-inverted", LX, '                if bit is not None and tag_data["bool_elements"] is None:\n                    try:', '                if bit is not None and tag_data["bool_elements"] is not None:\n                    try:', ["D2.12"])
M("C03", "rmw-ids-collide", LX, "                                -1 * (1 + len(bit_writes)),", "                                -1 // (1 + len(bit_writes)),", ["D3.12"])
M("C03", "rmw-first-id-zero", LX, "                                -1 * (1 + len(bit_writes)),", "                                -1 * (0 + len(bit_writes)),", ["D3.12"])
M("C02", "single-bit-not-set", LX, '                request.set_bit(bit, parsed_tag["value"], parsed_tag["request_id"])\n            else:', "                pass\n            else:", ["D2.12"])
M("C04", "single-write-size-difference", LX, 'req_size = len(parsed_tag["write_value"]) + len(request.message)', 'req_size = len(parsed_tag["write_value"]) - len(request.message)', ["D4.11"])
M("C03", "write-dispatch-always-single", LX, "    def _write_build_requests(self, parsed_tags):\n        if len(parsed_tags) != 1 and not self._micro800:", "    def _write_build_requests(self, parsed_tags):\n        if len(parsed_tags) != 1 and self._micro800:", ["D3.12"])
M("C01", "read-dispatch-micro800-multi", LX, "    def _read_build_requests(self, parsed_tags):\n        if len(parsed_tags) != 1 and not self._micro800:", "    def _read_build_requests(self, parsed_tags):\n        if len(parsed_tags) != 1 or not self._micro800:", ["D1.15"])
M("C01", "send-requests-read-write-swapped", LX, '                            response.value if request.type_ == "read" else request.value,', '                            response.value if request.type_ != "read" else request.value,', ["D1.16"])
M("C13", "multi-member-error-and", LX, "                                req.tag, None, None, req.error or resp.error", "                                req.tag, None, None, req.error and resp.error", ["D13.10"])
M("C04", "fragment-read-unbuildable-sent", LX, "    ) -> ReadTagFragmentedResponsePacket:\n        if not request.error:", "    ) -> ReadTagFragmentedResponsePacket:\n        if request.error:", ["D4.10"])
M("C04", "fragment-read-not-parsed", LX, "                final_response.parse_value()\n", "", ["D4.10"])
M("C03", "fragment-write-replies-not-kept", LX, "                responses.append(_response)\n", "", ["D3.14"])
M("C05", "tag-list-registers-not-reset", LX, '            self._info["programs"] = {}\n', "", ["D5.15"])
M("C05", "tag-list-program-tags-dropped", LX, "                tags += self._get_tag_list(prog)\n", "                pass\n", ["D5.15"])
M("C05", "tag-list-cache-test-inverted", LX, "        if cache:\n            self._tags = {", "        if not cache:\n            self._tags = {", ["D5.15"])
M("C05", "symbol-list-program-prefix-missing", LX, '                        program = f"Program:{program}"\n', "                        pass\n", ["D5.16"])
M("C05", "symbol-list-loop-test-le", LX, "            while stream.tell() < tags_returned_length:", "            while stream.tell() <= tags_returned_length:", ["D5.16"])
M("C01", "tag-info-member-test-inverted", LX, "                if curr_tag in data:\n                    return _recurse_attrs(", "                if curr_tag not in data:\n                    return _recurse_attrs(", ["D1.17"])
M("C01", "parsed-request-not-merged", LX, "                    parsed.update(parsed_request)\n", "                    pass\n", ["D1.17"])
M("C14", "set-time-attribute-7", LX, "                [1, 6, microseconds]", "                [1, 7, microseconds]", ["D14.9"])
M("C14", "plc-name-not-kept", LX, '            self._info["name"] = response.value\n            return self._info["name"]', '            return response.value', ["D14.9"])
M("C16", "plc-info-guard-inverted", LX, '            if not response:\n                raise ResponseError(f"get_plc_info did not return valid data - {response.error}")', '            if response:\n                raise ResponseError(f"get_plc_info did not return valid data - {response.error}")', ["D16.8", "D16.R"])
T("C01", "read-bit-mask-parenthesised", LX, "                                bool(result.value & 1 << bit),", "                                bool((result.value >> bit) & 1),")
T("C03", "write-normalise-via-list", LX, "            tags_values = ((*tags_values,),)\n", "            tags_values = [tuple(tags_values)]\n")
T("C02", "rmw-id-negated-sum", LX, "                                -1 * (1 + len(bit_writes)),", "                                -(len(bit_writes) + 1),")
T("C05", "tag-list-else-first", LX, '        if program == "*":\n            tags = self._get_tag_list()\n            for prog in self._info["programs"]:\n                tags += self._get_tag_list(prog)\n        else:\n            tags = self._get_tag_list(program)\n',
  '        if program != "*":\n            tags = self._get_tag_list(program)\n        else:\n            tags = self._get_tag_list()\n            for prog in self._info["programs"]:\n                tags += self._get_tag_list(prog)\n')
T("C01", "send-requests-value-precomputed", LX, '                    if response:\n                        results[request.request_id] = Tag(\n                            request.tag,\n                            response.value if request.type_ == "read" else request.value,',
  '                    if response:\n                        _is_read = request.type_ == "read"\n                        results[request.request_id] = Tag(\n                            request.tag,\n                            response.value if _is_read else request.value,')
T("C12", "header-unpacked-in-one-go", "pycomm3/socket_.py", '            data_len = struct.unpack_from("<H", data, 2)[0]', '            _command, data_len = struct.unpack_from("<HH", data)')
M("C17", "cycle-never-reset", "pycomm3/util.py", "        if val > stop:\n            val = start\n", "        if val > stop:\n            pass\n", ["D17.1"])
