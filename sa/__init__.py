"""Static analysis machinery for the pycomm3 properties (see /verif/DESIGN.md)."""
