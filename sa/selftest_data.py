"""Mutants (property-breaking edits the rules must report) and twins (behaviour-preserving
rewrites the rules must stay silent on).  Each edit is (relative path, old text, new text),
applied once to the current source in memory."""

DT = "pycomm3/cip/data_types.py"
CT = "pycomm3/custom_types.py"
SOCK = "pycomm3/socket_.py"
PB = "pycomm3/packets/base.py"
PE = "pycomm3/packets/ethernetip.py"
PC = "pycomm3/packets/cip.py"
PL = "pycomm3/packets/logix.py"
PU = "pycomm3/packets/util.py"
SV = "pycomm3/cip/services.py"
MAP = "pycomm3/map.py"
UT = "pycomm3/util.py"
CD = "pycomm3/cip_driver.py"
LX = "pycomm3/logix_driver.py"
SLC = "pycomm3/slc_driver.py"
CONST = "pycomm3/const.py"
TAG = "pycomm3/tag.py"
PCCC = "pycomm3/cip/pccc.py"
OBJ = "pycomm3/cip/object_library.py"

MUTANTS = {}
TWINS = {}


def M(prop, mid, rel, old, new, rules=None, more=None):
    MUTANTS.setdefault(prop, []).append({"id": f"{prop}-m-{mid}", "edits": [(rel, old, new)] + (more or []), "rules": rules or []})


def T(prop, tid, rel, old, new, more=None):
    TWINS.setdefault(prop, []).append({"id": f"{prop}-t-{tid}", "edits": [(rel, old, new)] + (more or [])})


# ------------------------------------------------------------------ C06
M("C06", "dint-size3", DT, 'code = 0xC4  #: 0xC4\n    size = 4', 'code = 0xC4  #: 0xC4\n    size = 3', ["D6.1"])
M("C06", "dt-swap-decode", DT, "return UDINT.decode(stream), UINT.decode(stream)", "return UINT.decode(stream), UDINT.decode(stream)", ["D6.2"])
M("C06", "str-lentype-decode-only", DT, "        str_len = cls.len_type.decode(stream)\n        if str_len == 0:\n            return \"\"\n        str_data = cls._stream_read(stream, str_len)\n", "        str_len = UINT.decode(stream)\n        if str_len == 0:\n            return \"\"\n        str_data = cls._stream_read(stream, str_len)\n", ["D6.2"])
M("C06", "string2-no-scale", DT, "str_data = cls._stream_read(stream, str_len * 2)", "str_data = cls._stream_read(stream, str_len)", ["D6.3"])
M("C06", "second-bytesio", DT, "        data = cls._stream_read(stream, cls.size)\n        return unpack(cls._format, data)[0]", "        stream = BytesIO(stream.getvalue())\n        data = cls._stream_read(stream, cls.size)\n        return unpack(cls._format, data)[0]", ["D6.4"])
M("C06", "struct-reversed-dict", DT, "return b\"\".join(typ.encode(values[typ.name]) for typ in cls.members)", "return b\"\".join(typ.encode(values[typ.name]) for typ in reversed(cls.members))", ["D6.5"])
M("C06", "fixed-le", DT, "if len(values) < _length:", "if len(values) <= _length:", ["D6.6"])
M("C06", "array-bound-length", DT, "for _ in range(_len)]", "for _ in range(_length)]", ["D6.2"])
M("C06", "array-no-prefix", DT, "                    return _length.encode(_len) + encoded\n", "                    return encoded\n", ["D6.2"])
M("C06", "array-isinstance-only", DT, "    return isinstance(length, DataType) or (\n        isinstance(length, type) and issubclass(length, DataType)\n    )", "    return isinstance(length, DataType)", ["D6.2"])
M("C06", "serial-04x", CT, "values[\"serial\"] = f\"{values['serial']:08x}\"\n\n        return values\n\n    @classmethod\n    def _encode", "values[\"serial\"] = f\"{values['serial']:04x}\"\n\n        return values\n\n    @classmethod\n    def _encode", ["D6.2"])
M("C06", "stringn-count-only", DT, "data = cls._stream_read(stream, char_count * char_size)", "data = cls._stream_read(stream, char_count)", ["D6.3"])
M("C06", "decode-raw-buffer", DT, "            stream = _as_stream(buffer)\n            return cls._decode(stream)", "            stream = _as_stream(buffer)\n            return cls._decode(_as_stream(buffer))", ["D6.4"])
M("C06", "bitchunk-7", DT, "chunk_size = cls.element_type.size * 8", "chunk_size = cls.element_type.size * 7", ["D6.6"])
T("C06", "rename-local", DT, "        str_len = cls.len_type.decode(stream)\n        if str_len == 0:\n            return \"\"\n        str_data = cls._stream_read(stream, str_len)\n\n        return str_data.decode(cls.encoding)", "        n_chars = cls.len_type.decode(stream)\n        if n_chars == 0:\n            return \"\"\n        raw = cls._stream_read(stream, n_chars)\n\n        return raw.decode(cls.encoding)")
T("C06", "format-concat", DT, '    _format = "<h"', '    _format = "<" + "h"')
T("C06", "string2-shift", DT, "str_data = cls._stream_read(stream, str_len * 2)", "str_data = cls._stream_read(stream, 2 * str_len)")

# ------------------------------------------------------------------ C07
M("C07", "int-bigendian", DT, '    _format = "<h"', '    _format = ">h"', ["D7.1"])
M("C07", "int-unsigned", DT, '    _format = "<h"', '    _format = "<H"', ["D7.1"])
M("C07", "code-swap", DT, "    code = 0xC3  #: 0xC3", "    code = 0xC7  #: 0xC3", ["D7.1"])
M("C07", "bool-01", DT, 'return b"\\xFF" if value else b"\\x00"', 'return b"\\x01" if value else b"\\x00"', ["D7.2"])
M("C07", "bool-decode-ff", DT, 'return data != b"\\x00"', 'return data == b"\\xFF"', ["D7.2"])
M("C07", "string-prefix-usint", DT, "    code = 0xD0  #: 0xD0\n    len_type = UINT", "    code = 0xD0  #: 0xD0\n    len_type = USINT", ["D7.3"])
M("C07", "string2-utf8", DT, '    encoding = "utf-16-le"', '    encoding = "utf-8"', ["D7.3"])
M("C07", "bit-msb", DT, "_value |= 1 << i", "_value |= 1 << (len(value) - 1 - i)", ["D7.4"])
M("C07", "bit-no-reverse", DT, "        bools.reverse()\n        return bools", "        return bools", ["D7.4"])
M("C07", "datatypes-int-uint", DT, "    int = INT\n", "    int = UINT\n", ["D7.5"])
M("C07", "lreal-float", DT, '    _format = "<d"', '    _format = "<f"', ["D7.1"])
M("C07", "fixed-pad-ff", CT, '+ b"\\x00" * (cls.size - len(value))', '+ b"\\xff" * (cls.size - len(value))', ["D7.3"])
M("C07", "structtag-bit-swap", CT, "value[offset] |= 1 << bit", "value[offset] |= 1 << (7 - bit)", ["D7.6"])
M("C07", "structtag-decode-bit", CT, "bit_value = bool(raw[offset] & (1 << bit))", "bit_value = bool(raw[offset] & (1 << offset))", ["D7.6"])
M("C07", "array-join-sep", DT, 'encoded = b"".join(cls.element_type.encode(values[i]) for i in range(_len))', 'encoded = b"\\x00".join(cls.element_type.encode(values[i]) for i in range(_len))', ["D7.6"])
M("C07", "word-host-usint", DT, "    code = 0xD2  #: 0xD2\n    size = 2\n    host_type = UINT", "    code = 0xD2  #: 0xD2\n    size = 2\n    host_type = USINT", ["D7.1"])
T("C07", "format-concat", DT, '    _format = "<h"', '    _format = "<" + "h"')
T("C07", "code-decimal", DT, "    code = 0xC3  #: 0xC3", "    code = 195")
T("C07", "bool-const", DT, 'return b"\\xFF" if value else b"\\x00"', 'return bytes([255]) if value else bytes(1)')

# ------------------------------------------------------------------ C08
M("C08", "encode-except-valueerror", DT, "            return cls._encode(value)\n        except Exception as err:", "            return cls._encode(value)\n        except ValueError as err:", ["D8.1"])
M("C08", "decode-no-passthrough", DT, "        except Exception as err:\n            if isinstance(err, BufferEmptyError):\n                raise\n            else:\n                raise DataError(\n                    f\"Error unpacking {_repr(buffer)} as {cls.__name__}\"\n                ) from err\n\n    @classmethod\n    def _decode(cls, stream: BytesIO) -> Any:\n        ...", "        except Exception as err:\n            raise DataError(\n                f\"Error unpacking {_repr(buffer)} as {cls.__name__}\"\n            ) from err\n\n    @classmethod\n    def _decode(cls, stream: BytesIO) -> Any:\n        ...", ["D8.1"])
M("C08", "stringn-no-try", DT, "        try:\n            encoding = cls.ENCODINGS[char_size]\n            return (\n                UINT.encode(char_size)\n                + UINT.encode(len(value))\n                + value.encode(encoding)\n            )\n        except Exception as err:\n            raise DataError(\n                f\"Error encoding {value!r} as STRINGN using char. size {char_size}\"\n            ) from err", "        encoding = cls.ENCODINGS[char_size]\n        return (\n            UINT.encode(char_size)\n            + UINT.encode(len(value))\n            + value.encode(encoding)\n        )", ["D8.2"])
M("C08", "stream-read-no-empty", DT, "        if not data:\n            raise BufferEmptyError()\n        if len(data) < size:", "        if len(data) < size:", ["D8.3"])
M("C08", "stream-read-no-short", DT, "        if len(data) < size:\n            raise DataError(f\"Not enough data, expected {size} bytes and got {len(data)}\")\n", "", ["D8.3"])
M("C08", "raw-read-elementary", DT, "        data = cls._stream_read(stream, cls.size)\n        return unpack(cls._format, data)[0]", "        data = stream.read(cls.size)\n        return unpack(cls._format, data)[0]", ["D8.3"])
M("C08", "decode-all-catch-dataerror", DT, "                except BufferEmptyError:\n                    break", "                except DataError:\n                    break", ["D8.4"])
M("C08", "handler-raise-valueerror", DT, "            raise DataError(f\"Error packing {value!r} as {cls.__name__}\") from err", "            raise ValueError(f\"Error packing {value!r} as {cls.__name__}\") from err", ["D8.1"])
M("C08", "array-len-outside", DT, "            _length = length or cls.length\n            try:\n                if isinstance(_length, int):", "            _length = length or cls.length\n            n_values = len(values)\n            try:\n                if isinstance(_length, int):", ["D8.2"])
M("C08", "short-before-empty", DT, "        if not data:\n            raise BufferEmptyError()\n        if len(data) < size:\n            raise DataError(f\"Not enough data, expected {size} bytes and got {len(data)}\")\n", "        if len(data) < size:\n            raise DataError(f\"Not enough data, expected {size} bytes and got {len(data)}\")\n        if not data:\n            raise BufferEmptyError()\n", ["D8.3"])
M("C08", "hierarchy", "pycomm3/exceptions.py", "class BufferEmptyError(DataError):", "class BufferEmptyError(PycommError):", ["D8.1"])
M("C08", "cipsegment-no-try", DT, "        try:\n            return cls._encode(segment, padded)\n        except Exception as err:\n            raise DataError(\n                f\"Error packing {reprlib.repr(segment)} as {cls.__name__}\"\n            ) from err", "        return cls._encode(segment, padded)", ["D8.2", "D8.5"])
T("C08", "len-ne", DT, "        if len(data) < size:\n            raise DataError(", "        if size > len(data):\n            raise DataError(")
T("C08", "empty-len0", DT, "        if not data:\n            raise BufferEmptyError()", "        if len(data) == 0:\n            raise BufferEmptyError()")
T("C08", "rename-err", DT, "            return cls._encode(value)\n        except Exception as err:\n            raise DataError(f\"Error packing {value!r} as {cls.__name__}\") from err", "            return cls._encode(value)\n        except Exception as exc:\n            raise DataError(f\"Error packing {value!r} as {cls.__name__}\") from exc")

# ------------------------------------------------------------------ C12
M("C12", "no-empty-check", SOCK, "        if not chunk:\n            raise CommError(\"socket connection broken.\")\n        return chunk", "        return chunk", ["D12.1"])
M("C12", "no-header-wait", SOCK, "            while len(data) < HEADER_SIZE:\n                data += self._recv(256)\n", "", ["D12.2"])
M("C12", "completion-le", SOCK, "while len(data) - HEADER_SIZE < data_len:", "while len(data) - HEADER_SIZE <= data_len:", ["D12.3"])
M("C12", "length-offset-4", SOCK, 'struct.unpack_from("<H", data, 2)[0]', 'struct.unpack_from("<H", data, 4)[0]', ["D12.3"])
M("C12", "length-bigendian", SOCK, 'struct.unpack_from("<H", data, 2)[0]', 'struct.unpack_from(">H", data, 2)[0]', ["D12.3"])
M("C12", "header-size-20", CONST, "HEADER_SIZE = 24", "HEADER_SIZE = 20", ["D12.3"])
M("C12", "except-timeout-only", SOCK, "            return data\n        except socket.error as err:", "            return data\n        except socket.timeout as err:", ["D12.4"])
M("C12", "send-slice-sent", SOCK, "sent = self.sock.send(msg[total_sent:])", "sent = self.sock.send(msg[sent:])", ["D12.5"])
M("C12", "send-no-zero-check", SOCK, "                if sent == 0:\n                    raise CommError(\"socket connection broken.\")\n", "", ["D12.5"])
M("C12", "send-total-assign", SOCK, "total_sent += sent", "total_sent = sent", ["D12.5"])
M("C12", "send-cond-le", SOCK, "while total_sent < len(msg):", "while total_sent < len(msg) - 1:", ["D12.5"])
M("C12", "recv-direct-in-loop", SOCK, "            while len(data) - HEADER_SIZE < data_len:\n                data += self._recv(256)", "            while len(data) - HEADER_SIZE < data_len:\n                data += self.sock.recv(256)", ["D12.1"])
M("C12", "raise-oserror", SOCK, "            raise CommError(\"socket connection broken.\")\n        return chunk", "            raise ConnectionError(\"socket connection broken.\")\n        return chunk", ["D12.1", "D12.4"])
T("C12", "completion-rearranged", SOCK, "while len(data) - HEADER_SIZE < data_len:", "while len(data) < HEADER_SIZE + data_len:")
T("C12", "header-4", SOCK, "            while len(data) < HEADER_SIZE:", "            while len(data) < 4:")
T("C12", "empty-len", SOCK, "        if not chunk:\n            raise CommError", "        if len(chunk) == 0:\n            raise CommError")

# ------------------------------------------------------------------ C13
M("C13", "base-any", PB, "        return all(\n            (\n                self._error is None,\n                self.command is not None,\n                self.command_status == SUCCESS,\n            )\n        )", "        return any(\n            (\n                self._error is None,\n                self.command is not None,\n                self.command_status == SUCCESS,\n            )\n        )", ["D13.1"])
M("C13", "status6-all-services", PE, "        valid = self.service_status == SUCCESS or (\n            self.service_status == INSUFFICIENT_PACKETS\n            and self.service in MULTI_PACKET_SERVICES\n        )", "        valid = self.service_status == SUCCESS or (\n            self.service_status == INSUFFICIENT_PACKETS\n        )", ["D13.1"])
M("C13", "rr-no-status", PE, "return all((super().is_valid(), self.service_status == SUCCESS))", "return all((super().is_valid(), self.service_status is not None))", ["D13.1"])
M("C13", "unit-status-offset", PE, "self.service_status = USINT.decode(self.raw[48:49])", "self.service_status = USINT.decode(self.raw[47:48])", ["D13.2"])
M("C13", "ext-start-49", PE, "        status = get_service_status(self.service_status)\n        ext_status = get_extended_status(self.raw, 48)", "        status = get_service_status(self.service_status)\n        ext_status = get_extended_status(self.raw, 49)", ["D13.2"])
M("C13", "rr-data-offset", PE, "self.data = self.raw[44:]", "self.data = self.raw[42:]", ["D13.2"])
M("C13", "multi-uncontained", PL, "        super()._parse_reply()\n        try:\n            num_replies = UINT.decode(self.data)", "        super()._parse_reply()\n        num_replies_hint = UINT.decode(self.data)\n        try:\n            num_replies = UINT.decode(self.data)", ["D13.3"])
M("C13", "generic-decode-outside", PC, "        elif self.is_valid():\n            try:\n                self.value = self.data_type.decode(self.data)\n            except Exception as err:\n                self.__log.exception(\"Failed to parse reply\")\n                self._error = f\"Failed to parse reply - {err}\"\n                self.value = None\n\n\nclass GenericConnectedRequestPacket", "        elif self.is_valid():\n            self.value = self.data_type.decode(self.data)\n\n\nclass GenericConnectedRequestPacket", ["D13.3"])
M("C13", "remove-frag-from-set", SV, "    Services.read_tag_fragmented,\n", "", ["D13.4"])
M("C13", "add-read-tag-to-set", SV, "    Services.read_tag_fragmented,\n", "    Services.read_tag_fragmented,\n    Services.read_tag,\n", ["D13.4"])
M("C13", "from-reply-127", SV, "USINT.decode(reply_service) - 128", "USINT.decode(reply_service) - 127", ["D13.4"])
M("C13", "error-none", PB, '        return "Unknown Error"\n\n    def is_valid', "        return None\n\n    def is_valid", ["D13.5"])
M("C13", "status-no-default", PU, 'return SERVICE_STATUS.get(status, f"Unknown Error ({status:0>2x})")', "return SERVICE_STATUS.get(status)", ["D13.5"])
M("C13", "falsy-sub-with-value", LX, "                            results[req.request_id] = Tag(\n                                req.tag, None, None, req.error or resp.error\n                            )", "                            results[req.request_id] = Tag(\n                                req.tag, resp.value, None, req.error or resp.error\n                            )", ["D13.6"])
M("C13", "handler-swallow", PE, "            self.session = UDINT.decode(self.raw[4:8])\n        except Exception as err:\n            self.__log.exception(\"Failed to parse reply\")\n            self._error = f\"Failed to parse reply - {err}\"", "            self.session = UDINT.decode(self.raw[4:8])\n        except Exception as err:\n            self.__log.exception(\"Failed to parse reply\")", ["D13.3"])
M("C13", "bool-true", PB, "    def __bool__(self):\n        return self.is_valid()", "    def __bool__(self):\n        return self._error is None", ["D13.1"])
M("C13", "ext-size-words", PU, "extended_status_size = USINT.decode(stream) * 2", "extended_status_size = USINT.decode(stream)", ["D13.2"])
M("C13", "no-data-no-error", PB, "        else:\n            self._error = \"No response data received\"", "        else:\n            pass", ["D13.3"])
T("C13", "all-to-and", PB, "        return all(\n            (\n                self._error is None,\n                self.command is not None,\n                self.command_status == SUCCESS,\n            )\n        )", "        return self._error is None and self.command is not None and self.command_status == 0")
T("C13", "valid-inline", PE, "        valid = self.service_status == SUCCESS or (\n            self.service_status == INSUFFICIENT_PACKETS\n            and self.service in MULTI_PACKET_SERVICES\n        )\n        return all((super().is_valid(), valid))", "        if not super().is_valid():\n            return False\n        if self.service_status == 0:\n            return True\n        return self.service_status == 6 and self.service in MULTI_PACKET_SERVICES")
T("C13", "offset-const", PE, "self.service_status = USINT.decode(self.raw[48:49])", "self.service_status = USINT.decode(self.raw[48 : 48 + 1])")

# ------------------------------------------------------------------ C17
M("C17", "start-eq-stop", CD, "cycle(65535, start=1)", "cycle(65535, start=65535)", ["D17.1"])
M("C17", "stop-70000", CD, "cycle(65535, start=1)", "cycle(70000, start=1)", ["D17.1"])
M("C17", "no-increment", UT, "        yield val\n        val += 1", "        yield val", ["D17.1"])
M("C17", "reset-after-yield", UT, "        if val > stop:\n            val = start\n\n        yield val\n        val += 1", "        yield val\n        val += 1\n        if val > stop:\n            val = stop", ["D17.1"])
M("C17", "from-request-copies", PL, "        new_request = cls(\n            next(sequence),\n            request.tag,\n            request.elements,\n            request.tag_info,\n            request.request_id,\n            request._use_instance_id,\n            offset,\n        )\n        new_request.request_path = request.request_path", "        new_request = cls(\n            request._sequence,\n            request.tag,\n            request.elements,\n            request.tag_info,\n            request.request_id,\n            request._use_instance_id,\n            offset,\n        )\n        new_request.request_path = request.request_path", ["D17.2"])
M("C17", "second-cycle-in-open", CD, "            self._connection_opened = True\n            self._cfg[\"cid\"] = urandom(4)", "            self._connection_opened = True\n            self._sequence = cycle(65535, start=1)\n            self._cfg[\"cid\"] = urandom(4)", ["D17.4"])
M("C17", "init-no-next", PE, "self._sequence = next(sequence) if isinstance(sequence, Generator) else sequence", "self._sequence = sequence", ["D17.2"])
M("C17", "seq-not-first", PE, "        super()._setup_message()\n        self._msg.append(UINT.encode(self._sequence))\n\n    def build_request(", "        super()._setup_message()\n        self._msg.append(b\"\")\n        self._msg.append(UINT.encode(self._sequence))\n\n    def build_request(", ["D17.3"])
M("C17", "seq-usint", PE, "self._msg.append(UINT.encode(self._sequence))", "self._msg.append(USINT.encode(self._sequence))", ["D17.3"])
M("C17", "literal-seq", SLC, "        request = SendUnitDataRequestPacket(self._sequence)\n        request.add(b\"\".join(message_request))\n        response = self.send(request)\n        self.__log.debug(f\"SLC read_tag({tag})\")", "        request = SendUnitDataRequestPacket(1)\n        request.add(b\"\".join(message_request))\n        response = self.send(request)\n        self.__log.debug(f\"SLC read_tag({tag})\")", ["D17.2"])
T("C17", "ge-plus1", UT, "        if val > stop:", "        if val >= stop + 1:")
T("C17", "assign-plus", UT, "        val += 1", "        val = val + 1")

# ------------------------------------------------------------------ C19
M("C19", "contains-no-lower", MAP, "        return cls._members_.__contains__(\n            item.lower() if isinstance(item, str) else item\n        )", "        return cls._members_.__contains__(item)", ["D19.2"])
M("C19", "reverse-keyed-by-key", MAP, "_value_key(value): key.lower() for key, value in members.items()", "key.lower(): _value_key(value) for key, value in members.items()", ["D19.1"])
M("C19", "caps-only-in-get", MAP, "        val = cls._members_.__getitem__(_key(item))\n        if cls._return_caps_only_ and isinstance(val, str):\n            val = val.upper()\n        return val", "        val = cls._members_.__getitem__(_key(item))\n        return val", ["D19.2"])
M("C19", "no-lower-merge", MAP, "enumcls._members_ = {**members, **lower_members, **value_map}", "enumcls._members_ = {**members, **value_map}", ["D19.1"])
M("C19", "key-upper", MAP, "    return item.lower() if isinstance(item, str) else item", "    return item.upper() if isinstance(item, str) else item", ["D19.2"])
M("C19", "case-collision", SV, "    forward_close = b\"\\x4E\"\n", "    forward_close = b\"\\x4E\"\n    Forward_Close = b\"\\x4F\"\n", ["D19.3"])
M("C19", "read-tag-4b", SV, '    read_tag = b"\\x4C"', '    read_tag = b"\\x4B"', ["D19.4"])
M("C19", "send-rr-6e", SV, '    send_rr_data = b"\\x6F\\x00"', '    send_rr_data = b"\\x6E\\x00"', ["D19.4"])
M("C19", "status-default", PU, 'return SERVICE_STATUS.get(status, f"Unknown Error ({status:0>2x})")', 'return SERVICE_STATUS.get(status, "Unknown Error")', ["D19.5"])
M("C19", "value-key-name", DT, "def _by_type_code(typ: ElementaryDataType):\n    return typ.code", "def _by_type_code(typ: ElementaryDataType):\n    return typ.size", ["D7.5", "D19.3"])
M("C19", "getitem-get", MAP, "val = cls._members_.__getitem__(_key(item))", "val = cls._members_.get(_key(item))", ["D19.2"])
T("C19", "inline-key", MAP, "        val = cls._members_.get(_key(item), default)", "        val = cls._members_.get(item.lower() if isinstance(item, str) else item, default)")
T("C19", "hex-case", SV, '    read_tag = b"\\x4C"', '    read_tag = b"\\x4c"')

# ------------------------------------------------------------------ C10
M("C10", "undecorate-slc-read", SLC, "    @with_forward_open\n    def read(self, *addresses: str)", "    def read(self, *addresses: str)", ["D10.1"])
M("C10", "undecorate-logix-write", LX, "    @with_forward_open\n    def write(\n", "    def write(\n", ["D10.1"])
M("C10", "generic-no-guard", CD, "        if connected:\n            with_forward_open(lambda _: None)(self)\n", "", ["D10.1"])
M("C10", "guard-call-when-not-opened", CD, "        if not opened:\n            msg = f\"Target did not connected. {func.__name__} will not be executed.\"\n            raise ResponseError(msg)\n        return func(self, *args, **kwargs)", "        if not opened:\n            msg = f\"Target did not connected. {func.__name__} will not be executed.\"\n            logger.error(msg)\n        return func(self, *args, **kwargs)", ["D10.2"])
M("C10", "guard-no-size-500", CD, "                self._cfg[\"extended forward open\"] = False\n                self._cfg[\"connection_size\"] = 500\n", "                self._cfg[\"extended forward open\"] = False\n", ["D10.2"])
M("C10", "guard-no-flag-clear", CD, "                self._cfg[\"extended forward open\"] = False\n                self._cfg[\"connection_size\"] = 500\n", "                self._cfg[\"connection_size\"] = 500\n", ["D10.2"])
M("C10", "guard-opened-true-default", CD, "        opened = False\n        if self._cfg[\"extended forward open\"]:\n            logger.info(\"Attempting", "        opened = True\n        if self._cfg[\"extended forward open\"]:\n            logger.info(\"Attempting", ["D10.2"])
M("C10", "connected-before-response", CD, "        if response:\n            self._target_cid = response.value[:4]\n            self._target_is_connected = True\n", "        self._target_is_connected = True\n        if response:\n            self._target_cid = response.value[:4]\n", ["D10.3"])
M("C10", "no-session-check", CD, "        if self._session == 0:\n            raise CommError(\"A session must be registered before a Forward Open\")\n\n        init_net_params", "        init_net_params", ["D10.3"])
M("C10", "close-no-session-reset", CD, "        self._target_is_connected = False\n        self._session = 0\n        self._connection_opened = False\n\n        if errs:", "        self._target_is_connected = False\n        self._connection_opened = False\n\n        if errs:", ["D10.4"])
M("C10", "close-resets-in-try", CD, "        try:\n            if self._sock:\n                self._sock.close()\n        except Exception as err:\n            errs.append(err)\n            self.__log.exception(\"Error closing socket connection\")\n\n        self._sock = None\n        self._target_is_connected = False", "        try:\n            if self._sock:\n                self._sock.close()\n            self._target_is_connected = False\n        except Exception as err:\n            errs.append(err)\n            self.__log.exception(\"Error closing socket connection\")\n\n        self._sock = None", ["D10.4"])
M("C10", "close-except-commerror", CD, "                self._un_register_session()\n        except Exception as err:", "                self._un_register_session()\n        except CommError as err:", ["D10.4"])
M("C10", "close-unregister-first", CD, "            if self._target_is_connected:\n                self._forward_close()\n            if self._session != 0:\n                self._un_register_session()", "            if self._session != 0:\n                self._un_register_session()\n            if self._target_is_connected:\n                self._forward_close()", ["D10.5"])
M("C10", "exit-no-close", CD, "        try:\n            self.close()\n        except CommError:", "        try:\n            if not exc_type:\n                self.close()\n        except CommError:", ["D10.6"])
M("C10", "send-except-oserror", CD, "            self._sock.send(message)\n        except Exception as err:", "            self._sock.send(message)\n        except OSError as err:", ["D10.7"])
M("C10", "fo-pad-length", CD, "route_path = PADDED_EPATH.encode(self._cfg[\"cip_path\"] + MSG_ROUTER_PATH, length=True)", "route_path = PADDED_EPATH.encode(self._cfg[\"cip_path\"] + MSG_ROUTER_PATH, length=True, pad_length=True)", ["D10.8"])
M("C10", "fo-mask-ff", CD, "(self.connection_size & 0x01FF) | init_net_params", "(self.connection_size & 0x00FF) | init_net_params", ["D10.8"])
M("C10", "fo-swap-vid-csn", CD, "            self._cfg[\"cid\"],\n            self._cfg[\"csn\"],\n            self._cfg[\"vid\"],", "            self._cfg[\"cid\"],\n            self._cfg[\"vid\"],\n            self._cfg[\"csn\"],", ["D10.8"])
M("C10", "urandom-2", CD, "self._cfg[\"vsn\"] = urandom(4)", "self._cfg[\"vsn\"] = urandom(2)", ["D10.8"])
M("C10", "open-true-without-register", CD, "            if self._register_session() is None:\n                self.__log.error(\"Session not registered\")\n                return False\n            return True", "            if self._register_session() is None:\n                self.__log.error(\"Session not registered\")\n            return True", ["D10.3"])
M("C10", "fc-flag-always", CD, "        if response:\n            self._target_is_connected = False\n            self.__log.info(\"Forward Close succeeded.\")", "        self._target_is_connected = False\n        if response:\n            self.__log.info(\"Forward Close succeeded.\")", ["D10.5"])
T("C10", "session-falsy", CD, "            if self._session != 0:\n                self._un_register_session()", "            if self._session:\n                self._un_register_session()")
T("C10", "reorder-resets", CD, "        self._sock = None\n        self._target_is_connected = False\n        self._session = 0", "        self._session = 0\n        self._target_is_connected = False\n        self._sock = None")

# ------------------------------------------------------------------ C11
M("C11", "swap-session-status", PB, "                    UDINT.encode(session_id),  # Session Handle UDINT\n                    b\"\\x00\\x00\\x00\\x00\",  # Status UDINT", "                    b\"\\x00\\x00\\x00\\x00\",  # Status UDINT\n                    UDINT.encode(session_id),  # Session Handle UDINT", ["D11.1"])
M("C11", "length-plus-24", PB, "self._encap_command, len(common), session_id, context, option", "self._encap_command, len(common) + 24, session_id, context, option", ["D11.2"])
M("C11", "length-of-msg", PB, "self._encap_command, len(common), session_id, context, option", "self._encap_command, len(msg), session_id, context, option", ["D11.2"])
M("C11", "item-count-1", PB, 'b"\\x02\\x00",  # Item count', 'b"\\x01\\x00",  # Item count', ["D11.3"])
M("C11", "addr-len-of-message", PB, "else UINT.encode(len(addr_data)) + addr_data", "else UINT.encode(len(message)) + addr_data", ["D11.3"])
M("C11", "data-len-usint", PB, "                UINT.encode(len(message)),\n                message,", "                USINT.encode(len(message)),\n                message,", ["D11.3"])
M("C11", "unit-data-b2", PE, "    _message_type = DataItem.connected\n    _address_type = AddressItem.connection", "    _message_type = DataItem.unconnected\n    _address_type = AddressItem.connection", ["D11.4"])
M("C11", "connected-code", PE, '    connected = b"\\xb1\\x00"', '    connected = b"\\xb3\\x00"', ["D11.4"])
M("C11", "append-before-super", PL, "    def _setup_message(self):\n        super()._setup_message()\n        self._msg += [Services.multiple_service_request, self.request_path]", "    def _setup_message(self):\n        self._msg += [Services.multiple_service_request, self.request_path]\n        super()._setup_message()", ["D11.5"])
M("C11", "session-zero", CD, '"session_id": self._session,', '"session_id": 0,', ["D11.6"])
M("C11", "cid-from-4-8", CD, "self._target_cid = response.value[:4]", "self._target_cid = response.value[4:8]", ["D11.6"])
M("C11", "rr-keeps-addr", PE, "return super()._build_common_packet_format(message, addr_data=None)", "return super()._build_common_packet_format(message, addr_data=addr_data)", ["D11.3"])
M("C11", "unregister-expects-reply", PE, "    response_class = UnRegisterSessionResponsePacket\n    no_response = True", "    response_class = UnRegisterSessionResponsePacket\n    no_response = False", ["D11.4"])
M("C11", "context-7", CD, '"context": b"_pycomm_",', '"context": b"pycomm_",', ["D11.1"])
M("C11", "status-nonzero", PB, 'b"\\x00\\x00\\x00\\x00",  # Status UDINT', 'b"\\x01\\x00\\x00\\x00",  # Status UDINT', ["D11.1"])
M("C11", "msg-insert-front", PC, "        self._msg += [self.service, req_path, self.request_data]", "        self._msg.insert(0, self.service)\n        self._msg += [req_path, self.request_data]", ["D11.5"])
T("C11", "cpf-sum", PB, "        return b\"\".join(\n            [\n                b\"\\x00\\x00\\x00\\x00\",  # Interface Handle: shall be 0 for CIP\n                self._timeout,", "        return b\"\".join(\n            (\n                bytes(4),  # Interface Handle: shall be 0 for CIP\n                self._timeout,", more=[(PB, "                UINT.encode(len(message)),\n                message,\n            ]\n        )", "                UINT.encode(len(message)),\n                message,\n            )\n        )")])
T("C11", "rename-common", PB, "        common = self._build_common_packet_format(msg, addr_data=target_cid)\n        header = self._build_header(\n            self._encap_command, len(common), session_id, context, option\n        )\n        return header + common", "        body = self._build_common_packet_format(msg, addr_data=target_cid)\n        hdr = self._build_header(\n            self._encap_command, len(body), session_id, context, option\n        )\n        return hdr + body")

# ------------------------------------------------------------------ C09
M("C09", "format-reserved", DT, "        4: 0b_000_000_10,  # 32-bit", "        4: 0b_000_000_11,  # 32-bit", ["D9.1"])
M("C09", "attribute-bits", DT, '        "attribute_id": 0b_000_100_00,', '        "attribute_id": 0b_000_101_00,', ["D9.1"])
M("C09", "threshold-100", DT, "            if _value <= 0xFF:\n                _value = USINT.encode(_value)", "            if _value <= 0x100:\n                _value = USINT.encode(_value)", ["D9.2"])
M("C09", "uint-for-udint", DT, "            elif _value <= 0xFFFF_FFFF:\n                _value = UDINT.encode(_value)", "            elif _value <= 0xFFFF_FFFF:\n                _value = UINT.encode(_value)", ["D9.2"])
M("C09", "pad-when-even", DT, "if padded and (len(_segment) + len(_value)) % 2:", "if padded and not (len(_segment) + len(_value)) % 2:", ["D9.3"])
M("C09", "pad-after-value", DT, "        return _segment + _value\n", "        return _value + _segment\n", ["D9.3"])
M("C09", "symbolic-len-after-pad", DT, "        _data = segment.data.encode()\n        _len = len(_data)\n        if _len % 2:\n            _data += b\"\\x00\"\n        return USINT.encode(_segment) + USINT.encode(_len) + _data", "        _data = segment.data.encode()\n        if len(_data) % 2:\n            _data += b\"\\x00\"\n        _len = len(_data)\n        return USINT.encode(_segment) + USINT.encode(_len) + _data", ["D9.3"])
M("C09", "prefix-bytes", DT, "_len = USINT.encode(len(path) // 2)", "_len = USINT.encode(len(path))", ["D9.3"])
M("C09", "member-not-member-id", PU, 'segments += [LogicalSegment(int(idx), "member_id") for idx in index]', 'segments += [LogicalSegment(int(idx), "member") for idx in index]', ["D9.4", "D9.5"])
M("C09", "instance-without-program-test", PU, "            use_instance_ids\n            and not base.startswith(\"Program:\")\n            and tag_info.get(\"instance_id\")", "            use_instance_ids\n            and tag_info.get(\"instance_id\")", ["D9.5"])
M("C09", "attribute-before-instance", PU, '        LogicalSegment(class_code, "class_id"),\n        LogicalSegment(instance, "instance_id"),\n    ]\n\n    if attribute:', '        LogicalSegment(instance, "instance_id"),\n        LogicalSegment(class_code, "class_id"),\n    ]\n\n    if attribute:', ["D9.5"])
M("C09", "ext-link-bit-always", DT, "        if len(link) > 1:\n            port |= cls.extended_link\n            _len = USINT.encode(len(link))\n        else:\n            _len = b\"\"", "        port |= cls.extended_link\n        if len(link) > 1:\n            _len = USINT.encode(len(link))\n        else:\n            _len = b\"\"", ["D9.6"])
M("C09", "symbol-class-6c", PU, "LogicalSegment(ClassCode.symbol_object, \"class_id\"),\n                LogicalSegment(tag_info[\"instance_id\"], \"instance_id\"),", "LogicalSegment(ClassCode.template_object, \"class_id\"),\n                LogicalSegment(tag_info[\"instance_id\"], \"instance_id\"),", ["D9.5"])
M("C09", "reversed-index", PU, 'segments += [LogicalSegment(int(idx), "member_id") for idx in index]', 'segments += [LogicalSegment(int(idx), "member_id") for idx in reversed(index)]', ["D9.5"])
M("C09", "padded-false", DT, "class PADDED_EPATH(EPATH):\n    padded = True", "class PADDED_EPATH(EPATH):\n    padded = False", ["D9.3"])
M("C09", "data-segment-type", DT, "    segment_type = 0b_100_00000\n    extended_symbol = 0b_000_10001", "    segment_type = 0b_100_00000\n    extended_symbol = 0b_000_10000", ["D9.1"])
T("C09", "hex-thresholds", DT, "            if _value <= 0xFF:", "            if _value <= 255:")
T("C09", "shift-prefix", DT, "_len = USINT.encode(len(path) // 2)", "_len = USINT.encode(len(path) >> 1)")
T("C09", "format-decimal", DT, "        4: 0b_000_000_10,  # 32-bit", "        4: 2,  # 32-bit")

# ------------------------------------------------------------------ C14
M("C14", "data-before-path", PC, "        self._msg += [self.service, req_path, self.request_data]", "        self._msg += [self.service, self.request_data, req_path]", ["D14.1"])
M("C14", "ucmm-no-route", PC, "            msg = [self.service, req_path, self.request_data, self.route_path]", "            msg = [self.service, req_path, self.request_data]", ["D14.1"])
M("C14", "unsend-drops-data", PC, "                    b\"\".join((self.service, req_path, self.request_data)),", "                    b\"\".join((self.service, req_path)),", ["D14.1"])
M("C14", "pad-when-even", PU, 'b"\\x00" if msg_len % 2 else b"",', 'b"" if msg_len % 2 else b"\\x00",', ["D14.2"])
M("C14", "embedded-size-plus1", PU, "            UINT.encode(msg_len),\n            message,", "            UINT.encode(msg_len + 1),\n            message,", ["D14.2"])
M("C14", "unsend-service-54", PU, "            ConnectionManagerServices.unconnected_send,\n            rp,", "            ConnectionManagerServices.forward_open,\n            rp,", ["D14.2"])
M("C14", "str-route-no-padlength", CD, "                    parse_cip_route(route_path), length=True, pad_length=True\n", "                    parse_cip_route(route_path), length=True\n", ["D14.3"])
M("C14", "decode-although-invalid", PC, "        if self.data_type is None:\n            self.value = self.data\n        elif self.is_valid():\n            try:\n                self.value = self.data_type.decode(self.data)\n            except Exception as err:\n                self.__log.exception(\"Failed to parse reply\")\n                self._error = f\"Failed to parse reply - {err}\"\n                self.value = None\n\n\nclass GenericConnectedRequestPacket", "        if self.data_type is None:\n            self.value = self.data\n        else:\n            try:\n                self.value = self.data_type.decode(self.data)\n            except Exception as err:\n                self.__log.exception(\"Failed to parse reply\")\n                self._error = f\"Failed to parse reply - {err}\"\n                self.value = None\n\n\nclass GenericConnectedRequestPacket", ["D14.4"])
M("C14", "plc-name-class-65", LX, "                class_code=ClassCode.program_name,\n                instance=1,", "                class_code=b\"\\x65\",\n                instance=1,", ["D14.5"])
M("C14", "get-time-service", LX, "            service=Services.get_attribute_list,\n            class_code=ClassCode.wall_clock_time,", "            service=Services.get_attribute_single,\n            class_code=ClassCode.wall_clock_time,", ["D14.5"])
M("C14", "module-info-no-unsend", CD, "                connected=False,\n                unconnected_send=True,\n                route_path=PADDED_EPATH.encode(", "                connected=False,\n                unconnected_send=False,\n                route_path=PADDED_EPATH.encode(", ["D14.5"])
M("C14", "tag-drops-error", CD, "        return Tag(name, response.value, data_type, error=response.error)", "        return Tag(name, response.value, data_type)", ["D14.4"])
M("C14", "service-no-normalise", PC, "        self.service = service if isinstance(service, bytes) else bytes([service])\n        self.request_data = request_data\n        self.route_path = route_path", "        self.service = service if isinstance(service, bytes) else bytes(service)\n        self.request_data = request_data\n        self.route_path = route_path", ["D14.1"])
M("C14", "set-time-attr-order", LX, "        _struct = Struct(UINT, UINT, ULINT)", "        _struct = Struct(UINT, ULINT, UINT)", ["D14.5"])
M("C14", "swap-class-instance", CD, '            "class_code": class_code,\n            "instance": instance,', '            "class_code": instance,\n            "instance": class_code,', ["D14.3"])
T("C14", "pad-len", PU, 'b"\\x00" if msg_len % 2 else b"",', 'b"\\x00" if len(message) % 2 else b"",')

# ------------------------------------------------------------------ C15
M("C15", "no-comma", CD, 'path = path.replace("\\\\", "/").replace(",", "/")', 'path = path.replace("\\\\", "/")', ["D15.1"])
M("C15", "port-gt-65535", CD, "if port <= 0 or port >= 65535:", "if port < 0 or port > 65536:", ["D15.1"])
M("C15", "no-odd-test", CD, "            if len(segments) % 2:\n                raise RequestError(\n                    \"Invalid connection path, must contain segment pairs(port/link), \"\n                    f\"{len(segments)} segments provided.\"\n                )\n", "", ["D15.2"])
M("C15", "except-valueerror", CD, "    except RequestError:\n        raise\n    except Exception as err:\n        raise RequestError(f\"Failed to parse cip route: {path}\") from err", "    except RequestError:\n        raise\n    except ValueError as err:\n        raise RequestError(f\"Failed to parse cip route: {path}\") from err", ["D15.3"])
M("C15", "bp-2", DT, '        "bp": 0b_000_0_0001,', '        "bp": 0b_000_0_0010,', ["D15.4"])
M("C15", "logix-no-autoslot", LX, "    _auto_slot_cip_path = True", "    _auto_slot_cip_path = False", ["D15.6"])
M("C15", "port-get-default", DT, "            port = cls.port_segments[segment.port]", "            port = cls.port_segments.get(segment.port, 1)", ["D15.5"])
M("C15", "no-ip-validation", DT, "                ipaddress.ip_address(segment.link_address)\n                link = segment.link_address.encode()", "                link = segment.link_address.encode()", ["D15.5", "D9.6"])
M("C15", "single-without-autoslot", CD, "        elif len(segments) == 1 and auto_slot:", "        elif len(segments) == 1:", ["D15.2"])
M("C15", "pairs-from-1", CD, "pairs = (segments[i : i + 2] for i in range(0, len(segments), 2))", "pairs = (segments[i : i + 2] for i in range(1, len(segments), 2))", ["D15.2"])
M("C15", "init-no-flag", CD, "ip, port, _path = parse_connection_path(path, self._auto_slot_cip_path)", "ip, port, _path = parse_connection_path(path)", ["D15.6"])
M("C15", "raise-valueerror-port", CD, "                if port <= 0 or port >= 65535:\n                    raise RequestError(f'Invalid port: {port}')", "                if port <= 0 or port >= 65535:\n                    raise ValueError(f'Invalid port: {port}')", ["D15.1", "D15.3"])
T("C15", "port-range-rewrite", CD, "if port <= 0 or port >= 65535:", "if not 0 < port < 65535:")

# ------------------------------------------------------------------ C16
M("C16", "swap-vendor-product", CT, "class ModuleIdentityObject(\n    Struct(\n        UINT(\"vendor\"),\n        UINT(\"product_type\"),", "class ModuleIdentityObject(\n    Struct(\n        UINT(\"product_type\"),\n        UINT(\"vendor\"),", ["D16.1"])
M("C16", "serial-uint", CT, "        UDINT(\"serial\"),\n        SHORT_STRING(\"product_name\"),\n    )\n):\n    @classmethod\n    def _decode(cls, stream: BytesIO):\n        values = super(ModuleIdentityObject", "        UINT(\"serial\"),\n        SHORT_STRING(\"product_name\"),\n    )\n):\n    @classmethod\n    def _decode(cls, stream: BytesIO):\n        values = super(ModuleIdentityObject", ["D16.1"])
M("C16", "list-serial-04x", CT, "        values[\"serial\"] = f\"{values['serial']:08x}\"\n\n        return values\n\n\nStructTemplateAttributes", "        values[\"serial\"] = f\"{values['serial']:04x}\"\n\n        return values\n\n\nStructTemplateAttributes", ["D16.2"])
M("C16", "unknown-case", CT, "        values[\"vendor\"] = VENDORS.get(values[\"vendor\"], \"UNKNOWN\")\n        values[\"serial\"] = f\"{values['serial']:08x}\"\n\n        return values\n\n\nStructTemplateAttributes", "        values[\"vendor\"] = VENDORS.get(values[\"vendor\"], \"Unknown\")\n        values[\"serial\"] = f\"{values['serial']:08x}\"\n\n        return values\n\n\nStructTemplateAttributes", ["D16.2"])
M("C16", "raw-24", PE, "            self.data = self.raw[26:]", "            self.data = self.raw[24:]", ["D16.3"])
M("C16", "sockaddr-zero-udint", CT, "        IPAddress(\"ip_address\"),\n        ULINT,", "        IPAddress(\"ip_address\"),\n        UDINT,", ["D16.1"])
M("C16", "module-info-decode-invalid", CD, "            if response:\n                return ModuleIdentityObject.decode(response.value)\n            else:\n                raise ResponseError(f\"generic_message did not return valid data - {response.error}\")", "            return ModuleIdentityObject.decode(response.value)", ["D16.5"])
M("C16", "keyswitch-no-default", LX, "            info[\"keyswitch\"] = KEYSWITCH.get(info[\"status\"][0], {}).get(\n                info[\"status\"][1], \"UNKNOWN\"\n            )", "            info[\"keyswitch\"] = KEYSWITCH[info[\"status\"][0]][info[\"status\"][1]]", ["D16.5"])
M("C16", "list-identity-no-close", CD, "        identity = plc._list_identity()\n        plc.close()\n        return identity", "        identity = plc._list_identity()\n        return identity", ["D16.5"])
M("C16", "ip-3", CT, "return ipaddress.IPv4Address(cls._stream_read(stream, 4)).exploded", "return ipaddress.IPv4Address(cls._stream_read(stream, 3)).exploded", ["D16.1"])
M("C16", "state-uint", CT, "        USINT(\"state\"),", "        UINT(\"state\"),", ["D16.1"])
M("C16", "product-type-vendor-table", CT, "        values[\"product_type\"] = PRODUCT_TYPES.get(values[\"product_type\"], \"UNKNOWN\")\n        values[\"vendor\"] = VENDORS.get(values[\"vendor\"], \"UNKNOWN\")\n        values[\"serial\"] = f\"{values['serial']:08x}\"\n\n        return values\n\n    @classmethod\n    def _encode", "        values[\"product_type\"] = VENDORS.get(values[\"product_type\"], \"UNKNOWN\")\n        values[\"vendor\"] = VENDORS.get(values[\"vendor\"], \"UNKNOWN\")\n        values[\"serial\"] = f\"{values['serial']:08x}\"\n\n        return values\n\n    @classmethod\n    def _encode", ["D16.2"])

# ------------------------------------------------------------------ C18
M("C18", "true-division", SLC, "        element_number = bit_position // 16\n        sub_element = bit_position % 16", "        element_number = bit_position / 16\n        sub_element = bit_position - (element_number * 16)", ["D18.1"])
M("C18", "mod-15", SLC, "        sub_element = bit_position % 16", "        sub_element = bit_position % 15", ["D18.1"])
M("C18", "search-again", SLC, "    t = LFBN_RE.fullmatch(tag)", "    t = LFBN_RE.search(tag)", ["D18.2"])
M("C18", "match-unanchored", SLC, "    t = A_RE.fullmatch(tag)", "    t = A_RE.match(tag)", ["D18.2"])
M("C18", "file-256", SLC, "    t = ST_RE.fullmatch(tag)\n    if (\n        t\n        and (1 <= int(t.group(\"file_number\")) <= 255)", "    t = ST_RE.fullmatch(tag)\n    if (\n        t\n        and (1 <= int(t.group(\"file_number\")) <= 256)", ["D18.3"])
M("C18", "bit-16", SLC, "                (1 <= int(t.group(\"file_number\")) <= 255)\n                and (0 <= int(t.group(\"element_number\")) <= 255)\n                and (0 <= int(t.group(\"sub_element\")) <= 15)", "                (1 <= int(t.group(\"file_number\")) <= 255)\n                and (0 <= int(t.group(\"element_number\")) <= 255)\n                and (0 <= int(t.group(\"sub_element\")) <= 16)", ["D18.3"])
M("C18", "no-element-guard", SLC, "            if (1 <= int(t.group(\"file_number\")) <= 255) and (\n                0 <= int(t.group(\"element_number\")) <= 255\n            ):", "            if (1 <= int(t.group(\"file_number\")) <= 255):", ["D18.3"])
M("C18", "new-letter-without-rows", SLC, 'r"(?P<file_type>[LFBN])(?P<file_number>\\d{1,3})"', 'r"(?P<file_type>[LFBNQ])(?P<file_number>\\d{1,3})"', ["D18.4"])
M("C18", "n-size-4", PCCC, '    "N": 2,', '    "N": 4,', ["D18.4"])
M("C18", "f-code", PCCC, '    "F": b"\\x8a",', '    "F": b"\\x8b",', ["D18.4"])
M("C18", "write-swaps-file-type", SLC, "            USINT.encode(_tag[\"data_size\"] * _tag[\"element_count\"]),\n            USINT.encode(int(_tag[\"file_number\"])),\n            PCCC_DATA_TYPE[_tag[\"file_type\"]],", "            USINT.encode(_tag[\"data_size\"] * _tag[\"element_count\"]),\n            PCCC_DATA_TYPE[_tag[\"file_type\"]],\n            USINT.encode(int(_tag[\"file_number\"])),", ["D18.5"])
M("C18", "mask-after-data", SLC, "        return bit_mask + _value", "        return _value + bit_mask", ["D18.6"])
M("C18", "bit-data-ffff", SLC, '_value = bit_mask if value else b"\\x00\\x00"', '_value = b"\\xff\\xff" if value else b"\\x00\\x00"', ["D18.6"])
M("C18", "reply-start-60", CONST, "SLC_REPLY_START = 61", "SLC_REPLY_START = 60", ["D18.7"])
M("C18", "status-57", SLC, "        _status_code = int(data[58])", "        _status_code = int(data[57])", ["D18.7"])
M("C18", "return-on-none", SLC, "        _tag = parse_tag(tag)\n        if _tag is None:\n            raise RequestError(f\"Error parsing the tag passed to read() - {tag}\")", "        _tag = parse_tag(tag)\n        if _tag is None:\n            return Tag(tag, None, None, \"bad tag\")", ["D18.8"])
M("C18", "get-bit-shift", SLC, "    return (value & (1 << idx)) != 0", "    return (value & (1 << (idx + 1))) != 0", ["D18.6"])
M("C18", "acc-offset-2", SLC, "unpack_func(data[new_value + 4 : new_value + 4 + data_size])", "unpack_func(data[new_value + 2 : new_value + 2 + data_size])", ["D18.7"])
M("C18", "fnc-write-aa", CONST, 'SLC_FNC_WRITE = b"\\xab"', 'SLC_FNC_WRITE = b"\\xaa"', ["D18.5"])
M("C18", "bfile-4096", SLC, "        and (0 <= int(t.group(\"element_number\")) <= 4095)", "        and (0 <= int(t.group(\"element_number\")) <= 9999)", ["D18.3"])
T("C18", "shift-mask", SLC, "        element_number = bit_position // 16\n        sub_element = bit_position % 16", "        element_number = bit_position >> 4\n        sub_element = bit_position & 15")
T("C18", "sub-via-floor", SLC, "        sub_element = bit_position % 16", "        sub_element = bit_position - (bit_position // 16) * 16")
