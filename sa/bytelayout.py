"""Abstract interpretation of byte-building code into a *layout*: a sequence of fields.

Field kinds (tuples, first element is the kind):
  ("const", bytes)                         literal / folded constant bytes
  ("enc", T, width, arg)                   T.encode(arg)   T = class name, width = static size or None, arg = canonical atom
  ("lenof", T, width, target, unit)        T.encode(len(target)) ; unit "bytes" | "words" (len//2) | "items"
  ("cut", field, n)                        <field>[:n]  (n canonical atom)
  ("ref", atom)                            an opaque bytes value (parameter, attribute, call result)
  ("pad", cond, bytes)                     bytes present iff cond (canonical atom of the condition)
  ("alt", cond, [fields], [fields])        conditional alternatives
  ("rep", bytes, count)                    bytes * count
  ("each", var, iter, [fields])            b"".join(<fields> for var in iter)
  ("star", atom)                           *atom spliced into a join
  ("unknown", src)

Decoders are summarised as read layouts:
  ("dec", T, width)                        T.decode(stream)
  ("read", n)                              cls._stream_read(stream, n) / stream.read(n)
"""
from __future__ import annotations

import ast
from typing import Dict, List, Optional

from .astutil import attr_path, call_name, walk
from .consteval import UNKNOWN, ClassRef
from .linexpr import atom_name


class ListVal:
    def __init__(self, items=None):
        self.items: List[list] = items or []  # each item: a layout (list of fields)

    def copy(self):
        return ListVal([list(x) for x in self.items])

    def flat(self):
        out = []
        for it in self.items:
            out.extend(it)
        return out


class Layouter:
    def __init__(self, ctx, module, cls=None, func=None, inline_depth=1):
        self.ctx = ctx
        self.module = module
        self.cls = cls
        self.func = func
        self.inline_depth = inline_depth

    # ---------------------------------------------------------------- types
    def type_of(self, e):
        """Resolve expression e (e.g. UINT, cls.len_type, self._type) to (class name, size|None, ClassInfo|None)."""
        v = self.ctx.folder.eval(e, self.module, cls=self.cls, func=self.func)
        if isinstance(v, ClassRef):
            size = self.ctx.folder.class_attr(v.ci, "size")
            return v.ci.name, size if isinstance(size, int) and not isinstance(size, bool) else None, v.ci
        p = attr_path(e)
        if p and p.startswith(("cls.", "self.")) and self.cls is not None:
            v = self.ctx.folder.class_attr(self.cls, p.split(".", 1)[1]) if p.count(".") == 1 else UNKNOWN
            if isinstance(v, ClassRef):
                size = self.ctx.folder.class_attr(v.ci, "size")
                return v.ci.name, size if isinstance(size, int) else None, v.ci
            return p, None, None
        return (p or ast.unparse(e)), None, None

    def const(self, e):
        v = self.ctx.folder.eval(e, self.module, cls=self.cls, func=self.func)
        if v is UNKNOWN and self.cls is not None:
            p = attr_path(e)
            if p and p.count(".") == 1 and p.split(".")[0] in ("self", "cls"):
                v = self.ctx.folder.class_attr(self.cls, p.split(".")[1])
        return v

    # ----------------------------------------------------------- expressions
    def expr(self, e, env: Dict[str, object]) -> List[tuple]:
        v = self.const(e) if not isinstance(e, ast.Name) or e.id not in env else UNKNOWN
        if isinstance(v, (bytes, bytearray)):
            return [("const", bytes(v))] if v else []
        if isinstance(e, ast.Name) and e.id in env:
            val = env[e.id]
            if isinstance(val, ListVal):
                return val.flat()
            return list(val)
        if isinstance(e, ast.Attribute):
            p = attr_path(e)
            if p in env:
                val = env[p]
                return val.flat() if isinstance(val, ListVal) else list(val)
            return [("ref", p or atom_name(e))]
        if isinstance(e, ast.BinOp) and isinstance(e.op, ast.Add):
            return self.expr(e.left, env) + self.expr(e.right, env)
        if isinstance(e, ast.BinOp) and isinstance(e.op, ast.Mult):
            for a, b in ((e.left, e.right), (e.right, e.left)):
                c = self.const(a)
                if isinstance(c, bytes):
                    return [("rep", c, atom_name(b))]
        if isinstance(e, ast.IfExp):
            a = self.expr(e.body, env)
            b = self.expr(e.orelse, env)
            cond = atom_name(e.test)
            if a and not b and all(f[0] == "const" for f in a):
                return [("pad", cond, b"".join(f[1] for f in a))]
            if b and not a and all(f[0] == "const" for f in b):
                return [("pad", f"not({cond})", b"".join(f[1] for f in b))]
            return [("alt", cond, a, b)]
        if isinstance(e, ast.Subscript) and isinstance(e.slice, ast.Slice) and e.slice.lower is None and e.slice.step is None and e.slice.upper is not None:
            inner = self.expr(e.value, env)
            if len(inner) == 1:
                return [("cut", inner[0], atom_name(e.slice.upper))]
        if isinstance(e, ast.Call):
            return self.call(e, env)
        if isinstance(e, ast.Name):
            return [("ref", e.id)]
        if isinstance(e, ast.Subscript) and not isinstance(e.slice, ast.Slice):
            return [("ref", atom_name(e))]
        if isinstance(e, ast.Starred):
            return [("star", atom_name(e.value))]
        return [("unknown", ast.unparse(e))]

    def seq(self, e, env) -> Optional[ListVal]:
        """A list/tuple display or list-valued name -> ListVal."""
        if isinstance(e, (ast.List, ast.Tuple)):
            return ListVal([self.expr(x, env) for x in e.elts])
        if isinstance(e, ast.Name) and isinstance(env.get(e.id), ListVal):
            return env[e.id].copy()
        if isinstance(e, ast.Attribute) and isinstance(env.get(attr_path(e)), ListVal):
            return env[attr_path(e)].copy()
        if isinstance(e, ast.BinOp) and isinstance(e.op, ast.Add):
            a, b = self.seq(e.left, env), self.seq(e.right, env)
            if a is not None and b is not None:
                return ListVal(a.items + b.items)
        if isinstance(e, (ast.GeneratorExp, ast.ListComp)) and len(e.generators) == 1:
            g = e.generators[0]
            var = atom_name(g.target)
            body = self.expr(e.elt, env)
            return ListVal([[("each", var, atom_name(g.iter), body)]])
        if isinstance(e, ast.IfExp):
            a, b = self.seq(e.body, env), self.seq(e.orelse, env)
            if a is not None and b is not None:
                return ListVal([[("alt", atom_name(e.test), a.flat(), b.flat())]])
        return None

    def call(self, e: ast.Call, env) -> List[tuple]:
        f = e.func
        # b"".join(seq)
        if isinstance(f, ast.Attribute) and f.attr == "join" and isinstance(self.const(f.value), bytes) and self.const(f.value) == b"" and len(e.args) == 1:
            lv = self.seq(e.args[0], env)
            if lv is not None:
                return lv.flat()
            return [("each", "?", atom_name(e.args[0]), [("ref", "item")])]
        if isinstance(f, ast.Attribute) and f.attr in ("encode", "_encode") and len(e.args) >= 1:
            tname, width, ci = self.type_of(f.value)
            if ci is not None or tname.startswith(("cls.", "self.")) or (tname and tname[0].isupper()):
                arg = e.args[0]
                # length prefix?
                tgt, unit = self._len_target(arg, env)
                if tgt is not None:
                    return [("lenof", tname, width, tgt, unit)]
                extra = "," + ",".join(atom_name(a) for a in e.args[1:]) if len(e.args) > 1 else ""
                kw = "".join(f",{k.arg}={atom_name(k.value)}" for k in e.keywords)
                return [("enc", tname, width, self._arg_atom(arg, env) + extra + kw)]
            # str.encode(...)
            return [("ref", atom_name(e))]
        if isinstance(f, ast.Name) and f.id == "bytes" and len(e.args) == 1:
            if isinstance(e.args[0], ast.List):
                return [("ref", atom_name(e))]
        # one-level inlining of resolved helper functions returning bytes
        if self.inline_depth > 0:
            target = self._resolve_callee(e)
            if target is not None:
                fi, cls = target
                sub = Layouter(self.ctx, fi.module, cls, fi.node, self.inline_depth - 1)
                sub_env = {}
                params = [a.arg for a in fi.node.args.args]
                if params and params[0] in ("self", "cls"):
                    params = params[1:]
                for p_, a in zip(params, e.args):
                    sub_env[p_] = self.expr(a, env)
                for k in e.keywords:
                    if k.arg:
                        sub_env[k.arg] = self.expr(k.value, env)
                res = sub.function(fi.node, sub_env)
                if res is not None:
                    return [("call", atom_name(e.func), res)]
        return [("ref", atom_name(e))]

    def _resolve_callee(self, e: ast.Call):
        f = e.func
        m = self.ctx.model
        if isinstance(f, ast.Name):
            s = m.resolve(self.module.name, f.id)
            if s is not None and s.kind == "func" and s.node in m.func_by_node:
                return m.func_by_node[s.node], None
        if isinstance(f, ast.Attribute) and isinstance(f.value, ast.Name) and f.value.id in ("self", "cls") and self.cls is not None:
            fi = m.method(self.cls, f.attr)
            if fi is not None:
                return fi, self.cls
        return None

    def _arg_atom(self, arg, env):
        if isinstance(arg, ast.Name) and arg.id in env and not isinstance(env[arg.id], ListVal):
            val = env[arg.id]
            if len(val) == 1 and val[0][0] == "intexpr":
                return val[0][1]
        c = self.const(arg)
        if isinstance(c, (int, str)) and not isinstance(c, bool):
            return repr(c)
        return atom_name(arg)

    def _len_target(self, arg, env):
        """T.encode(len(X)) / len(X)//2 / a name bound to len(X)."""
        unit = "bytes"
        a = arg
        if isinstance(a, ast.Name) and a.id in env and not isinstance(env[a.id], ListVal):
            val = env[a.id]
            if len(val) == 1 and val[0][0] == "lenexpr":
                return val[0][1], val[0][2]
        if isinstance(a, ast.BinOp) and isinstance(a.op, (ast.FloorDiv, ast.RShift)):
            k = self.const(a.right)
            if (isinstance(a.op, ast.FloorDiv) and k == 2) or (isinstance(a.op, ast.RShift) and k == 1):
                unit = "words"
                a = a.left
        if isinstance(a, ast.Call) and isinstance(a.func, ast.Name) and a.func.id == "len" and len(a.args) == 1:
            return atom_name(a.args[0]), unit
        return None, None

    # ------------------------------------------------------------ statements
    def function(self, func, env=None):
        """Layout returned by a function (alternatives merged with alt); None when not interpretable."""
        env = dict(env or {})
        res = self.block(list(func.body), env)
        return res

    def block(self, stmts, env):
        """Execute statements; returns the layout of the value returned, or None if the block falls through."""
        for i, st in enumerate(stmts):
            if isinstance(st, ast.Expr) and isinstance(st.value, ast.Constant):
                continue
            if isinstance(st, ast.Return):
                if st.value is None:
                    return []
                lv = self.seq(st.value, env)
                if lv is not None and not isinstance(st.value, ast.Name):
                    return lv.flat()
                return self.expr(st.value, env)
            if isinstance(st, ast.If):
                rest = stmts[i + 1:]
                pad = self._parity_pad(st, env)
                if pad is not None:
                    name, field = pad
                    cur = env.get(name)
                    if isinstance(cur, ListVal):
                        cur = cur.copy()
                        cur.items.append([field])
                        env[name] = cur
                    else:
                        env[name] = list(cur or [("ref", name)]) + [field]
                    continue
                if not any(isinstance(x, (ast.Return, ast.Raise)) for b in (st.body, st.orelse) for s_ in b for x in walk(s_)):
                    # no early exit inside: run both arms and merge the environments
                    env_a, env_b = self._copy_env(env), self._copy_env(env)
                    self.block(list(st.body), env_a)
                    self.block(list(st.orelse), env_b)
                    cond = atom_name(st.test)
                    for k in set(env_a) | set(env_b):
                        va, vb = env_a.get(k), env_b.get(k)
                        fa = va.flat() if isinstance(va, ListVal) else va
                        fb = vb.flat() if isinstance(vb, ListVal) else vb
                        if fa == fb:
                            env[k] = va if va is not None else vb
                        elif isinstance(va, ListVal) and isinstance(vb, ListVal):
                            n = 0
                            while n < len(va.items) and n < len(vb.items) and va.items[n] == vb.items[n]:
                                n += 1
                            ra_ = [f for it in va.items[n:] for f in it]
                            rb_ = [f for it in vb.items[n:] for f in it]
                            env[k] = ListVal(va.items[:n] + [[("alt", cond, ra_, rb_)]])
                        else:
                            env[k] = [("alt", cond, fa if fa is not None else [("ref", k)], fb if fb is not None else [("ref", k)])]
                    continue
                env_a, env_b = self._copy_env(env), self._copy_env(env)
                ra = self.block(st.body + rest, env_a)
                rb = self.block(st.orelse + rest, env_b)
                cond = atom_name(st.test)
                if ra is None and rb is None:
                    return None
                if ra == rb:
                    return ra
                return [("alt", cond, ra if ra is not None else [("unknown", "no-return")], rb if rb is not None else [("unknown", "no-return")])]
            if isinstance(st, ast.Try):
                rest = stmts[i + 1:]
                r = self.block(st.body + st.orelse + rest, env)
                return r
            if isinstance(st, (ast.For,)):
                self._for(st, env)
                continue
            if isinstance(st, ast.Raise):
                return [("raise", call_name(st.exc) if isinstance(st.exc, ast.Call) else attr_path(st.exc))]
            self.simple(st, env)
        return None

    def _copy_env(self, env):
        return {k: (v.copy() if isinstance(v, ListVal) else list(v)) for k, v in env.items()}

    def _parity_pad(self, st: ast.If, env):
        """`if <parity cond>: x += <const bytes>` with no else -> (x, pad field)."""
        if st.orelse or len(st.body) != 1:
            return None
        b = st.body[0]
        if isinstance(b, ast.AugAssign) and isinstance(b.op, ast.Add):
            c = self.const(b.value)
            name = attr_path(b.target)
            if isinstance(c, bytes) and name:
                return name, ("pad", atom_name(st.test), c)
        if isinstance(b, ast.Expr) and isinstance(b.value, ast.Call) and isinstance(b.value.func, ast.Attribute) and b.value.func.attr == "append" and len(b.value.args) == 1:
            c = self.const(b.value.args[0])
            name = attr_path(b.value.func.value)
            if isinstance(c, bytes) and name:
                return name, ("pad", atom_name(st.test), c)
        return None

    def _for(self, st: ast.For, env):
        # for x in xs: acc += f(x)   /  acc.append(f(x))
        var = atom_name(st.target)
        it = atom_name(st.iter)
        sub_env = self._copy_env(env)
        before = {k: (len(v.items) if isinstance(v, ListVal) else len(v)) for k, v in sub_env.items()}
        for s in st.body:
            if isinstance(s, (ast.If, ast.For, ast.Try, ast.Return)):
                continue
            self.simple(s, sub_env)
        for k, v in sub_env.items():
            if k in before:
                if isinstance(v, ListVal) and len(v.items) > before[k]:
                    new = [f for item in v.items[before[k]:] for f in item]
                    env[k] = ListVal(env[k].items + [[("each", var, it, new)]])
                elif not isinstance(v, ListVal) and len(v) > before[k]:
                    env[k] = list(env[k]) + [("each", var, it, v[before[k]:])]

    def simple(self, st, env):
        if isinstance(st, ast.Assign) and len(st.targets) == 1:
            name = attr_path(st.targets[0])
            if name is None:
                return
            v = st.value
            # integer helpers: n = len(x)  /  n = len(x) // 2
            tgt, unit = self._len_target(v, env)
            if tgt is not None:
                env[name] = [("lenexpr", tgt, unit)]
                return
            lv = self.seq(v, env)
            if lv is not None:
                env[name] = lv
                return
            env[name] = self.expr(v, env)
            return
        if isinstance(st, ast.AnnAssign) and st.value is not None:
            return self.simple(ast.Assign(targets=[st.target], value=st.value), env)
        if isinstance(st, ast.AugAssign) and isinstance(st.op, (ast.Add, ast.BitOr)):
            name = attr_path(st.target)
            if name is None:
                return
            cur = env.get(name)
            if isinstance(st.op, ast.BitOr):
                env[name] = [("intexpr", f"{name}|{atom_name(st.value)}")]
                return
            if isinstance(cur, ListVal):
                lv = self.seq(st.value, env)
                cur = cur.copy()
                if lv is not None:
                    cur.items.extend(lv.items)
                else:
                    cur.items.append([("star", atom_name(st.value))])
                env[name] = cur
                return
            if cur is None:
                lv = self.seq(st.value, env)
                if lv is not None and name.startswith("self."):
                    env[name] = ListVal([[("ref", name)]] + lv.items)
                    return
                cur = [("ref", name)]
            env[name] = list(cur) + self.expr(st.value, env)
            return
        if isinstance(st, ast.Expr) and isinstance(st.value, ast.Call) and isinstance(st.value.func, ast.Attribute):
            c = st.value
            name = attr_path(c.func.value)
            if c.func.attr == "append" and name and len(c.args) == 1:
                cur = env.get(name)
                if cur is None and name.startswith("self."):
                    cur = ListVal([[("ref", name)]])
                if isinstance(cur, ListVal):
                    cur = cur.copy()
                    cur.items.append(self.expr(c.args[0], env))
                    env[name] = cur
            elif c.func.attr == "extend" and name and len(c.args) == 1:
                cur = env.get(name)
                lv = self.seq(c.args[0], env)
                if isinstance(cur, ListVal) and lv is not None:
                    cur = cur.copy()
                    cur.items.extend(lv.items)
                    env[name] = cur


def flatten(layout) -> List[tuple]:
    """Drop ("call", name, fields) wrappers."""
    out = []
    for f in layout or []:
        if f[0] == "call":
            out.extend(flatten(f[2]))
        else:
            out.append(f)
    return out


def strip_guards(layout) -> List[tuple]:
    """Layout of the non-raising executions: an alternative one of whose sides only raises is a precondition guard,
    and the bytes produced are those of the other side."""
    out = []
    for f in flatten(layout or []):
        if f[0] == "alt":
            a, b = flatten(f[2]), flatten(f[3])
            ra = len(a) == 1 and a[0][0] == "raise"
            rb = len(b) == 1 and b[0][0] == "raise"
            if ra and not rb:
                out.extend(strip_guards(b))
                continue
            if rb and not ra:
                out.extend(strip_guards(a))
                continue
        out.append(f)
    return out


def merge_consts(layout) -> List[tuple]:
    out = []
    for f in flatten(layout):
        if f[0] == "const" and out and out[-1][0] == "const":
            out[-1] = ("const", out[-1][1] + f[1])
        else:
            out.append(f)
    return out


def show(layout) -> List[str]:
    out = []
    for f in flatten(layout or []):
        k = f[0]
        if k == "const":
            out.append("const:" + f[1].hex())
        elif k == "enc":
            out.append(f"{f[1]}({f[3]})" + (f":{f[2]}" if f[2] else ""))
        elif k == "lenof":
            out.append(f"{f[1]}(len[{f[4]}] {f[3]})")
        elif k == "cut":
            out.append(f"{show([f[1]])[0]}[:{f[2]}]")
        elif k == "ref":
            out.append(f"<{f[1]}>")
        elif k == "pad":
            out.append(f"pad[{f[2].hex()}] if {f[1]}")
        elif k == "alt":
            out.append(f"alt({f[1]} ? {' + '.join(show(f[2])) or 'nothing'} : {' + '.join(show(f[3])) or 'nothing'})")
        elif k == "rep":
            out.append(f"{f[1].hex()}*{f[2]}")
        elif k == "each":
            out.append(f"each {f[1]} in {f[2]}: ({' + '.join(show(f[3]))})")
        elif k == "star":
            out.append(f"*{f[1]}")
        else:
            out.append(f"{k}:{f[1:]}")
    return out


def static_width(layout) -> Optional[int]:
    """Total byte width when every field has a static width, else None."""
    total = 0
    for f in flatten(layout or []):
        if f[0] == "const":
            total += len(f[1])
        elif f[0] in ("enc", "lenof") and isinstance(f[2], int):
            total += f[2]
        else:
            return None
    return total


# ------------------------------------------------------------------ decoders
def read_layout(ctx, func, module, cls) -> List[tuple]:
    """Sequence of stream reads performed by a _decode body, in evaluation order
    (source order; Python evaluates tuple/dict displays left to right)."""
    lay = Layouter(ctx, module, cls, func)
    out = []
    stream_names = {a.arg for a in func.args.args[1:2]} | {"stream"}

    def visit(n):
        if isinstance(n, (ast.FunctionDef, ast.Lambda)) and n is not func:
            return
        if isinstance(n, ast.Call):
            f = n.func
            if isinstance(f, ast.Attribute) and f.attr in ("decode", "_decode") and n.args and atom_name(n.args[0]) in stream_names:
                tname, width, ci = lay.type_of(f.value)
                out.append(("dec", tname, width))
                return
            if isinstance(f, ast.Attribute) and f.attr in ("_stream_read", "read"):
                args = n.args[1:] if f.attr == "_stream_read" else n.args
                for a in n.args:
                    visit(a)
                sz = args[0] if args else None
                c = lay.const(sz) if sz is not None else None
                out.append(("read", c if isinstance(c, int) else (atom_name(sz) if sz is not None else None)))
                return
        for c in ast.iter_child_nodes(n):
            visit(c)

    for st in func.body:
        visit(st)
    return out
