#!/usr/bin/env python3
"""Developer helper: regenerate MANIFEST.json from the rule registry (run in /verif)."""
import json
import os
import sys

sys.path.insert(0, os.path.dirname(os.path.abspath(__file__)))
from sa import rules  # noqa
from sa.framework import REGISTRY  # noqa

PY = "/venv/bin/python"
BASE = "cd /repo && /venv/bin/python -m pytest -ra -q -p no:cacheprovider --timeout=900 --continue-on-collection-errors"

TECH = {
    "C01": "AST dataflow + sibling cross-check of reply-splitting/demultiplexing/reassembly code, record-key agreement",
    "C02": "who-may-write + dominance (CFG) + byte-layout abstract interpretation vs spec",
    "C03": "truth table, CFG path counting (one append per iteration), dominance, exception-escape analysis",
    "C04": "dominance (CFG), accumulator/tiling recognisers, linear normal forms",
    "C05": "sibling agreement request vs parser, bit-field checks, dominance, accumulator discipline",
    "C06": "byte-layout abstract interpretation of encode vs decode per class through the MRO, unit lattice",
    "C07": "constant folding through MRO compared with an independent CIP type table",
    "C08": "exception-containment recogniser (T-WRAP) over all overrides, CFG dominance for read guards",
    "C09": "constant folding of segment bit tables vs CIP spec, interval and parity checks on encoders",
    "C10": "typestate: call-graph who-may-call + CFG dominance/post-dominance incl. exceptional edges, finite abstract execution of the guard",
    "C11": "byte-layout abstract interpretation vs encapsulation spec, length-field/payload agreement",
    "C12": "CFG progress/dominance analysis of the receive/send loops, linear normal forms",
    "C13": "truth-table equivalence, offset constant folding vs spec, containment recogniser over all _parse_reply",
    "C14": "sibling byte-layout comparison of the three transports, layout vs spec, keyword-fact agreement",
    "C15": "dataflow + dominance + containment recogniser on the two parsers, table vs spec",
    "C16": "type-expression evaluation of identity structures vs spec, sibling agreement of post-processing",
    "C17": "symbolic path analysis of the counter generator, T-FRESH over all construction sites, who-may-write",
    "C18": "regex AST facts, integer-type inference, dominance of range guards, table vs DF1 spec, sibling layout",
    "C19": "dataflow shape of the metaclass, per-member table obligations after constant folding, values vs spec",
}


def main():
    props = [json.loads(l) for l in open("properties.jsonl")]
    checks, na = [], []
    for p in props:
        pid = p["id"]
        mod = rules.MODULES.get(pid)
        if mod is None or not REGISTRY.get(pid):
            na.append({"property_id": pid, "reason": "static check not built yet in this session; see DESIGN.md section 5 for the decidable clauses planned"})
            continue
        rule_ids = ", ".join(r.id for r in REGISTRY[pid])
        checks.append(
            {
                "property_id": pid,
                "quick_cmd": f"{PY} -m sa.run check {pid} --tier quick",
                "thorough_cmd": f"{PY} -m sa.run check {pid} --tier thorough",
                "evidence_file": f"/verif/evidence/{pid}.json",
                "replay_cmd_template": f"{PY} -m sa.run check {pid} --replay {{path}}",
                "engine": "sa",
                "technique": "static analysis: " + TECH[pid],
                "level_claimed": {
                    "category": "other",
                    "text": (
                        f"Static analysis of /repo's current source (ast; nothing imported or executed). Decides the structural necessary conditions "
                        f"{rule_ids} of {pid} on every path / class / call site / table member they quantify over; a VIOLATION names the construct (file:line, rule). "
                        "It does not prove the behavioural property: clauses that quantify over run-time values are listed as not decided in DESIGN.md section 5. "
                        + getattr(mod, "EXPLANATION", "")
                    ),
                    "design_ref": f"DESIGN.md section 5, {pid}",
                },
                "level_note": "Trusted base: CPython's ast parser, the specification tables under /verif/spec (typed from the CIP / EtherNet-IP / Logix / DF1 documents), the sa engine. "
                "Assumes no monkey-patching/setattr beyond what the repository does. " + "; ".join(getattr(mod, "ASSUMPTIONS", [])),
            }
        )
    m = {
        "version": 1,
        "setup_cmd": f"{PY} -m sa.run selfcheck",
        "hooks": {
            "guard": "PYCOMM3_VERIF",
            "enable": "no hooks: the checks are static and read /repo's working tree as source text (guard unused)",
            "baseline_off_cmd": BASE,
            "source_commits": [],
            "add_only": True,
        },
        "engines": [
            {"name": "sa", "path": "/verif/sa", "serves_properties": [c["property_id"] for c in checks],
             "kind_free_text": "repository-specific static analyser: program model (imports, MRO, factories), constant folder, CFG with exceptional edges and (post)dominators, byte-layout abstract interpreter, truth tables, linear normal forms, containment recogniser; rules in sa/rules/Cxx.py; spec tables in spec/"}
        ],
        "checks": checks,
        "not_applicable": na,
        "notes": "Technique family: static analysis only. Exit 0 = all decided clauses hold (KNOWN-FINDING lines for recorded defects), 1 = VIOLATION lines, 2 = ANALYSIS-ERROR (anchor vanished / checker failure). "
        "The thorough tier adds the checker's own sensitivity sweep (in-memory mutants, refactor twins, seeded changes) to the evidence. Genuine defects found and repaired are listed in known_findings.json (status fixed).",
    }
    json.dump(m, open("MANIFEST.json", "w"), indent=1)
    print(f"{len(checks)} checks, {len(na)} not applicable")


if __name__ == "__main__":
    main()
